"""pygen_pxupdate — regenerated model (translator tie, see harness/pygen.py) of `intertest_setup.update` (C15).

    GenUpdate.lean   genRemoveSet     the remove-set restriction of one vm (front part of the worker loop body)
                     genFlagPasses    the flagging passes of one (vm, worker) iteration (rest of the worker loop body)
                     genBridgePair    the body of the all-pairs bridging loop
                     + the loop skeleton (`genWorkerBody`, `genUpdate`, `genBridgeAll`), printed from this module after the
                       structure of the Python function has been matched

`update` is two nested loops around a `try` that calls the parser; `pygen.translate` works on straight FunctionDefs, so
this module cuts the function into pieces — mechanically and failing closed — and hands the translator synthetic
functions whose bodies ARE the statements of the source (the very AST nodes, nothing rewritten):

    prologue (pinned)                                         |  stands for the arguments of `genUpdate`
    for i, vm_name in enumerate(selected_vms):                |  skeleton `genUpdate` (vms with their index)
        <5 statements, pinned: VM_PREFIX>                     |  `from_state` / `to_state` / `vm_objects` of the vm
        for worker in graph.workers.values():                 |  skeleton (workers, in order)
            <front statements>                                |  -> def update_remove_set(...): …; return setup_str
            try: clean_graph = l.parse_object_trees(…)        |  pinned call = `env.parseClean`; the handler must be
            except param.EmptyCartesianProduct as error:      |  `<log calls>; continue` (a `break`, `raise`, `pass`
                logging.warning(error); continue              |  is refused) = the worker is skipped
            <rest statements>                                 |  -> def update_flag_passes(...): …
    <log>; for node1 in graph.nodes: for node2 in …: <body>   |  -> def update_bridge_pair(node1, node2): <body> (`continue`
                                                              |     of the inner loop = `return`), skeleton `genBridgeAll`
    epilogue (pinned)                                         |  shared root + run_workers: the traversal's business

Trusted with this module (in addition to harness/pygen.py): the cut; the atom / statement tables below; that the parser
calls are functions of what `UEnv` (lean/I2N/Lemmas/ToolsUpdate.lean) keys them by (restriction, index of the vm, vm,
worker): `setup_dict` is built from `config["param_dict"]`, the vm and the worker only (its seven statements are pinned).
"""
import ast
import copy
import os
import sys

HERE = os.path.dirname(os.path.abspath(__file__))
if HERE not in sys.path:
    sys.path.insert(0, HERE)
import pygen  # noqa: E402
from pygen import Unsupported, Spec  # noqa: E402

# ---------------------------------------------------------------------------------------------------------------------
# pinned text

UPD_BEFORE = '''
l, r = config["graph"].l, config["graph"].r
selected_vms = sorted(config["vm_strs"].keys())
LOG_UI.info(
    "Update state cache for %s (%s)",
    ", ".join(selected_vms),
    os.path.basename(r.job.logdir),
)
graph = TestGraph()
graph.new_workers(l.parse_workers(config["param_dict"]))
for vm_name in selected_vms:
    new_vms = TestGraph.parse_composite_objects(
        vm_name, "vms", config["vm_strs"][vm_name]
    )
    graph.new_objects(new_vms)
    for new_vm in new_vms:
        graph.new_objects(TestGraph.parse_components_for_object(new_vm, "vms"))
'''

UPD_AFTER = '''
graph.parse_shared_root_from_object_roots(config["param_dict"])
r.run_workers(graph, config["param_dict"])
LOG_UI.info("Finished updating cache")
'''

VM_PREFIX = '''
vm_params = config["vms_params"].object_params(vm_name)
vm_objects = graph.get_objects(param_val=vm_name)
from_state = vm_params.get("from_state", "install")
to_state = vm_params.get("to_state", "customize")
logging.info("Updating state '%s' of %s", to_state, vm_name)
'''

PARSE_CLEAN = '''
clean_graph = l.parse_object_trees(
    worker=worker,
    restriction=setup_str,
    prefix=f"{tag}m{i + 1}",
    object_restrs=config["available_vms"],
    params=setup_dict,
    verbose=False,
    with_shared_root=False,
)
'''

SETUP_DICT = [
    'setup_dict = config["param_dict"].copy()',
    'setup_dict["create_permanent_vm"] = "yes"',
    'setup_dict["main_vm"] = vm_name',
    'setup_dict["vms"] = vm_name',
    'setup_dict["nets"] = worker.id',
    'setup_dict.update({"get_mode": "ra", "set_mode": "ff", "unset_mode": "fi"})',
]

FC_CLEAN_LOOP = '''
for vm_object in vm_objects:
    try:
        clean_graph.flag_children(
            flag_state,
            vm_name,
            vm_object.component_form + r".*" + worker.id,
            flag_type="clean",
            flag=lambda self, slot: len(self.cloned_nodes) == 0,
            skip_parents=True,
        )
    except AssertionError as error:
        logging.error(error)
        raise ValueError(
            f"Could not identify a test node from {vm_name}'s to_state='{flag_state}', "
            f"is it compatible with the default or specified remove_set?"
        )
'''

FC_RUN_LOOP = '''
for vm_object in vm_objects:
    try:
        clean_graph.flag_children(
            from_state,
            vm_name,
            vm_object.component_form + r".*" + worker.id,
            flag_type="run",
            flag=lambda self, slot: not self.is_finished(slot)
            or self.should_rerun(slot),
            skip_children=True,
        )
    except AssertionError as error:
        logging.error(error)
        raise ValueError(
            f"Could not identify a test node from {vm_name}'s from_state='{from_state}', "
            f"is it compatible with the default or specified remove_set?"
        )
'''

INSTALL_BRANCH = '''
run_graph = l.parse_object_trees(
    worker=worker,
    restriction=param.re_str("all..customize"),
    prefix=tag,
    object_restrs={vm_name: config["vm_strs"][vm_name]},
    params=setup_dict,
    verbose=False,
)
install_nodes = run_graph.get_nodes_by_name("all.original")
# produce a terminal node only run graph
run_graph = TestGraph()
run_graph.new_objects(clean_graph.objects)
run_graph.new_nodes(install_nodes)
'''


def _parse_names(state_expr):
    return ('l.parse_object_trees(worker=worker, restriction=param.re_str("all.." + %s), prefix=tag, '
            'object_restrs={vm_name: config["vm_strs"][vm_name]}, params=setup_dict, verbose=False)' % state_expr)


NEVER = "lambda self, slot: False"
RERUN = "lambda self, slot: not self.is_finished(slot) or self.should_rerun(slot)"

UPD_PRELUDE = [
    "/-- the policy table of the (vm, worker) graph being flagged is the state; an exception ends `update` -/",
    "abbrev FM := StateT Flags (Except Err)",
    "/-- `clean_graph.flag_intersection(<graph with these node names>, flag_type=…, flag=…, skip_…)` -/",
    "def fiM (g : UGraph) (names : List String) (ty : FlagType) (p : Pol) (skipObjectRoots skipSharedRoot : Bool) : FM Unit :=",
    "  stepM (fun f => flagIntersection g f names ty p skipObjectRoots skipSharedRoot)",
    "/-- `for vm_object in vm_objects: try: clean_graph.flag_children(state, vm, vm_object.component_form + \".*\" + worker.id,",
    "flag_type=…, flag=…, skip_…) except AssertionError: raise ValueError(…)` (pinned whole, both occurrences) -/",
    "def fcAllM (g : UGraph) (state vm worker : String) (compForms : List String) (ty : FlagType) (p : Pol)",
    "    (skipParents skipChildren : Bool) : FM Unit :=",
    "  stepM (fun f => compForms.foldlM (fun f cf =>",
    "    mapAssertion (flagChildren g f (dotSplit state) vm (some (cf, worker)) ty p skipParents skipChildren)) f)",
]


def remove_set_spec():
    stmts = {s: "pure ()" for s in SETUP_DICT}
    return Spec(
        "genRemoveSet", binders=[("env", "UEnv"), ("vm_name", "String")],
        params={"i": None, "vm_name": ("vm_name", "str"), "worker": None, "vm_params": None, "to_state": None},
        ret="str", monad="Id", effect_loops=True,
        atoms={"vm_params.get('remove_set', 'leaves')": ('((env.vmParam vm_name "remove_set").getD "leaves")', "str"),
               "config['available_restrictions']": ("env.restrictions", "slist")},
        calls={"param.re_str(_1)": ("{1}", "str", "pure", ["str"])},
        stmts=stmts, prims={"substr": "I2N.Trav.strIn"}, ignored_calls={"logging.info"},
        doc="the front part of the worker loop body of `intertest_setup.update` (up to the `try` that parses the "
            "remove-set graph): the restriction `setup_str` handed to the parser — `remove_set` of THE VM "
            "(`vm_params = config[\"vms_params\"].object_params(vm_name)`, pinned), default `leaves`, prefixed with "
            "`all..` unless it mentions an available restriction (`param.re_str` wraps it into `only …`: the parser "
            "oracle `env.parseClean` is keyed by the restriction itself); the statements that build `setup_dict` are pinned")


def flag_passes_spec():
    fi = "clean_graph.flag_intersection(_1, flag_type=%r, flag=%s%s)"
    return Spec(
        "genFlagPasses",
        binders=[("env", "UEnv"), ("g", "UGraph"), ("vm_name", "String"), ("worker", "String"), ("from_state", "String"),
                 ("to_state", "String"), ("vm_objects", "List String")],
        params={"i": None, "vm_name": ("vm_name", "str"), "worker": None, "from_state": ("from_state", "str"),
                "to_state": ("to_state", "str"), "vm_objects": None, "setup_dict": None,
                "clean_graph": ("(g.nodes.map (·.name))", "slist")},
        ret="unit", monad="FM", effect_loops=True,
        atoms={_parse_names("to_state"): ('(env.parseNames ("all.." ++ to_state) vm_name worker)', "slist"),
               _parse_names("from_state"): ('(env.parseNames ("all.." ++ from_state) vm_name worker)', "slist")},
        calls={fi % ("run", NEVER, ""): ("fiM g {1} .run .never false false", "unit", "action", ["slist"]),
               fi % ("clean", NEVER, ""): ("fiM g {1} .clean .never false false", "unit", "action", ["slist"]),
               fi % ("run", RERUN, ", skip_shared_root=True"):
                   ("fiM g {1} .run .notFinishedOrRerun false true", "unit", "action", ["slist"])},
        assign_blocks=[(INSTALL_BRANCH, "run_graph", "(env.installNames vm_name worker)", "slist")],
        stmts={FC_CLEAN_LOOP: "fcAllM g flag_state vm_name worker vm_objects .clean .cloneFree true false",
               FC_RUN_LOOP: "fcAllM g from_state vm_name worker vm_objects .run .notFinishedOrRerun false true",
               'graph.new_objects([o for o in clean_graph.objects if o.key == "nets"])': "pure ()",
               "graph.new_nodes(clean_graph.nodes)": "pure ()"},
        ignored_calls={"logging.info"}, prelude=UPD_PRELUDE,
        doc="the flagging passes of ONE (vm, worker) iteration of `intertest_setup.update` (the worker loop body behind the "
            "`try` that parses the remove-set graph `g`), statement by statement: which run / clean policy goes where, in "
            "program order.  `vm_objects` = the component forms of the vm's objects; the graphs parsed for "
            "`all..<to_state>` / `all..<from_state>` / the install nodes are the oracle's name lists; the two "
            "`flag_children` loops (with their `except AssertionError: raise ValueError`) are pinned whole; "
            "`graph.new_nodes(clean_graph.nodes)` is what the skeleton `genWorkerBody` records")


def bridge_pair_spec():
    return Spec(
        "genBridgePair", binders=[("ns", "List BNode"), ("node1", "Nat"), ("node2", "Nat")],
        params={"node1": ("node1", "Nat"), "node2": ("node2", "Nat")}, ret="unit",
        monad="StateT I2N.Index.Bridging (Except Err)", effect_loops=True,
        fields={("Nat", ".bridged_form"): ("(BNode.formOf ns {0})", "str"), ("Nat", ".id"): ("(BNode.idOf ns {0})", "str")},
        type_defaults={"Nat": "0"},
        calls={"node1.bridge_with_node(_1)": ("modify (fun b => b.bridge node1 {1})", "unit", "action", ["Nat"])},
        raises=[("ValueError", "", "Err.valueError")],
        doc="the body of the all-pairs bridging loop of `intertest_setup.update` for the pair (`node1`, `node2`) of node "
            "indices (`continue` of the inner loop = leaving the body); `bridge_with_node` is `Bridging.bridge` of "
            "I2N/Model/Index.lean (C16)")


UPD_SKELETON = [
    "/-- the worker loop body of `update`.  NOT translated but matched structurally by harness/pygen_pxupdate.py: the body",
    "must be `<front statements = genRemoveSet>; try: clean_graph = l.parse_object_trees(…, restriction=setup_str,",
    "prefix=f\"{tag}m{i + 1}\", …) except param.EmptyCartesianProduct as error: <log>; continue; <rest = genFlagPasses>`:",
    "an empty Cartesian product skips THIS worker only (`continue`), otherwise the passes run on a fresh policy table and",
    "the flagged graph is recorded (`graph.new_nodes(clean_graph.nodes)`) -/",
    "def genWorkerBody (env : UEnv) (i : Nat) (vm_name : String) (worker : String) : StateT Flagged (Except Err) Unit :=",
    "  fun acc =>",
    "    match env.parseClean (genRemoveSet env vm_name) i vm_name worker with",
    "    | none => .ok ((), acc)",
    "    | some g =>",
    "      match (genFlagPasses env g vm_name worker ((env.vmParam vm_name \"from_state\").getD \"install\")",
    "              ((env.vmParam vm_name \"to_state\").getD \"customize\") (env.compForms vm_name)).run {} with",
    "      | .error e => .error e",
    "      | .ok (_, f) => .ok ((), acc ++ [(vm_name, worker, f)])",
    "",
    "/-- `for i, vm_name in enumerate(selected_vms): <pinned: from_state, to_state, vm_objects of the vm>;",
    "for worker in graph.workers.values(): <genWorkerBody>` (both loops without `else` / `break`) -/",
    "def genUpdate (env : UEnv) (vms workers : List String) : StateT Flagged (Except Err) Unit :=",
    "  (enumFrom 0 vms).forM fun iv => workers.forM fun worker => genWorkerBody env iv.1 iv.2 worker",
    "",
    "/-- `for node1 in graph.nodes: for node2 in graph.nodes: <genBridgePair>`: ALL ordered pairs of nodes -/",
    "def genBridgeAll (ns : List BNode) : StateT I2N.Index.Bridging (Except Err) Unit :=",
    "  (List.range ns.length).forM fun node1 => (List.range ns.length).forM fun node2 => genBridgePair ns node1 node2",
]


# ---------------------------------------------------------------------------------------------------------------------
# the cut

def _synth(name, args, body, like):
    fn = ast.FunctionDef(name=name, args=ast.arguments(posonlyargs=[], args=[ast.arg(arg=a) for a in args], vararg=None,
                                                       kwonlyargs=[], kw_defaults=[], kwarg=None, defaults=[]),
                         body=body, decorator_list=[], returns=None, type_comment=None, type_params=[])
    fn.lineno, fn.col_offset = like.lineno, like.col_offset
    return ast.fix_missing_locations(fn)


def _plain_for(s, target, iter_src, what):
    if not (isinstance(s, ast.For) and ast.unparse(s.target) == pygen.norm_expr(target)
            and ast.unparse(s.iter) == pygen.norm_expr(iter_src)):
        raise Unsupported(f"update: {what}: expected `for {target} in {iter_src}`")
    if s.orelse:
        raise Unsupported(f"update:{s.lineno}: {what} has an `else`")
    return s


def _no_jumps(stmts, what, allow_continue=False):
    for n in pygen._own_loop_nodes(stmts):
        if isinstance(n, ast.Continue) and allow_continue:
            continue
        raise Unsupported(f"update:{n.lineno}: `{type(n).__name__.lower()}` in {what}")
    for st in stmts:
        for n in ast.walk(st):
            if isinstance(n, (ast.Yield, ast.YieldFrom, ast.Await, ast.While)):
                raise Unsupported(f"update:{n.lineno}: {type(n).__name__} in {what}")


def update_parts(path):
    tree = ast.parse(open(path).read(), filename=path)
    hits = [n for n in tree.body if isinstance(n, (ast.FunctionDef, ast.AsyncFunctionDef, ast.ClassDef)) and n.name == "update"]
    rebinds = [n for n in tree.body if isinstance(n, (ast.Assign, ast.AnnAssign, ast.AugAssign))
               and any(isinstance(x, ast.Name) and x.id == "update" for x in ast.walk(n))]
    if len(hits) != 1 or rebinds or not isinstance(hits[0], ast.FunctionDef):
        raise Unsupported("update: not exactly one plain top level definition")
    fn = hits[0]
    # the decorator provides config["graph"] (loader and runner); pinned
    if [ast.unparse(d) for d in fn.decorator_list] != ["with_cartesian_graph"]:
        raise Unsupported("update: decorators changed (expected @with_cartesian_graph)")
    if [a.arg for a in fn.args.args] != ["config", "tag"]:
        raise Unsupported("update: parameters changed")
    body = list(fn.body)
    if body and isinstance(body[0], ast.Expr) and isinstance(body[0].value, ast.Constant) and isinstance(body[0].value.value, str):
        body = body[1:]
    nb = len(ast.parse(UPD_BEFORE.strip("\n")).body)
    na = len(ast.parse(UPD_AFTER.strip("\n")).body)
    if len(body) != nb + 3 + na:
        raise Unsupported(f"update: {len(body)} top level statements, expected {nb + 3 + na} (prologue, the vm loop, a log "
                          "line, the bridging loop, epilogue)")
    if pygen.dump_stmts(body[:nb]) != pygen.norm_block(UPD_BEFORE):
        raise Unsupported("update: the statements in front of the vm loop changed (pinned: they stand for the selected "
                          "vms, the workers and the vm objects)")
    if pygen.dump_stmts(body[nb + 3:]) != pygen.norm_block(UPD_AFTER):
        raise Unsupported("update: the statements behind the bridging loop changed (pinned)")
    vm_loop = _plain_for(body[nb], "(i, vm_name)", "enumerate(selected_vms)", "the vm loop")
    log = body[nb + 1]
    if not (isinstance(log, ast.Expr) and isinstance(log.value, ast.Call) and pygen._dotted(log.value.func) == "logging.info"
            and all(pygen._harmless(a) for a in log.value.args)):
        raise Unsupported("update: the statement between the vm loop and the bridging loop is not a log line")
    b1 = _plain_for(body[nb + 2], "node1", "graph.nodes", "the outer bridging loop")
    if len(b1.body) != 1:
        raise Unsupported("update: the outer bridging loop has more than the inner loop in its body")
    b2 = _plain_for(b1.body[0], "node2", "graph.nodes", "the inner bridging loop")
    _no_jumps(b2.body, "the body of the bridging loop", allow_continue=True)

    # the vm loop: pinned prefix + the worker loop
    nv = len(ast.parse(VM_PREFIX.strip("\n")).body)
    if len(vm_loop.body) != nv + 1 or pygen.dump_stmts(vm_loop.body[:nv]) != pygen.norm_block(VM_PREFIX):
        raise Unsupported("update: the body of the vm loop is no longer `vm_params = …object_params(vm_name); vm_objects = …; "
                          "from_state = vm_params.get(\"from_state\", \"install\"); to_state = vm_params.get(\"to_state\", "
                          "\"customize\"); <log>; for worker in graph.workers.values(): …` (pinned)")
    w_loop = _plain_for(vm_loop.body[nv], "worker", "graph.workers.values()", "the worker loop")
    wbody = w_loop.body
    tries = [k for k, s in enumerate(wbody) if isinstance(s, ast.Try)]
    if len(tries) != 1:
        raise Unsupported(f"update: {len(tries)} `try` statements at the top of the worker loop body (exactly one: the "
                          "parse of the remove-set graph)")
    k = tries[0]
    t = wbody[k]
    if t.orelse or t.finalbody or len(t.handlers) != 1 or pygen.dump_stmts(t.body) != pygen.norm_block(PARSE_CLEAN):
        raise Unsupported("update: the `try` around the parse of the remove-set graph changed (its body is pinned; one "
                          "handler, no else / finally)")
    h = t.handlers[0]
    if h.type is None or ast.unparse(h.type) != "param.EmptyCartesianProduct":
        raise Unsupported("update: the handler no longer catches exactly param.EmptyCartesianProduct")
    for st in h.body[:-1]:
        if not (isinstance(st, ast.Expr) and isinstance(st.value, ast.Call)
                and pygen._dotted(st.value.func) in ("logging.warning", "logging.info", "logging.debug")):
            raise Unsupported(f"update:{st.lineno}: statement `{ast.unparse(st)[:60]}` in the EmptyCartesianProduct handler")
    if not h.body or not isinstance(h.body[-1], ast.Continue):
        raise Unsupported("update: the EmptyCartesianProduct handler does not end in `continue` (the worker must be "
                          "skipped, the following workers must still be handled)")
    pre, post = wbody[:k], wbody[k + 1:]
    _no_jumps(pre, "the worker loop body in front of the parse")
    _no_jumps(post, "the worker loop body behind the parse")
    ret = ast.Return(value=ast.Name(id="setup_str", ctx=ast.Load()))
    pre_fn = _synth("update_remove_set", ["i", "vm_name", "worker", "vm_params", "to_state"], pre + [ret], w_loop)
    post_fn = _synth("update_flag_passes", ["i", "vm_name", "worker", "from_state", "to_state", "vm_objects", "setup_dict",
                                            "clean_graph"], post, t)
    pair_fn = _synth("update_bridge_pair", ["node1", "node2"], b2.body, b2)
    return pre_fn, post_fn, pair_fn, pygen.module_constants(tree)



# ---------------------------------------------------------------------------------------------------------------------
# TestGraph.flag_intersection (avocado_i2n/cartgraph/graph.py): the body of its loop over the graph's nodes

FI_BEFORE = '''
activity = "running" if flag_type == "run" else "cleanup"
logging.debug(f"Flagging test nodes for {activity}")
'''

FI_PRELUDE = [
    "/-- `flag_type` as the callers pass it (`update` passes the literals \"run\" / \"clean\"; anything but \"run\" sets the",
    "clean policy) -/",
    "def flagTypeStr : FlagType → String | .run => \"run\" | .clean => \"clean\"",
]


def flag_intersection_spec():
    return Spec(
        "genFlagIntersectionStep",
        binders=[("g", "UGraph"), ("otherNames", "List String"), ("ty", "FlagType"), ("p", "Pol"),
                 ("skip_object_roots", "Bool"), ("skip_shared_root", "Bool"), ("test_node", "Nat")],
        params={"test_node": None}, ret="unit", monad="StateT Flags (Except Err)", effect_loops=True,
        atoms={"graph.get_nodes(param_key='name', param_val=test_node.setless_form + '$')":
                   ("(otherNames.filter (fun nm => endsWithStr nm (g.node test_node).setless))", "slist"),
               "test_node.is_shared_root()": ("(g.node test_node).sharedRoot", "bool"),
               "test_node.is_object_root()": ("(!(g.node test_node).objectRoot.isEmpty)", "bool"),
               "skip_shared_root": ("skip_shared_root", "bool"), "skip_object_roots": ("skip_object_roots", "bool"),
               "flag_type": ("(flagTypeStr ty)", "str")},
        stmts={"test_node.should_run = flag.__get__(test_node)": "modify (fun f => f.set .run p test_node)",
               "test_node.should_clean = flag.__get__(test_node)": "modify (fun f => f.set .clean p test_node)"},
        raises=[("ValueError", "Cannot map {} into a unique test node from {}", "Err.valueError")],
        ignored_calls={"logging.debug", "logging.info"}, prelude=FI_PRELUDE,
        doc="ONE iteration of the loop of `TestGraph.flag_intersection` (avocado_i2n/cartgraph/graph.py) for the node with "
            "index `test_node`: `otherNames` = the names of the other graph's nodes, the regular expression "
            "`<setless form>$` is the hand recogniser `endsWithStr` (validated per run by the C15 correspondence), `p` = the "
            "policy `flag` installs; `continue` = leaving the body")


FI_SKELETON = [
    "/-- `for test_node in self.nodes: <genFlagIntersectionStep>` (matched structurally: exactly this loop, no `else`, no",
    "`break` / `return`; the two statements in front of it only feed log lines and are pinned) -/",
    "def genFlagIntersection (g : UGraph) (otherNames : List String) (ty : FlagType) (p : Pol)",
    "    (skip_object_roots skip_shared_root : Bool) : StateT Flags (Except Err) Unit :=",
    "  (List.range g.nodes.length).forM fun test_node =>",
    "    genFlagIntersectionStep g otherNames ty p skip_object_roots skip_shared_root test_node",
]


def flag_intersection_parts(path):
    tree = ast.parse(open(path).read(), filename=path)
    fn = pygen.find_function(tree, "TestGraph.flag_intersection")
    if [a.arg for a in fn.args.args] != ["self", "graph", "flag_type", "flag", "skip_object_roots", "skip_shared_root"]:
        raise Unsupported("flag_intersection: parameters changed")
    body = list(fn.body)
    if body and isinstance(body[0], ast.Expr) and isinstance(body[0].value, ast.Constant) and isinstance(body[0].value.value, str):
        body = body[1:]
    if len(body) != 3 or pygen.dump_stmts(body[:2]) != pygen.norm_block(FI_BEFORE):
        raise Unsupported("flag_intersection: expected two log-only statements and the loop over self.nodes")
    loop = body[2]
    if not (isinstance(loop, ast.For) and ast.unparse(loop.target) == "test_node" and ast.unparse(loop.iter) == "self.nodes"
            and not loop.orelse):
        raise Unsupported("flag_intersection: expected `for test_node in self.nodes:` without else")
    for n in pygen._own_loop_nodes(loop.body):
        if not isinstance(n, ast.Continue):
            raise Unsupported(f"flag_intersection:{n.lineno}: `{type(n).__name__.lower()}` in the loop")
    return _synth("flag_intersection_step", ["test_node"], loop.body, loop), pygen.module_constants(tree)


def update_source(path=None, graph_path=None):
    path = path or pygen._src("PYGEN_UPDATE_SRC", "avocado_i2n/intertest_setup.py")
    pre_fn, post_fn, pair_fn, consts = update_parts(path)
    d1 = pygen.translate(pre_fn, remove_set_spec(), consts)
    d2 = pygen.translate(post_fn, flag_passes_spec(), consts)
    d3 = _translate_loop_body(pair_fn, bridge_pair_spec(), consts)
    graph_path = graph_path or pygen._src("PYGEN_GRAPH_SRC", "avocado_i2n/cartgraph/graph.py")
    fi_fn, fi_consts = flag_intersection_parts(graph_path)
    d4 = _translate_loop_body(fi_fn, flag_intersection_spec(), fi_consts)
    return pygen.render_file("harness/pygen_pxupdate.py:extract_update (called by harness/props/c15.py:extract) from "
                             "avocado_i2n/intertest_setup.py and avocado_i2n/cartgraph/graph.py", ["I2N.Lemmas.ToolsUpdate"], "I2N.Extracted.GenUpdate",
                             ["I2N.Tools"], [d1, d2, d3, UPD_SKELETON, d4, FI_SKELETON])


def _translate_loop_body(fn, spec, consts):
    """translate a function whose body is the body of a loop: `continue` = leave the body (`return ()`)"""
    import pygen as pg
    tr_cls = pg._Fn
    orig_init = tr_cls.__init__

    def init(self, *a, **kw):
        orig_init(self, *a, **kw)
        self.effect_depth = 1
    tr_cls.__init__ = init
    try:
        return pg.translate(fn, spec, consts)
    finally:
        tr_cls.__init__ = orig_init


def extract_update(ctx=None):
    return pygen.write_if_changed(pygen._lean_path("GenUpdate.lean"), update_source())


SOURCES = {"update": update_source}

if __name__ == "__main__":
    for name in sys.argv[1:] or list(SOURCES):
        print(SOURCES[name]())
