"""pygen_pxtrav — regenerated model (translator tie, see harness/pygen.py) of the traversal engine's worker loop (C04).

    GenBackoff.lean   the BACK-OFF BRANCH of the worker loop of `TestGraph.traverse_object_trees`
                      (avocado_i2n/cartgraph/graph.py): the body of `if next.is_occupied(worker):` up to its
                      `await asyncio.sleep(...)`                                                     -> genBackoff

`traverse_object_trees` is a coroutine; asyncio is cooperative, so the code between two awaits is atomic.  `cut_backoff`
cuts the branch out of the coroutine — mechanically and failing closed — and hands `pygen.translate` a synthetic function
whose body IS the branch body (the very AST nodes of the source, nothing rewritten):

    def traverse_object_trees_backoff(next, root, worker, occupied_at0, occupied_wait0):
        occupied_at = occupied_at0            # added by the cut: the loop state at the start of the iteration
        occupied_wait = occupied_wait0        # added by the cut
        <the statements of the branch in front of `await asyncio.sleep(<arg>)`>
        return (occupied_at, occupied_wait, traverse_path, <arg>)       # added by the cut: the frame at the suspension

The await is the suspension point of the hand written model (`Trav.iter` ends the step with `.suspend`, pc `bounce`);
the value of the added `return` is what the coroutine holds when it suspends: the two loop-state variables, the path, and
the ARGUMENT OF THE SLEEP (so a sleep that differs from the accounted time shows in the generated definition).

What the cut checks (everything else is refused): ONE `while not root.is_cleanup_ready(worker):` at the top level of the
coroutine, the loop state initialised right in front of it by the pinned statements `traverse_path = [root]` /
`occupied_at, occupied_wait = (set(), 0.0)`; the loop body starts with `next = traverse_path[-1]` and `next` is not
assigned again; exactly ONE top level `if next.is_occupied(worker):` in the loop body, without `else`; its body ends with
`await asyncio.sleep(<arg>)`, `continue` and has no other await / return / raise / break / continue / loop / try / with;
`occupied_at` and `occupied_wait` are mentioned NOWHERE else in the coroutine (the initialisation and this branch only:
a statement moved out of the branch is refused, it would act on iterations the model does not touch them in).

Float arithmetic.  `occupied_wait` is a Python float and a Lean `Float` in the model (`WorkerD.occWait`), accumulated
with the same IEEE operations.  The translator knows integers only, so the three float operations of the branch are
DECLARED here (`FLOAT_OPS`, patched into the translator for the duration of this translation) with the very Lean `Float`
operations `Trav.iter` uses:

    round(max(<int d> / 1000, 0.1), 2)          ->  hundredths d : Hund                (a time in 1/100 s, the unit of the
                                                    model's `Event.sleep`; as a float it is `Float.ofNat q / 100.0`)
    <Float> += <Hund>                           ->  x + Float.ofNat q / 100.0          (`d.occWait + qf` of the model)
    <Float> > <int>                             ->  decide (x > Float.ofInt d)         (`wd.occWait > Float.ofInt dur`)
    0.0                                         ->  (0.0 : Float)
    <local set of nodes>.add(<node>)            ->  x := setAdd x n                    (not a float operation: a set that is a
                                                    loop state variable; insertion order kept, as `WorkerD.occAt`)

Only the OPERATIONS are declared: which operands are compared, in which direction, what is accumulated, where, and what
is slept are translated from the source.  `>=`, `<`, swapped operands, `min(occupied_timeout, 10.0)`, any other float
constant are outside the declared operations and are refused.

Trusted with this module (in addition to harness/pygen.py): the cut; the tables below; in particular that
`hundredths d = max (d.toNat / 10) 10` is Python's `round(max(d / 1000, 0.1), 2)` in hundredths — exact when `d` is a
multiple of 10 or below 100 (every timeout the harness generates); for other values Python rounds to the NEAREST
hundredth where the model (and this atom) takes the floor, e.g. test_timeout=126: Python sleeps 0.13 s, the model 0.12 s.
"""
import ast
import os
import sys

HERE = os.path.dirname(os.path.abspath(__file__))
if HERE not in sys.path:
    sys.path.insert(0, HERE)
import pygen  # noqa: E402
from pygen import Unsupported, Spec  # noqa: E402

GRAPH = "avocado_i2n/cartgraph/graph.py"
LOGS = {"logging.debug", "logging.info", "logging.warning", "logging.error"}


# ---------------------------------------------------------------------------------------------------------------------
# the declared float operations

class _float_ops:
    """`pygen._Fn` with the float operations of FLOAT_OPS, for the duration of one translation"""

    def __enter__(self):
        F = pygen._Fn
        self.saved = (F.e_Constant, F.e_Compare, F._aug, F.e_Call, F._expr_stmt)
        e_Constant, e_Compare, _aug, e_Call, _expr_stmt = self.saved

        def const(fn, node, eff):
            if type(node.value) is float:
                if node.value != 0.0 or str(node.value) != "0.0":
                    raise Unsupported(f"{fn.fn.name}:{node.lineno}: float constant {node.value!r} (only 0.0 is declared)")
                return "(0.0 : Float)", "Float"
            return e_Constant(fn, node, eff)

        def compare(fn, node, eff):
            if len(node.ops) == 1 and isinstance(node.ops[0], ast.Gt) and fn.atom(node) is None:
                try:
                    a, ta = fn.expr(node.left, eff)
                    b, tb = fn.expr(node.comparators[0], eff)
                except Unsupported:
                    return e_Compare(fn, node, eff)
                if (ta, tb) == ("Float", "int"):
                    return f"(decide ({a} > Float.ofInt {b}))", "bool"
            return e_Compare(fn, node, eff)

        def aug(fn, x, tx, op, t, ty, where):
            if (tx, ty) == ("Float", "Hund") and isinstance(op, ast.Add):
                return f"({x} + Float.ofNat {t} / 100.0)"
            return _aug(fn, x, tx, op, t, ty, where)

        def call(fn, node, eff):
            # round(max(<int> / 1000, 0.1), 2)
            f = node.func
            if isinstance(f, ast.Name) and f.id == "round" and not ({"round", "max"} & (set(fn.assigned) | set(fn.spec.params))) \
                    and not node.keywords and len(node.args) == 2 and fn.atom(node) is None:
                m, nd = node.args
                if isinstance(m, ast.Call) and isinstance(m.func, ast.Name) and m.func.id == "max" and not m.keywords \
                        and len(m.args) == 2 and isinstance(m.args[0], ast.BinOp) and isinstance(m.args[0].op, ast.Div) \
                        and ast.unparse(m.args[0].right) == "1000" and ast.unparse(m.args[1]) == "0.1" \
                        and ast.unparse(nd) == "2":
                    d, td = fn.expr(m.args[0].left, eff)
                    if td != "int":
                        raise Unsupported(f"{fn.fn.name}:{node.lineno}: `{ast.unparse(node)}`: the duration is a {td}")
                    return f"(hundredths {d})", "Hund"
            return e_Call(fn, node, eff)

        def expr_stmt(fn, s, depth, where):
            # <local set of Nat>.add(<Nat>)
            v = s.value
            if isinstance(v, ast.Call) and isinstance(v.func, ast.Attribute) and v.func.attr == "add" \
                    and isinstance(v.func.value, ast.Name) and fn.locals.get(v.func.value.id) == ("set", "Nat") \
                    and len(v.args) == 1 and not v.keywords and not fn.lam:
                e, te = fn.expr(v.args[0])
                if te != "Nat":
                    raise Unsupported(f"{where}: a {te} added to a set of nodes")
                x = pygen.lean_ident(v.func.value.id)
                fn.emit(depth, f"{x} := setAdd {x} {e}")
                return False
            return _expr_stmt(fn, s, depth, where)

        F.e_Constant, F.e_Compare, F._aug, F.e_Call, F._expr_stmt = const, compare, aug, call, expr_stmt

    def __exit__(self, *exc):
        F = pygen._Fn
        F.e_Constant, F.e_Compare, F._aug, F.e_Call, F._expr_stmt = self.saved


# ---------------------------------------------------------------------------------------------------------------------
# the cut

WHILE_TEST = "not root.is_cleanup_ready(worker)"
INIT_PATH = "traverse_path = [root]"
INIT_STATE = "occupied_at, occupied_wait = (set(), 0.0)"
NEXT_STMT = "next = traverse_path[-1]"
BRANCH_TEST = "next.is_occupied(worker)"
STATE_VARS = ("occupied_at", "occupied_wait")


def _find_method(tree, cls, name, want_async):
    classes = [n for n in tree.body if isinstance(n, ast.ClassDef) and n.name == cls]
    if len(classes) != 1:
        raise Unsupported(f"{cls}: defined {len(classes)} times")
    hits = [n for n in classes[0].body if isinstance(n, (ast.FunctionDef, ast.AsyncFunctionDef)) and n.name == name]
    rebinds = [n for n in classes[0].body if isinstance(n, (ast.Assign, ast.AnnAssign))
               and any(isinstance(x, ast.Name) and x.id == name for x in ast.walk(n))]
    if len(hits) != 1 or rebinds:
        raise Unsupported(f"{cls}.{name}: defined {len(hits)} times / rebound {len(rebinds)} times")
    fn = hits[0]
    if isinstance(fn, ast.AsyncFunctionDef) != want_async:
        raise Unsupported(f"{cls}.{name}: is a {type(fn).__name__}")
    if fn.decorator_list:
        raise Unsupported(f"{cls}.{name}: decorated")
    return fn


def _name(id_, ctx):
    return ast.Name(id=id_, ctx=ctx)


def cut_backoff(path):
    """the synthetic FunctionDef of the back-off branch + the module constants; refuses every shape but the expected"""
    tree = ast.parse(open(path).read(), filename=path)
    where = "TestGraph.traverse_object_trees"
    fn = _find_method(tree, "TestGraph", "traverse_object_trees", True)
    if [a.arg for a in fn.args.args] != ["self", "worker", "params"] or fn.args.vararg or fn.args.kwarg or fn.args.kwonlyargs:
        raise Unsupported(f"{where}: parameters changed (self, worker, params expected)")
    body = list(fn.body)
    loops = [i for i, s in enumerate(body) if isinstance(s, (ast.While, ast.For, ast.AsyncFor))]
    if len(loops) != 1 or not isinstance(body[loops[0]], ast.While) or ast.unparse(body[loops[0]].test) != WHILE_TEST \
            or body[loops[0]].orelse:
        raise Unsupported(f"{where}: not exactly one top level loop `while {WHILE_TEST}:` (without else)")
    at = loops[0]
    loop = body[at]
    if at < 2 or pygen.dump_stmts(body[at - 2:at]) != pygen.norm_block(INIT_PATH + "\n" + INIT_STATE):
        raise Unsupported(f"{where}: the loop state is not initialised by `{INIT_PATH}; {INIT_STATE}` right in front of "
                          "the loop (pinned: the initial worker record of the model)")
    lb = list(loop.body)
    if not lb or pygen.dump_stmts(lb[:1]) != pygen.norm_block(NEXT_STMT):
        raise Unsupported(f"{where}: the loop body does not start with `{NEXT_STMT}`")
    stores = [x for x in ast.walk(fn) if isinstance(x, ast.Name) and x.id in ("next", "root", "worker")
              and isinstance(x.ctx, (ast.Store, ast.Del))]
    if sorted(x.id for x in stores) != ["next", "root"]:
        raise Unsupported(f"{where}: `next` / `root` / `worker` are assigned {len(stores)} times (once each for next, root)")
    hits = [i for i, s in enumerate(lb) if isinstance(s, ast.If) and ast.unparse(s.test) == BRANCH_TEST]
    nested = [n for n in ast.walk(loop) if isinstance(n, ast.If) and BRANCH_TEST in ast.unparse(n.test)]
    if len(hits) != 1 or len(nested) != 1:
        raise Unsupported(f"{where}: {len(hits)} top level / {len(nested)} tests `if {BRANCH_TEST}:` in the loop body "
                          "(exactly one expected)")
    branch = lb[hits[0]]
    if branch.orelse:
        raise Unsupported(f"{where}: the back-off branch has an `else`")
    # between `next = …` and the branch nothing may leave the iteration on a path that skips the test … that is the
    # business of the loop skeleton (not translated here); what matters here: the loop state is untouched outside
    inside = {id(x) for x in ast.walk(branch)}
    init = {id(x) for s in body[at - 2:at] for x in ast.walk(s)}
    for x in ast.walk(fn):
        if isinstance(x, ast.Name) and x.id in STATE_VARS and id(x) not in inside and id(x) not in init:
            raise Unsupported(f"{where}:{x.lineno}: the loop state variable {x.id!r} is used outside the back-off branch")
    bb = list(branch.body)
    if len(bb) < 3 or not isinstance(bb[-1], ast.Continue):
        raise Unsupported(f"{where}: the back-off branch does not end with `continue`")
    aw = bb[-2]
    if not (isinstance(aw, ast.Expr) and isinstance(aw.value, ast.Await) and isinstance(aw.value.value, ast.Call)
            and ast.unparse(aw.value.value.func) == "asyncio.sleep" and len(aw.value.value.args) == 1
            and not aw.value.value.keywords):
        raise Unsupported(f"{where}: the back-off branch does not end with `await asyncio.sleep(<arg>)`; `continue`")
    seg = bb[:-2]
    bad = (ast.Return, ast.Break, ast.Continue, ast.Raise, ast.Await, ast.Try, ast.For, ast.While, ast.AsyncFor,
           ast.Yield, ast.YieldFrom, ast.With, ast.AsyncWith)
    for s in seg:
        for n in ast.walk(s):
            if isinstance(n, bad):
                raise Unsupported(f"{where}:{getattr(n, 'lineno', '?')}: {type(n).__name__} inside the back-off branch")
    for n in ast.walk(aw.value.value.args[0]):
        if isinstance(n, (ast.Await, ast.Yield, ast.YieldFrom, ast.NamedExpr, ast.Lambda)):
            raise Unsupported(f"{where}:{aw.lineno}: {type(n).__name__} inside the argument of the sleep")
    pro = [ast.Assign(targets=[_name(v, ast.Store())], value=_name(v + "0", ast.Load())) for v in STATE_VARS]
    ret = ast.Return(value=ast.Tuple(elts=[_name("occupied_at", ast.Load()), _name("occupied_wait", ast.Load()),
                                           _name("traverse_path", ast.Load()), aw.value.value.args[0]], ctx=ast.Load()))
    params = ["next", "root", "worker", "occupied_at0", "occupied_wait0"]
    synth = ast.FunctionDef(
        name="traverse_object_trees_backoff",
        args=ast.arguments(posonlyargs=[], args=[ast.arg(arg=p) for p in params], vararg=None, kwonlyargs=[],
                           kw_defaults=[], kwarg=None, defaults=[]),
        body=pro + seg + [ret], decorator_list=[], returns=None, type_comment=None, type_params=[])
    synth.lineno, synth.col_offset = branch.lineno, branch.col_offset
    for n in ast.walk(synth):
        if not hasattr(n, "lineno") and isinstance(n, (ast.stmt, ast.expr)):
            n.lineno, n.col_offset = branch.lineno, branch.col_offset
    ast.fix_missing_locations(synth)
    return synth, pygen.module_constants(tree)


# ---------------------------------------------------------------------------------------------------------------------
# the spec

S_WARN = '''
logging.warning(
    f"Worker {worker.id} spent {occupied_wait:.2f}>{test_duration:.2f} seconds "
    f"waiting for occupied nodes "
    + ", ".join(n.id for n in occupied_at)
)
'''
S_BUMP = '''
next.params["max_concurrent_tries"] = (
    next.params.get_numeric("max_concurrent_tries", 0) + 1
)
'''

BACKOFF_PRELUDE = [
    "/-- the branch acts on the state of the model through ONE statement, the bump of `max_concurrent_tries` on the copy",
    "`next`; everything else it changes are locals of the coroutine (returned as the frame) -/",
    "abbrev M := StateM State",
    "/-- `next.params[\"max_concurrent_tries\"] = next.params.get_numeric(\"max_concurrent_tries\", 0) + 1`: the model counts",
    "the assignments (`NodeD.bump`); what the parameter then is: `Props.C04.mctParam` / `mctParam_bump` -/",
    "def bumpM (next : Nat) : M Unit := modify (fun s => s.setNd next (fun d => { d with bump := d.bump + 1 }))",
    "/-- a time in hundredths of a second (the unit of `Event.sleep`); as a Python float it is `Float.ofNat q / 100.0` -/",
    "abbrev Hund := Nat",
    "/-- `round(max(d / 1000, 0.1), 2)` in hundredths -/",
    "def hundredths (d : Int) : Hund := max (d.toNat / 10) 10",
    "/-- `occupied_at.add(x)`: the set as the list of its elements in the order they were first added -/",
    "def setAdd (l : List Nat) (x : Nat) : List Nat := if l.contains x then l else l ++ [x]",
]


def backoff_spec():
    return Spec(
        "genBackoff",
        binders=[("timeout", "Int"), ("maxTries", "Option Int"), ("next", "Nat"), ("root", "Nat"),
                 ("occupied_at0", "List Nat"), ("occupied_wait0", "Float")],
        params={"next": ("next", "Nat"), "root": ("root", "Nat"), "worker": None,
                "occupied_at0": ("occupied_at0", ("set", "Nat")), "occupied_wait0": ("occupied_wait0", "Float")},
        ret=("tuple", (("set", "Nat"), "Float", ("list", "Nat"), "Hund")), monad="M",
        atoms={
            "next.params.get_numeric('test_timeout', 3600)": ("timeout", "int"),
        },
        calls={
            "next.params.get_numeric('max_tries', _1)": ("(maxTries.getD {1})", "int", "pure", ["int"]),
        },
        stmts={S_WARN: "pure ()", S_BUMP: "bumpM next"},
        ignored_calls=LOGS, type_defaults={"Nat": "0"}, prelude=BACKOFF_PRELUDE,
        doc="the body of `if next.is_occupied(worker):` in the worker loop of `TestGraph.traverse_object_trees` "
            "(avocado_i2n/cartgraph/graph.py) up to `await asyncio.sleep(<arg>)`: `timeout` = "
            "`get_numeric(\"test_timeout\", 3600)` and `maxTries` = the parameter `max_tries` of the copy `next` "
            "(`Node.timeout`, `Node.maxTries`), `occupied_at0` / `occupied_wait0` = the loop state at the start of the "
            "iteration; the value is the frame at the suspension: (occupied_at, occupied_wait, traverse_path, <arg>)")


def backoff_source(path=None):
    path = path or pygen._src("PYGEN_TRAV_SRC", GRAPH)
    fn, consts = cut_backoff(path)
    spec = backoff_spec()
    with _float_ops():
        d = pygen.translate(fn, spec, consts)
    if not any(" := setAdd " in l for l in d):
        raise Unsupported("TestGraph.traverse_object_trees: `occupied_at.add(...)` left the back-off branch")
    return pygen.render_file("harness/pygen_pxtrav.py:extract_backoff (called by harness/props/c04.py:extract) from "
                             "avocado_i2n/cartgraph/graph.py", ["I2N.Model.Trav"], "I2N.Extracted.GenBackoff",
                             ["I2N.Trav"], [d])


def extract_backoff(ctx=None):
    return pygen.write_if_changed(pygen._lean_path("GenBackoff.lean"), backoff_source())


SOURCES = {"backoff": backoff_source}

if __name__ == "__main__":
    for name in sys.argv[1:] or list(SOURCES):
        print(SOURCES[name]())
