"""Traversal runs on REALLY PARSED graphs of the shipped suite (eager `TestGraph.parse_object_trees`), with the same
seams, event stream, model replay and monitors as the synthetic family (harness/travlib.py)."""
import os
import sys

import travlib


class ParsedRun(travlib.Run):
    """spec: {"parsed": {"tests_str": ..., "vm_strs": {...}, "nets": "net1 net2"}, "cfg": {...}, "pool": {...},
    "schedule": {worker id: [[dur, status], ...]}}"""

    def build(self):
        m, spec = self.m, self.spec
        sel = spec["parsed"]
        iso = "/repo/selftests/isolation"
        if iso not in sys.path:
            sys.path.insert(0, iso)
        import unittest_importer  # noqa: F401  (points the i2n settings at the shipped tp_folder)
        from avocado_i2n.plugins.loader import TestLoader
        cfg = spec["cfg"]
        param_dict = {"test_timeout": cfg.get("test_timeout", 1000), "shared_pool": "/pool/shared",
                      "swarm_pool": "/pool/swarm", "nets": sel["nets"]}
        for k in ("max_tries", "max_concurrent_tries", "rerun_status", "stop_status", "pool_filter", "pool_scope", "dry_run"):
            if cfg.get(k) is not None:
                param_dict[k] = str(cfg[k])
        param_dict.update(cfg.get("params", {}))
        config = {"param_dict": param_dict, "tests_str": sel["tests_str"], "vm_strs": dict(sel["vm_strs"])}
        self.loader = TestLoader(config=config, extra_params={})
        graph = m.TestGraph.parse_object_trees(None, config["tests_str"], "", config["vm_strs"], config["param_dict"])
        self.graph = graph
        self.workers = dict(graph.workers)
        for w in self.workers.values():
            w.spawner = object()
        self.nets = {wid: w.net for wid, w in self.workers.items()}
        roots = graph.get_nodes("shared_root", "yes")
        self.root = roots[0]
        self.order = [n for n in graph.nodes if n is not self.root]
        self.nodes, self.node_key, self.flat, self.revealed, self.lazy = {}, {}, {}, set(), False
        # the schedule and the pools are keyed by worker id
        spec.setdefault("workers", [{"id": wid, "swarm": w.swarm_id, "spawner": w.params["nets_spawner"]}
                                    for wid, w in self.workers.items()])
        return graph


SELECTIONS = [
    # (tests_str, vm restrictions, nets) — small selections of the shipped suite with shared setup, two-vm tests, cloning
    ("only normal\nonly tutorial1\n", {"vm1": "only CentOS\n", "vm2": "only Win10\n", "vm3": "only Ubuntu\n"}, "net1 net2"),
    ("only normal\nonly tutorial1,tutorial2\n", {"vm1": "only CentOS\n", "vm2": "only Win10\n", "vm3": "only Ubuntu\n"}, "net1 net2"),
    ("only normal\nonly tutorial3\n", {"vm1": "only CentOS\n", "vm2": "only Win10\n", "vm3": "only Ubuntu\n"}, "net1 net2 net3"),
    ("only normal\nonly tutorial1\n", {"vm1": "only CentOS\n", "vm2": "only Win10\n", "vm3": "only Ubuntu\n"}, "net1"),
    ("only normal\nonly tutorial1,tutorial3\n", {"vm1": "only CentOS\n", "vm2": "only Win10\n", "vm3": "only Ubuntu\n"}, "net1 net2"),
    ("only leaves\nonly tutorial_gui\n", {"vm1": "only CentOS\n", "vm2": "only Win10\n", "vm3": "only Ubuntu\n"}, "net1 net2"),
    ("only leaves\nonly tutorial_get\n", {"vm1": "only CentOS\n", "vm2": "only Win10\n", "vm3": "only Ubuntu\n"}, "net1 net2"),
    ("only normal\nonly tutorial1\n", {"vm1": "only CentOS\n", "vm2": "only Win10\n", "vm3": "only Ubuntu\n"}, "net0"),
    ("only normal\nonly tutorial3\n", {"vm1": "only CentOS\n", "vm2": "only Win10\n", "vm3": "only Ubuntu\n"}, "cluster1.net6 cluster1.net7"),
    # other vm variants: two vms needing equally named states from different setup tests
    ("only normal\nonly tutorial3\n", {"vm1": "only Fedora\n", "vm2": "only Win10\n", "vm3": "only Ubuntu\n"}, "net1 net2"),
    ("only normal\nonly tutorial1,tutorial3\n", {"vm1": "only Fedora\n", "vm2": "only Win7\n", "vm3": "only Ubuntu\n"}, "net1 net2"),
    # a worker whose object restriction is a multi-valued `no` list given through a worker-suffixed job parameter (like the
    # shipped `no_vm2 = WinXP, Win8` of net3, but naming a variant the selection really contains): vm2 is left open, so the
    # Win7 flavours may only be composed for and executed by net1
    ("only leaves\nonly tutorial_gui\n", {"vm1": "only CentOS\n", "vm2": "", "vm3": "only Ubuntu\n"}, "net1 net2",
     {"no_vm2_net2": "WinXP, Win7"}),
    # a worker set in which one worker cannot compose some of the selected tests (net5 only provides the Fedora variant of
    # vm1, the tutorial3.remote variants need CentOS) while other tests run on both: the flat nodes of those tests are
    # incompatible with one worker and still unexplored for the other
    ("only normal..tutorial1,leaves..tutorial3.remote.object.control.decorator.util,"
     "leaves..tutorial3.remote.object.control.decorator.no_util\n",
     {"vm1": "", "vm2": "only Win10\n", "vm3": "only Ubuntu\n"}, "net1 net5"),
    # the mixed-set selection below with four workers starting on different flat nodes
    ("only leaves..tutorial_get,normal..tutorial_gui\n",
     {"vm1": "only CentOS\n", "vm2": "only Win10\n", "vm3": "only Ubuntu\n"}, "net1 net2 net3 net4"),
    # a reversible setup test selected through a nested set (normal.gui) that is also the setup of tests of another set
    ("only leaves..tutorial_get..explicit_noop,leaves..tutorial_get..implicit_both,normal..tutorial_gui..client_noop\n",
     {"vm1": "only CentOS\n", "vm2": "only Win10\n", "vm3": "only Ubuntu\n"}, "net1"),
]
MIXED_SETS = len(SELECTIONS) - 1
MIXED_SETS_4 = len(SELECTIONS) - 2
PARTLY_INCOMPATIBLE = len(SELECTIONS) - 3
RESTRICTED_WORKER = len(SELECTIONS) - 4


def gen_parsed_spec(rng, idx=None):
    """idx: position in SELECTIONS (every selection is covered once per len(SELECTIONS) cases); None: random"""
    sel = SELECTIONS[idx % len(SELECTIONS)] if idx is not None else rng.choice(SELECTIONS)
    tests_str, vm_strs, nets = sel[:3]
    cfg = {"test_timeout": 1000}
    if rng.random() < 0.4:
        cfg["max_tries"] = rng.choice([1, 2, 2, 3, 1, 2, 2, 3, 0])
        if rng.random() < 0.3:
            cfg["max_concurrent_tries"] = rng.choice([1, 1, 2])
    if rng.random() < 0.5:
        # removal policies per object TYPE: the image states of a vm may be marked for removal while its vm-level states are
        # kept (or the other way round); every state is removed or kept by the policy of its own object
        vm = rng.choice(["vm1", "vm2"])
        cfg["params"] = rng.choice([{f"unset_mode_images_{vm}": "fi", f"unset_mode_vms_{vm}": "ri"},
                                    {f"unset_mode_images_{vm}": "ri", f"unset_mode_vms_{vm}": "fi"},
                                    {f"unset_mode_images_{vm}": "fi"}, {f"unset_mode_vms_{vm}": "fi"}])
    if len(sel) > 3:
        cfg["params"] = dict(cfg.get("params", {}), **sel[3])
    sched = {}
    # idx beyond the table: the same selection with a skewed schedule - the first worker is an order of magnitude slower than the
    # others, so that they run out of own work while it is still inside its first tests
    skew = idx is not None and idx >= len(SELECTIONS)
    for wi, wid in enumerate(nets.split()):
        seq = []
        for _ in range(rng.randint(1, 5)):
            st = "PASS" if rng.random() < 0.8 else rng.choice(["FAIL", "ERROR", "WARN", "SKIP", None])
            seq.append([rng.choice([1, 2, 3, 5, 8, 13, 40]) * (20 if skew and wi == 0 else 1), st])
        if skew:
            seq = [[d, "PASS"] for d, _ in seq]
        sched[wid] = seq
    spec = {"parsed": {"tests_str": tests_str, "vm_strs": vm_strs, "nets": nets}, "cfg": cfg, "pool": {}, "schedule": sched}
    # (the mixed-set selections - one composite node serving flat nodes of two test sets - used to be marked
    # `spec["monitors_only"]`: the model's lazy layer made the edge from a flat node to an already parsed composite node visible
    # too early.  Repaired (`Trav.edgeCode`, design.d/C02.md "Mixed-set lazy expansion now reproduced by the model"): they are
    # compared with the model block by block like every other case.)
    return spec


_SETS = ["normal.nongui", "normal.gui", "nonleaves", "minimal", "leaves", "normal", "all"]     # longest first


def _setless(name):
    """a node is the same test whatever test set selected it: the name below the main restriction"""
    for m in _SETS:
        if name.startswith(m + "."):
            return name[len(m) + 1:]
    return name


class LazyParsedRun(ParsedRun):
    """The run as `avocado run` really does it: the graph starts with the shared root and the FLAT selected tests only and
    the REAL `parse_paths_to_object_roots` expands them on demand during the traversal.  The static description for the model
    is taken from the graph as it stands after the run (all composite nodes hidden initially); independently the eager parse of
    the same selection is kept (`self.eager_parents`) so that every lazily expanded node can be compared with it."""
    static_after = True

    def build(self):
        m, spec = self.m, self.spec
        sel = spec["parsed"]
        iso = "/repo/selftests/isolation"
        if iso not in sys.path:
            sys.path.insert(0, iso)
        import unittest_importer  # noqa: F401
        from avocado_i2n.plugins.loader import TestLoader
        cfg = spec["cfg"]
        param_dict = {"test_timeout": cfg.get("test_timeout", 1000), "shared_pool": "/pool/shared",
                      "swarm_pool": "/pool/swarm", "nets": sel["nets"]}
        for k in ("max_tries", "max_concurrent_tries", "rerun_status", "stop_status", "pool_filter", "pool_scope", "dry_run"):
            if cfg.get(k) is not None:
                param_dict[k] = str(cfg[k])
        param_dict.update(cfg.get("params", {}))
        config = {"param_dict": param_dict, "tests_str": sel["tests_str"], "vm_strs": dict(sel["vm_strs"])}
        self.loader = TestLoader(config=config, extra_params={})
        # 1. the eager graph of the same input: only names and parent sets are kept
        eager = m.TestGraph.parse_object_trees(None, config["tests_str"], "", dict(config["vm_strs"]), dict(param_dict))
        # clones share their name: per name the multiset of parent-name lists
        self.eager_parents = {}
        for n in eager.nodes:
            if len(n.cloned_nodes) > 0:
                continue   # a clone source is a pass-through placeholder (never runnable); which producer it keeps is parse-order dependent
            self.eager_parents.setdefault(_setless(n.params["name"]), []).append(
                sorted(_setless(p.params["name"]) for p in n.setup_nodes))
        # 2. the graph the runner builds for a test suite (TestRunner.run_workers)
        graph = m.TestGraph()
        graph.restrs.update(config["vm_strs"])
        flat = m.TestGraph.parse_flat_nodes(config["tests_str"], dict(param_dict))
        for n in flat:
            n.update_restrs(config["vm_strs"])
        graph.new_nodes(flat)
        graph.parse_shared_root_from_object_roots(m.Params(param_dict))
        graph.new_workers(m.TestGraph.parse_workers(m.Params(param_dict)))
        self.graph = graph
        self.workers = dict(graph.workers)
        for w in self.workers.values():
            w.spawner = object()
        self.nets = {wid: w.net for wid, w in self.workers.items()}
        self.root = graph.get_nodes("shared_root", "yes")[0]
        self.order = []
        self.nodes, self.node_key, self.flat, self.revealed, self.lazy = {}, {}, {}, set(), False
        spec.setdefault("workers", [{"id": wid, "swarm": w.swarm_id, "spawner": w.params["nets_spawner"]}
                                    for wid, w in self.workers.items()])
        spec.setdefault("run_params", dict(param_dict))
        return graph

    def lazy_vs_eager(self):
        """every lazily expanded composite node must have exactly the parents the eager parse gives it (flat placeholder
        nodes and the edges to them dropped) — returns the list of differences"""
        diffs = []
        lazy = {}
        for n in self.graph.nodes:
            if n.is_flat() or len(n.cloned_nodes) > 0:
                continue
            lazy.setdefault(_setless(n.params["name"]), []).append(
                sorted(_setless(p.params["name"]) for p in n.setup_nodes if not p.is_flat() or p.is_shared_root()))
        for name, got in lazy.items():
            want = self.eager_parents.get(name)
            if want is None:
                diffs.append((name, "not-in-eager-graph", got))
            elif sorted(got) != sorted(want):
                diffs.append((name, sorted(want), sorted(got)))
        return diffs
