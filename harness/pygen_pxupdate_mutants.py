"""Mutation sanity for harness/pygen_pxupdate.py (C15) and the three inner loops of the tokenizer that
harness/pygen_pxcmd.py translates since pygen has `effect_loops` (C11).  Development tool, not part of ./check:

    /venv/bin/python harness/pygen_pxupdate_mutants.py [NAME ...]

Like harness/pygen_pxcmd_mutants.py: every mutant is ONE source file of /repo copied to a scratch directory with a small
textual edit (/repo is not touched); the generator is run on the copy.  Expected: `refused` (the cut / the translator /
a pin refuses) or `proof-breaks` (the generated file or the Props file no longer compiles: both are checked with
`lake env lean` on scratch copies, nothing under lean/ is overwritten).  `STILL-PROVES` is a hole.
"""
import json
import os
import shutil
import subprocess
import sys
import tempfile

HERE = os.path.dirname(os.path.abspath(__file__))
sys.path.insert(0, HERE)
import pygen  # noqa: E402
import pygen_pxcmd  # noqa: E402
import pygen_pxupdate as px  # noqa: E402
import vlib  # noqa: E402

U = "avocado_i2n/intertest_setup.py"
C = "avocado_i2n/cmd_parser.py"
G = "avocado_i2n/cartgraph/graph.py"

BRIDGE = ('    for node1 in graph.nodes:\n        for node2 in graph.nodes:\n            if node1 == node2:\n                continue\n'
          '            if node1.bridged_form == node2.bridged_form:\n                if node1.id == node2.id:\n'
          '                    raise ValueError\n                node1.bridge_with_node(node2)\n')

MUTANTS = {
    # ---- controls: no edit at all — must be STILL-PROVES (the scratch copies of the Props sections do compile)
    "control-update": ("update", U, [], "no edit (control)"),
    "control-cmd": ("cmd", C, [], "no edit (control)"),
    # ---- update: past seeded regressions
    "upd-star-bridging": ("update", U, [(BRIDGE, '    for node2 in graph.nodes:\n        node1 = graph.nodes[0]\n        if node1 == node2:\n            continue\n'
                                                 '        if node1.bridged_form == node2.bridged_form:\n            if node1.id == node2.id:\n'
                                                 '                raise ValueError\n            node1.bridge_with_node(node2)\n')],
                          "seeded C15: the all-pairs bridging loop became a star around the first node"),
    "upd-break-for-continue": ("update", U, [("                logging.warning(error)\n                continue\n",
                                              "                logging.warning(error)\n                break\n")],
                               "seeded C15b: `break` instead of `continue` after EmptyCartesianProduct"),
    "upd-remove-set-global": ("update", U, [('setup_str = vm_params.get("remove_set", "leaves")',
                                             'setup_str = config["vms_params"].get("remove_set", "leaves")')],
                              "seeded C15d: remove_set read from the global parameters (remove_set_<vm> ignored)"),
    # ---- update: further edits
    "upd-remove-set-default": ("update", U, [('vm_params.get("remove_set", "leaves")', 'vm_params.get("remove_set", "all")')],
                               "default of remove_set changed"),
    "upd-restriction-test-swapped": ("update", U, [("                if restriction in setup_str:", "                if setup_str in restriction:")],
                                     "substring test of the `all..` prefix rule swapped"),
    "upd-prefix-always": ("update", U, [("                if restriction in setup_str:\n                    break\n            else:\n                setup_str = \"all..\" + setup_str\n",
                                         "                if restriction in setup_str:\n                    break\n            setup_str = \"all..\" + setup_str\n")],
                          "`else:` of the search loop dropped: `all..` always in front"),
    "upd-install-test-negated": ("update", U, [('flag_state = "" if to_state == "install" else to_state', 'flag_state = "" if to_state != "install" else to_state')],
                                 "object-root selection for `install` negated"),
    "upd-clean-pass-first": ("update", U, [('            clean_graph.flag_intersection(\n                clean_graph, flag_type="run", flag=lambda self, slot: False\n            )\n            clean_graph.flag_intersection(\n                clean_graph, flag_type="clean", flag=lambda self, slot: False\n            )\n',
                                            '            clean_graph.flag_intersection(\n                clean_graph, flag_type="clean", flag=lambda self, slot: False\n            )\n            clean_graph.flag_intersection(\n                clean_graph, flag_type="run", flag=lambda self, slot: False\n            )\n')],
                             "order of the two self-intersection passes swapped (meaning preserving: the policy tables are equal — "
                             "only an `error` of both passes could differ, and both raise the same ValueError)"),
    "upd-from-test-negated": ("update", U, [('            if from_state != "install":', '            if from_state == "install":')],
                              "guard of the from_state passes negated"),
    "upd-skip-shared-root-dropped": ("update", U, [("                or self.should_rerun(slot),\n                skip_shared_root=True,\n            )", "                or self.should_rerun(slot),\n            )")],
                                     "the run pass no longer skips the shared root"),
    "upd-run-graph-from-state": ("update", U, [('restriction=param.re_str("all.." + to_state)', 'restriction=param.re_str("all.." + from_state)')],
                                 "run graph parsed for from_state (mutant U6 of tools_mutants)"),
    "upd-skip-intersection-dropped": ("update", U, [('                clean_graph.flag_intersection(\n                    skip_graph, flag_type="run", flag=lambda self, slot: False\n                )\n', '')],
                                      "skip-graph intersection dropped (U5)"),
    "upd-from-node-not-reflagged": ("update", U, [("                            skip_children=True,\n                        )\n", "                            skip_children=True,\n                        ) if False else None\n")],
                                    "the from_state node is not re-flagged (U1)"),
    "upd-skip-parents-false": ("update", U, [("                        skip_parents=True,", "                        skip_parents=False,")],
                               "clean flags also on the target node (U3)"),
    "upd-first-worker-skipped": ("update", U, [("        for worker in graph.workers.values():", "        for worker in list(graph.workers.values())[1:]:")],
                                 "first worker skipped (U4)"),
    "upd-assertion-swallowed": ("update", U, [("                    logging.error(error)\n                    raise ValueError(\n                        f\"Could not identify a test node from {vm_name}'s to_state",
                                               "                    logging.error(error)\n                    continue\n                    raise ValueError(\n                        f\"Could not identify a test node from {vm_name}'s to_state")],
                                "AssertionError of the clean pass swallowed (U8)"),
    "upd-bridge-same-id-ignored": ("update", U, [("                if node1.id == node2.id:\n                    raise ValueError\n", "")],
                                   "two nodes of one class with one id are bridged instead of rejected"),
    "upd-bridge-form-negated": ("update", U, [("if node1.bridged_form == node2.bridged_form:", "if node1.bridged_form != node2.bridged_form:")],
                                "bridging test negated"),
    "upd-bridge-self-not-skipped": ("update", U, [("            if node1 == node2:\n                continue\n", "")],
                                    "a node is bridged with itself (raises ValueError: same id)"),
    "upd-to-state-default": ("update", U, [('to_state = vm_params.get("to_state", "customize")', 'to_state = vm_params.get("to_state", "install")')],
                             "default of to_state changed"),
    "upd-handler-raises": ("update", U, [("                logging.warning(error)\n                continue\n", "                logging.warning(error)\n                raise\n")],
                           "an incompatible worker aborts the update"),
    # ---- graph.py: TestGraph.flag_intersection
    "fi-several-accepted": ("graph", G, [("            elif len(matching_nodes) > 1:", "            elif len(matching_nodes) > 2:")],
                            "two matches are accepted (off by one)"),
    "fi-none-raises": ("graph", G, [("            if len(matching_nodes) == 0:", "            if len(matching_nodes) == 1:")],
                       "the test for `no match` is off by one"),
    "fi-skip-or": ("graph", G, [("if test_node.is_shared_root() and skip_shared_root:", "if test_node.is_shared_root() or skip_shared_root:")],
                   "`and` -> `or` in the shared-root skip"),
    "fi-skip-object-roots-ignored": ("graph", G, [("            if test_node.is_object_root() and skip_object_roots:\n                logging.info(\"Skip flag for object root\")\n                continue\n", "")],
                                     "skip_object_roots ignored"),
    "fi-flag-types-swapped": ("graph", G, [('            if flag_type == "run":\n                test_node.should_run = flag.__get__(test_node)\n            else:\n                test_node.should_clean = flag.__get__(test_node)\n\n    """parse and get',
                                            '            if flag_type != "run":\n                test_node.should_run = flag.__get__(test_node)\n            else:\n                test_node.should_clean = flag.__get__(test_node)\n\n    """parse and get')],
                              "run / clean policies swapped (in flag_intersection only)"),
    "fi-continue-break": ("graph", G, [('                logging.debug(f"Skip flag for non-overlapping {test_node}")\n                continue', '                logging.debug(f"Skip flag for non-overlapping {test_node}")\n                break')],
                          "the loop stops at the first node without a match"),
    "fi-match-prefix": ("graph", G, [('param_key="name", param_val=test_node.setless_form + "$"', 'param_key="name", param_val=test_node.setless_form')],
                        "the match is no longer anchored at the end of the name"),
    # ---- cmd: inside the three loops that used to be pinned whole
    "cmd-scan-not-in": ("cmd", C, [("                if variant in available_restrictions:", "                if variant not in available_restrictions:")],
                        "primary detection negated"),
    "cmd-scan-branches-swapped": ("cmd", C, [("                    use_tests_default = False\n                # else this is an auxiliary restriction\n                else:\n                    with_nontrivial_restrictions = True\n",
                                              "                    with_nontrivial_restrictions = True\n                # else this is an auxiliary restriction\n                else:\n                    use_tests_default = False\n")],
                                  "the two branches of the scan swapped"),
    "cmd-scan-break": ("cmd", C, [("                    use_tests_default = False\n                # else", "                    use_tests_default = False\n                    break\n                # else")],
                       "the scan stops at the first primary restriction (meaning preserving for useDef, but a new loop shape)"),
    "cmd-vm-no-break": ("cmd", C, [("                        vm_strs[vm_name] += vm_str\n                        break\n", "                        vm_strs[vm_name] += vm_str\n")],
                        "the vm search goes on after a match (and then always reaches the raising else)"),
    "cmd-vm-else-pass": ("cmd", C, [('                    raise ValueError(\n                        f"Invalid object restriction {key} (no such object)"\n                    )', '                    pass')],
                         "an unknown object restriction is ignored"),
    "cmd-vm-default-kept": ("cmd", C, [("                        use_vms_default[vm_name] = False\n", "")],
                            "a vm restriction no longer lifts the vm default"),
    "cmd-vm-body-reordered": ("cmd", C, [("                        use_vms_default[vm_name] = False\n", ""),
                                         ("                        vm_strs[vm_name] += vm_str\n", "                        vm_strs[vm_name] += vm_str\n                        use_vms_default[vm_name] = True\n")],
                              "the default is restored instead of lifted"),
    "cmd-vms-in-for-not-in": ("cmd", C, [("                if vm_name not in available_vms:", "                if vm_name in available_vms:")],
                              "vms= validation negated"),
    "cmd-vms-first-only": ("cmd", C, [("            for vm_name in with_selected_vms:", "            for vm_name in with_selected_vms[:1]:")],
                           "only the first vm of vms= is validated (off by one)"),
    "cmd-vms-other-list": ("cmd", C, [("                if vm_name not in available_vms:", "                if vm_name not in with_selected_vms:")],
                           "validation against the wrong list"),
}


# the 17 earlier mutants of the tokenizing loop (harness/pygen_pxcmd_mutants.py), re-run against the re-proved theorem
try:
    import pygen_pxcmd_mutants as _old
    for _k, _v in _old.MUTANTS.items():
        if _v[0] == "cmd" and _k not in MUTANTS:
            MUTANTS[_k] = _v
except Exception:                                            # pragma: no cover
    pass


def lean_ok(path):
    p = subprocess.run(["lake", "env", "lean", path], cwd=vlib.LEAN, stdout=subprocess.PIPE, stderr=subprocess.STDOUT,
                       text=True, timeout=1800)
    errs = [l for l in p.stdout.splitlines() if "error" in l]
    return p.returncode == 0 and not errs, (errs[0][:170] if errs else "")


def section(props, start, end):
    """the `section MatchesSource … end MatchesSource` of a Props file as a stand-alone file"""
    s = open(os.path.join(vlib.LEAN, "I2N", "Props", props)).read()
    return s[s.index(start):s.index(end) + len(end)]


_UPD_TMPL = None

TARGETS = {
    "update": (px.update_source, "GenUpdate",
               "import I2N.Lemmas.ToolsFlags\nimport I2N.Lemmas.ToolsReach\nimport I2N.Props.C15\nimport {mod}\n"
               "namespace I2N.Props.C15M\nopen I2N.Tools\nopen I2N.Props.C15 (exGraph)\n"
               "section MatchesSource\nopen {mod}\n{body}\nend I2N.Props.C15M\n", "C15.lean"),
    "cmd": (pygen_pxcmd.cmd_source, "GenCmd",
            "import I2N.Lemmas.Cmd\nimport {mod}\nnamespace I2N.Props.C11M\nopen I2N.Cmd\n"
            "section MatchesSource\nopen {mod}\n{body}\nend MatchesSource\nend I2N.Props.C11M\n", "C11.lean"),
}


TARGETS["graph"] = ((lambda path: px.update_source(graph_path=path)),) + TARGETS["update"][1:]


def main():
    names = sys.argv[1:] or list(MUTANTS)
    tmp = tempfile.mkdtemp(prefix="i2n-verif-pxmut-")
    mdir = os.path.join(vlib.LEAN, "I2N", "Extracted")
    out = {}
    try:
        for k, name in enumerate(names):
            tgt, rel, edits, what = MUTANTS[name]
            src = open(os.path.join(vlib.REPO, rel)).read()
            for old, new in edits:
                if old not in src:
                    raise SystemExit(f"{name}: the text to edit is not in {rel}")
                src = src.replace(old, new, 1)
            path = os.path.join(tmp, name + ".py")
            open(path, "w").write(src)
            gen, base, tmpl, props = TARGETS[tgt]
            try:
                text = gen(path)
            except pygen.Unsupported as e:
                out[name] = ("refused", str(e)[:170], what)
                print(name, *out[name][:2], flush=True)
                continue
            # a scratch module next to the generated ones (its own namespace), compiled by hand; removed afterwards
            mod = f"Mut{base}{k}"
            text = text.replace(f"I2N.Extracted.{base}", f"I2N.Extracted.{mod}")
            mpath = os.path.join(mdir, mod + ".lean")
            olean = os.path.join(vlib.LEAN, ".lake", "build", "lib", "lean", "I2N", "Extracted", mod + ".olean")
            open(mpath, "w").write(text)
            try:
                p = subprocess.run(["lake", "env", "lean", mpath, "-o", olean], cwd=vlib.LEAN, stdout=subprocess.PIPE,
                                   stderr=subprocess.STDOUT, text=True, timeout=1800)
                errs = [l for l in p.stdout.splitlines() if "error" in l]
                if p.returncode != 0 or errs:
                    out[name] = ("proof-breaks", "generated file: " + (errs[0][:150] if errs else ""), what)
                else:
                    body = section(props, "section MatchesSource", "end MatchesSource")
                    body = body.split("\n", 2)[2]          # drop `section …` and the `open` line
                    if tgt == "cmd":                       # without the examples on `av0` (defined in Props/C11.lean itself)
                        body = body[:body.index("/-- the generated definition computes")]
                    spath = os.path.join(tmp, name + ".lean")
                    open(spath, "w").write(tmpl.format(mod=f"I2N.Extracted.{mod}", body=body))
                    ok, err = lean_ok(spath)
                    out[name] = ("STILL-PROVES" if ok else "proof-breaks", err, what)
            finally:
                for f in (mpath, olean):
                    if os.path.exists(f):
                        os.remove(f)
            print(name, *out[name][:2], flush=True)
    finally:
        shutil.rmtree(tmp, ignore_errors=True)
    print(json.dumps(out, indent=1))
    bad = [k for k, v in out.items() if (v[0] == "STILL-PROVES") != k.startswith("control-")]
    return 1 if bad else 0


if __name__ == "__main__":
    sys.exit(main())
