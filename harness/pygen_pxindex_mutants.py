"""Mutation sanity for the translator ties of harness/pygen_pxindex.py (development tool, not part of ./check).

    /venv/bin/python harness/pygen_pxindex_mutants.py [NAME ...]

Same procedure as harness/pygen_mutants.py: ONE source file of /repo copied to a scratch directory with a small textual
edit (/repo is not touched), the translator run on the copy, the generated Lean file written in place of the committed
one, the Props file built.  Expected: `refused` (the translation fails closed) or `proof-breaks` (an equality theorem
no longer compiles); a semantics preserving edit may `still-prove`.  At the end the generated files are restored from the
real sources and rebuilt.
"""
import json
import os
import shutil
import sys
import tempfile

HERE = os.path.dirname(os.path.abspath(__file__))
sys.path.insert(0, HERE)
import pygen  # noqa: E402
import pygen_pxindex as px  # noqa: E402
import vlib  # noqa: E402

N = "avocado_i2n/cartgraph/node.py"
Q = "avocado_i2n/states/qcow2.py"
R = "avocado_i2n/states/ramfile.py"

REG_IF1 = "        if node.bridged_form not in self._registry:\n            self._registry[node.bridged_form] = {}"
REG_IF2 = ("        if worker.id not in self._registry[node.bridged_form]:\n"
           "            self._registry[node.bridged_form][worker.id] = 0")
CNT_NODE_KEYS = ("        counter = 0\n"
                 "        node_keys = [node.bridged_form] if node else self._registry.keys()")
WRK_NODE_KEYS = ("        worker_keys = set()\n"
                 "        node_keys = [node.bridged_form] if node else self._registry.keys()")
CNT_ADD = "counter += self._registry.get(node_key, {}).get(worker_key, 0)"

# name: (target, source file, [(old, new)], expectation, what)
MUTANTS = {
    # ---- EdgeRegister.register (C16, register_matches_source)
    "reg-node-test-inverted": ("index", N, [(REG_IF1, REG_IF1.replace("not in", "in"))], "proof-breaks",
                               "`not in` -> `in`: a new node is never filed (KeyError), a known one is emptied"),
    "reg-worker-test-inverted": ("index", N, [(REG_IF2, REG_IF2.replace("not in", "in"))], "proof-breaks",
                                 "`not in` -> `in`: a known worker's counter is reset, a new one raises"),
    "reg-worker-init-dropped": ("index", N, [(REG_IF2 + "\n", "")], "refused", "second `if` dropped: KeyError for a new worker (a pinned store no longer occurs)"),
    "reg-worker-test-wrong-dict": ("index", N, [("if worker.id not in self._registry[node.bridged_form]:",
                                                 "if worker.id not in self._registry:")], "proof-breaks",
                                   "the worker is looked up among the node keys"),
    "reg-init-one": ("index", N, [("self._registry[node.bridged_form][worker.id] = 0", "self._registry[node.bridged_form][worker.id] = 1")],
                     "refused", "first visit counts twice (a pinned store changed)"),
    "reg-increment-two": ("index", N, [("self._registry[node.bridged_form][worker.id] += 1", "self._registry[node.bridged_form][worker.id] += 2")],
                          "refused", "every visit counts twice (a pinned store changed)"),
    "reg-key-swapped": ("index", N, [("self._registry[node.bridged_form][worker.id] += 1", "self._registry[worker.id][node.bridged_form] += 1")],
                        "refused", "keys swapped in the increment (a pinned store changed)"),
    "reg-tests-reordered": ("index", N, [(REG_IF1 + "\n" + REG_IF2, REG_IF2 + "\n" + REG_IF1)], "proof-breaks",
                            "the worker test in front of the node test: KeyError for a new node"),
    # ---- EdgeRegister.get_counters (C16, getCounters_matches_source)
    "cnt-default-one": ("index", N, [(CNT_ADD, CNT_ADD.replace("worker_key, 0)", "worker_key, 1)"))], "proof-breaks",
                        "a worker that never visited counts 1"),
    "cnt-init-one": ("index", N, [(CNT_NODE_KEYS, CNT_NODE_KEYS.replace("counter = 0", "counter = 1"))], "proof-breaks", "off by one"),
    "cnt-node-branches-swapped": ("index", N, [(CNT_NODE_KEYS, CNT_NODE_KEYS.replace("if node else", "if not node else"))],
                                  "proof-breaks", "the None / not-None cases of `node` swapped"),
    "cnt-worker-ignored": ("index", N, [("[worker.id] if worker else self._registry.get(node_key, {}).keys()",
                                         "[worker.id] if node else self._registry.get(node_key, {}).keys()")],
                           "proof-breaks", "the worker argument is honoured only together with a node"),
    "cnt-minus": ("index", N, [(CNT_ADD, CNT_ADD.replace("+=", "-="))], "proof-breaks", "`+=` -> `-=`"),
    "cnt-overwrite": ("index", N, [(CNT_ADD, CNT_ADD.replace("+=", "="))], "proof-breaks", "`+=` -> `=`: the last counter only"),
    "cnt-inner-keys-of-all": ("index", N, [("[worker.id] if worker else self._registry.get(node_key, {}).keys()",
                                            "[worker.id] if worker else self._registry.keys()")],
                              "proof-breaks", "the node keys used as worker keys"),
    "cnt-spelled-out": ("index", N, [(CNT_ADD, CNT_ADD.replace("counter +=", "counter = counter +"))], "still-proves",
                        "semantics preserving: `x += e` written `x = x + e`"),
    # ---- EdgeRegister.get_workers (C16, getWorkers_matches_source)
    "wrk-overwrite": ("index", N, [("worker_keys |= {*self._registry", "worker_keys = {*self._registry")], "proof-breaks",
                      "`|=` -> `=`: the workers of the last node only"),
    "wrk-node-branches-swapped": ("index", N, [(WRK_NODE_KEYS, WRK_NODE_KEYS.replace("if node else", "if not node else"))],
                                  "proof-breaks", "the None / not-None cases of `node` swapped"),
    "wrk-node-keys-returned": ("index", N, [("worker_keys |= {*self._registry.get(node_key, {}).keys()}",
                                             "worker_keys |= {*self._registry.keys()}")], "proof-breaks",
                               "node keys returned instead of worker keys"),
    "wrk-default-changed": ("index", N, [("worker_keys |= {*self._registry.get(node_key, {}).keys()}",
                                          "worker_keys |= {*self._registry.get(node_key, {'x': 0}).keys()}")], "refused",
                            "the default of the lookup changed (part of the call template)"),
    # ---- QCOW2VTBackend.show (C17, vtShow_matches_source)
    "vt-restart-on-empty": ("show", Q, [("            if states is None:\n                states = list(image_states)",
                                         "            if not states:\n                states = list(image_states)")],
                            "refused", "`is None` -> `not states`: the accumulator restarts when empty (what 8bdd936 repaired; truthiness of an optional)"),
    "vt-test-inverted": ("show", Q, [("            if states is None:\n                states = list(image_states)",
                                      "            if states is not None:\n                states = list(image_states)")],
                         "refused", "`is None` -> `is not None`: the filter would read None (TypeError in Python)"),
    "vt-last-image": ("show", Q, [("states = [state for state in states if state in image_states]", "states = list(image_states)")],
                      "proof-breaks", "else branch takes the image's own list: the last image wins"),
    "vt-filter-dropped": ("show", Q, [("[state for state in states if state in image_states]", "[state for state in states]")],
                          "proof-breaks", "the membership test dropped: the first image wins"),
    "vt-filter-negated": ("show", Q, [("[state for state in states if state in image_states]",
                                       "[state for state in states if state not in image_states]")],
                          "proof-breaks", "`in` -> `not in`"),
    "vt-filter-swapped": ("show", Q, [("[state for state in states if state in image_states]",
                                       "[state for state in image_states if state in states]")],
                          "proof-breaks", "the roles of the two lists swapped: same set, the order of the LAST image"),
    "vt-union": ("show", Q, [("[state for state in states if state in image_states]", "states + list(image_states)")],
                 "refused", "union instead of intersection (`+` on lists: outside the subset)"),
    "vt-return-inverted": ("show", Q, [("return states if states is not None else []", "return states if states is None else []")],
                           "refused", "the final test inverted: returns None / [] (a list is expected)"),
    "vt-skip-first": ("show", Q, [('        states = None\n        for image_name in params.objects("images"):',
                                   '        states = None\n        for image_name in params.objects("images")[1:]:')],
                      "refused", "the first image skipped (a slice: outside the subset)"),
    "vt-old-loop": ("show", Q, [('        states = None\n        for image_name in params.objects("images"):',
                                 '        states = set()\n        for image_name in params.objects("images"):'),
                                ("            if states is None:\n                states = list(image_states)\n"
                                 "            else:\n                states = [state for state in states if state in image_states]\n"
                                 "        return states if states is not None else []",
                                 "            if len(states) == 0:\n                states = image_states\n"
                                 "            else:\n                states = states.intersect(image_states)\n"
                                 "        return states")],
                    "refused", "the loop as it was before 8bdd936 (F1)"),
    "vt-one-liner": ("show", Q, [("            if states is None:\n                states = list(image_states)\n"
                                  "            else:\n                states = [state for state in states if state in image_states]",
                                  "            states = list(image_states) if states is None else [state for state in states if state in image_states]")],
                     "still-proves", "semantics preserving: the if statement as a conditional expression"),
    # ---- RamfileBackend._show, combination part (C17, ramImagesStates_matches_source)
    "ram-restart-on-empty": ("show", R, [("            if images_states is None:\n                images_states = set(image_snapshots)",
                                          "            if not images_states:\n                images_states = set(image_snapshots)")],
                             "refused", "`is None` -> `not images_states` (seeded C13d / C17b; truthiness of an optional)"),
    "ram-union": ("show", R, [("images_states.intersection(image_snapshots)", "images_states.union(image_snapshots)")],
                  "refused", "`.union` (outside the subset)"),
    "ram-last-image": ("show", R, [("images_states = images_states.intersection(image_snapshots)", "images_states = set(image_snapshots)")],
                       "proof-breaks", "the last image wins"),
    "ram-keep-first": ("show", R, [("images_states = images_states.intersection(image_snapshots)", "images_states = images_states")],
                       "proof-breaks", "the first image wins"),
    "ram-test-inverted": ("show", R, [("            if images_states is None:\n                images_states = set(image_snapshots)",
                                       "            if images_states is not None:\n                images_states = set(image_snapshots)")],
                          "refused", "`is None` -> `is not None`: `.intersection` on None"),
    "ram-fallback-dropped": ("show", R, [("        if images_states is None:\n            images_states = set()\n", "")],
                             "proof-breaks", "no `None -> set()`: `state in None` for a vm without images"),
    "ram-old-loop": ("show", R, [("        images_states = None\n", "        images_states = set()\n"),
                                 ("            if images_states is None:\n                images_states = set(image_snapshots)",
                                  "            if len(images_states) == 0:\n                images_states = set(image_snapshots)")],
                     "refused", "the loop as it was before 8bdd936"),
}

TARGET = {"index": ("GenIndex.lean", "I2N.Props.C16"), "show": ("GenShow.lean", "I2N.Props.C17")}


def source_of(target, path):
    if target == "index":
        return px.index_source(path)
    if target == "show":
        return px.show_source(qcow2_path=path) if path.endswith("qcow2.py") else px.show_source(ramfile_path=path)
    raise KeyError(target)


def run_one(name, scratch):
    target, rel, edits, expect, what = MUTANTS[name]
    src = os.path.join(vlib.REPO, rel)
    text = open(src).read()
    for old, new in edits:
        if text.count(old) != 1:
            raise RuntimeError(f"{name}: the text to edit occurs {text.count(old)} times in {src}")
        text = text.replace(old, new)
    dst = os.path.join(scratch, name + "_" + os.path.basename(src))
    with open(dst, "w") as fh:
        fh.write(text)
    gen, props = TARGET[target]
    res = {"mutant": name, "what": what, "expected": expect}
    try:
        lean = source_of(target, dst)
    except pygen.Unsupported as e:
        res.update(outcome="refused", detail=str(e)[:200])
        return res
    with open(os.path.join(vlib.LEAN, "I2N", "Extracted", gen), "w") as fh:
        fh.write(lean)
    ok, log = vlib.lake_build([props])
    errs = [l for l in log.splitlines() if l.startswith("error:")]
    res.update(outcome="still-proves" if ok else "proof-breaks", detail=(errs[0][:200] if errs else ""))
    return res


def restore(targets):
    props = []
    for t in sorted(targets):
        getattr(px, "extract_" + t)()
        props.append(TARGET[t][1])
    ok, log = vlib.lake_build(props)
    if not ok:
        raise RuntimeError("the restored generated files do not build: " + log[-500:])


def main():
    names = sys.argv[1:] or list(MUTANTS)
    scratch = tempfile.mkdtemp(prefix="i2n-verif-pxindex-")
    out = []
    try:
        for n in names:
            r = run_one(n, scratch)
            r["as_expected"] = r["outcome"] == r["expected"]
            out.append(r)
            print(json.dumps(r), flush=True)
    finally:
        shutil.rmtree(scratch, ignore_errors=True)
        restore({MUTANTS[n][0] for n in names})
    bad = [r["mutant"] for r in out if not r["as_expected"]]
    print(f"{len(out)} mutants, {len(out) - len(bad)} as expected" + (f", NOT as expected: {bad}" if bad else ""))
    return 1 if bad else 0


if __name__ == "__main__":
    sys.exit(main())
