"""Engine E6: drive the REAL multi-worker traversal (`TestGraph.traverse_object_trees`) of avocado-i2n under
virtual time on synthetic graphs built from real TestNode/TestObject/TestWorker instances.

Seams (all are module/class attributes the selftests replace as well; nothing in /repo is edited):
  * `TestRunner.run_test_task`           -> scheduled virtual duration + scheduled status (or "never reported")
  * `avocado_i2n.cartgraph.node.door`    -> a STATEFUL state-control stub (a store: location -> {(object, state)})
  * `TestWorker.get_session`             -> dummy
  * `TestGraph.parse_node_from_object`   -> synthetic pre-node for the two-step object creation (the one Cartesian
                                            parse inside the traversal)
  * asyncio event loop                   -> virtual clock

A run is described by a JSON-able `spec` (see `gen_spec`) and yields the ordered event stream
  [w, "start", node_class, uid, {...}] / "end" / "door" / "sleep" / "exit" / "raise" ...
which is (a) compared with the Lean model's stream for the same spec and resume order and (b) judged by the
verified monitors (`drv_trav mon-*`).
"""
import asyncio
import heapq
import os
import sys
import types

STATUSES = ["PASS", "FAIL", "ERROR", "WARN", "SKIP", "CANCEL", "INTERRUPTED"]
MAIN_RESTR = "all nonleaves leaves normal normal.gui normal.nongui minimal"


class VirtualLoop(asyncio.SelectorEventLoop):
    """Event loop whose clock jumps to the next timer when nothing is ready."""

    def __init__(self):
        super().__init__()
        self._vt = 0.0

    def time(self):
        return self._vt

    def _run_once(self):
        # drop cancelled timer heads, then jump the clock when idle
        while self._scheduled and self._scheduled[0]._cancelled:
            h = heapq.heappop(self._scheduled)
            h._scheduled = False
        if not self._ready and self._scheduled:
            when = self._scheduled[0]._when
            if when > self._vt:
                self._vt = when
        super()._run_once()


def _imports():
    from avocado_i2n.cartgraph import node as node_mod
    from avocado_i2n.cartgraph import graph as graph_mod
    from avocado_i2n.cartgraph import worker as worker_mod
    from avocado_i2n.cartgraph.node import TestNode
    from avocado_i2n.cartgraph.graph import TestGraph
    from avocado_i2n.cartgraph.worker import TestWorker, TestSwarm
    from avocado_i2n.cartgraph.object import TestObject, NetObject, VMObject, ImageObject
    from avocado_i2n.plugins.runner import TestRunner
    from avocado_i2n import params_parser as param
    from virttest.utils_params import Params
    from aexpect.exceptions import ShellCmdError
    return types.SimpleNamespace(**locals())


def objkey(o):
    """identity of a stateful object in the store / in the model: the vm name for its first image (the only kind the
    synthetic graphs use), else <type>_<long suffix> as the state-control parameters spell it"""
    if o.key == "images" and o.suffix == "image1":
        return o.long_suffix.split("_", 1)[1]
    return f"{o.key}_{o.long_suffix}"


def suffix_key(typed_suffix):
    """`images_image1_vm1` (as in check_state_images_image1_vm1) -> object key"""
    typ, _, rest = typed_suffix.partition("_")
    if typ == "images" and rest.startswith("image1_"):
        return rest[len("image1_"):]
    return typed_suffix


def node_states(node, what):
    """[(object key, value)] of `get_state` / `set_state` / `unset_mode` over the node's non-net objects, in object order"""
    out = []
    for o in node.objects:
        if o.key == "nets":
            continue
        p = o.object_typed_params(node.params)
        v = p.get(what)
        if v:
            out.append((objkey(o), v))
    return out


def node_name(cls, worker):
    """parser-shaped node name: <set>.<class>.vms.<vm>.v_<vm>.nets.<swarm>.<id>[.<vm2>...]"""
    restr = "normal.nongui" if cls.get("leaf") else "all"
    suffix = f"nets.{worker['swarm']}.{worker['id'].split('.')[-1]}"
    body = ".".join(f"{vm}.var{vm}.{suffix}" for vm in cls["objs"])
    return f"{restr}.{cls['name']}.vms.{body}"


class EventOverflow(BaseException):
    """the run produced more events than any terminating run of this size can (livelock guard)"""


class Run:
    """One execution of the real traversal for a spec; collects the event stream."""
    max_events = 60000
    max_spin = 2000          # picks of one worker without any event in between (see install: spin guard); observed on
                             # terminating runs: at most 30 for graphs of up to 53 nodes (recorded per run as spin_seen)
    overflow = False

    def __init__(self, spec, trace_internal=True):
        self.spec = spec
        self.m = _imports()
        self.events = []
        self.store = {loc: {tuple(x) for x in states} for loc, states in spec.get("pool", {}).items()}
        self.exec_count = {}
        self.cur = {}
        self.errors = []
        self.trace_internal = trace_internal

    # -- graph construction ---------------------------------------------------------------
    def build(self):
        m, spec = self.m, self.spec
        cfg = spec["cfg"]
        graph = m.TestGraph()
        m.TestSwarm.run_swarms = {}
        self.workers, self.nets = {}, {}
        self.vmobjs, self.imgobjs = {}, {}
        for vm in spec["vms"]:
            vo = m.VMObject(vm, m.param.Reparsable())
            vo._params_cache = m.Params({"name": f"vms.{vm}.var{vm}", "shortname": vm, "vms": vm, "images": "image1",
                                         "permanent_vm": "yes" if vm in spec.get("permanent", []) else "no"})
            io = m.ImageObject.__new__(m.ImageObject)
            m.TestObject.__init__(io, f"image1_{vm}", m.param.Reparsable())
            io.key = "images"
            io._params_cache = m.Params({"name": f"vms.{vm}.var{vm}", "shortname": vm, "vms": vm, "images": "image1",
                                         "main_vm": "none",
                                         "permanent_vm": "yes" if vm in spec.get("permanent", []) else "no"})
            io.composites.append(vo)
            vo.components.append(io)
            self.vmobjs[vm], self.imgobjs[vm] = vo, io
            graph.new_objects([vo, io])
        self.shell = {}
        for wi, w in enumerate(spec["workers"]):
            net = m.NetObject(w["id"], m.param.Reparsable())
            # as in the shipped nets.cfg: containers have an address each, the hosts of a cluster sit behind ONE gateway
            # address and differ by the forwarded port only
            self.shell[w["id"]] = ((f"{w['swarm']}.net.lan", str(220 + wi)) if w["spawner"] == "remote"
                                   else ("h" + w["id"], "22"))
            net._params_cache = m.Params({
                "name": f"nets.{w['swarm']}.{w['id'].split('.')[-1]}", "shortname": w["id"], "nets": w["id"],
                "nets_spawner": w["spawner"], "nets_host": w.get("host", "c" + w["id"]),
                "nets_gateway": w.get("gateway", ""), "nets_shell_host": self.shell[w["id"]][0],
                "nets_shell_port": self.shell[w["id"]][1], "nets_shell_client": "ssh", "nets_username": "root",
                "nets_password": "test1234", "nets_shell_prompt": "^\\[.*\\][\\#\\$]\\s*$",
                "nets_id": w["id"]})
            if w.get("restricted"):
                net.restrs["vm1"] = "only x\n"
            worker = m.TestWorker(net)
            worker.spawner = object()
            self.workers[w["id"]] = worker
            self.nets[w["id"]] = net
            graph.new_objects(net)
            graph.new_workers(worker)
            sw = m.TestSwarm.run_swarms.setdefault(worker.swarm_id, m.TestSwarm(worker.swarm_id, []))
            sw.workers.append(worker)
        # the shared root
        root = m.TestNode("1", m.param.Reparsable())
        root._params_cache = m.Params({"name": "all.internal.stateless.noop", "shortname": "internal.stateless.noop",
                                       "shared_root": "yes", "main_restrictions": MAIN_RESTR, "vms": "", "nets": "",
                                       "_name_map_file": {}})
        root.should_run = lambda x: False
        self.root = root
        self.nodes = {}      # (class, worker) -> TestNode
        self.node_key = {}   # id(TestNode) -> (class, worker)
        order = []
        for w in spec["workers"]:
            wid = w["id"]
            for cls in spec["classes"]:
                if wid in cls.get("exclude", []):
                    continue
                name = node_name(cls, w)
                p = {"name": name, "shortname": f"{cls['name']}.{'.'.join(cls['objs'])}.{wid}",
                     "nets": wid, "vms": " ".join(cls["objs"]), "images": "image1",
                     "main_restrictions": MAIN_RESTR, "pool_scope": cfg.get("pool_scope", "own swarm cluster shared"),
                     "nets_spawner": w["spawner"], "nets_host": w.get("host", "c" + wid),
                     "nets_gateway": w.get("gateway", ""), "nets_shell_host": self.shell[wid][0],
                     "nets_shell_port": self.shell[wid][1], "shared_pool": "/pool/shared", "swarm_pool": "/pool/swarm",
                     "vms_base_dir": "/images", "suite_path": "/suite", "unset_mode": "ri",
                     "test_timeout": str(cls.get("timeout", cfg.get("test_timeout", 100))),
                     "type": "synthetic", "configure_install": "synthetic_install",
                     "_name_map_file": {"nets.cfg": f"nets.{w['swarm']}.{wid.split('.')[-1]}"}}
                for k in ("max_tries", "max_concurrent_tries", "rerun_status", "stop_status", "pool_filter", "dry_run", "replay"):
                    v = cls.get(k, cfg.get(k))
                    if v is not None:
                        p[k] = str(v)
                for vm, st in cls.get("get", {}).items():
                    p[f"get_state_images_{vm}"] = st
                for vm, st in cls.get("set", {}).items():
                    p[f"set_state_images_{vm}"] = st
                for vm, mode in cls.get("unset", {}).items():
                    # removal can be requested with a type-specific key or with the object-suffixed generic key
                    p[f"unset_mode_{vm}" if cls.get("unset_style") == "generic" else f"unset_mode_images_{vm}"] = mode
                if cls.get("root_of"):
                    p["object_root"] = self.imgobjs[cls["root_of"]].id
                    if cls.get("create_permanent"):
                        p["create_permanent_vm"] = "yes"
                n = m.TestNode(cls.get("prefix", "1"), m.param.Reparsable())
                n._params_cache = m.Params(p)
                n.objects = [self.nets[wid]]
                for vm in cls["objs"]:
                    n.objects += [self.vmobjs[vm], self.imgobjs[vm]]
                    if self.nets[wid] not in self.vmobjs[vm].composites:
                        self.vmobjs[vm].composites.append(self.nets[wid])
                    if self.vmobjs[vm] not in self.nets[wid].components:
                        self.nets[wid].components.append(self.vmobjs[vm])
                self.nodes[(cls["name"], wid)] = n
                self.node_key[id(n)] = (cls["name"], wid)
                order.append(n)
        self.lazy = bool(spec.get("lazy"))
        self.flat = {}
        self.revealed = set()
        if self.lazy:
            # only the shared root and one flat node per selected (leaf) test exist up front; composite nodes are
            # revealed by the stubbed `parse_paths_to_object_roots` (the real one needs the Cartesian parser)
            shared_obj = m.TestObject("shared", m.param.Reparsable())
            shared_obj._params_cache = m.Params({"name": "shared", "shortname": "shared"})
            for cls in spec["classes"]:
                if not cls.get("leaf"):
                    continue
                f = m.TestNode(cls.get("prefix", "1"), m.param.Reparsable())
                f._params_cache = m.Params({"name": f"normal.nongui.{cls['name']}", "shortname": f"nongui.{cls['name']}",
                                            "main_restrictions": MAIN_RESTR, "vms": " ".join(cls["objs"]), "nets": "",
                                            "_name_map_file": {}})
                f.descend_from_node(root, shared_obj)
                self.flat[cls["name"]] = f
                self.node_key[id(f)] = (cls["name"], "*flat*")
            graph.new_nodes(list(self.flat.values()))
            graph.new_nodes(root)
            self.graph = graph
            self.order = order
            return graph
        # edges (in the class's declared parent order) and bridging (new node bridges with all old equivalent ones)
        for w in spec["workers"]:
            wid = w["id"]
            for cls in spec["classes"]:
                n = self.nodes.get((cls["name"], wid))
                if n is None:
                    continue
                if not cls.get("parents"):
                    n.descend_from_node(root, self.imgobjs[cls["root_of"]] if cls.get("root_of")
                                        else self.imgobjs[cls["objs"][0]])
                for pname, vm in cls.get("parents", []):
                    n.descend_from_node(self.nodes[(pname, wid)], self.imgobjs[vm])
        seen = []
        for n in order:
            for old in seen:
                if self.node_key[id(old)][0] == self.node_key[id(n)][0]:
                    n.bridge_with_node(old)
            seen.append(n)
        graph.new_nodes(order)
        graph.new_nodes(root)
        self.graph = graph
        self.order = order
        return graph

    # -- static ranks the model cannot compute (prefix_priority is not modelled) -----------
    def ranks(self, nodes=None):
        from functools import cmp_to_key
        nodes = nodes if nodes is not None else self.order + list(self.flat.values()) + [self.root]
        srt = sorted(nodes, key=cmp_to_key(lambda x, y: self.m.TestNode.prefix_priority(x.long_prefix, y.long_prefix)))
        rank, r, prev = {}, -1, None
        for n in srt:
            if prev is None or self.m.TestNode.prefix_priority(prev.long_prefix, n.long_prefix) != 0:
                r += 1
            rank[id(n)] = r
            prev = n
        return rank

    # -- seams ---------------------------------------------------------------------------
    def class_name(self, node):
        """name of the bridged class of a node (spec class name for synthetic graphs, else its index by bridged form)"""
        k = self.node_key.get(id(node))
        return k[0] if k else "c" + str(self.classes[node.bridged_form])

    def ev(self, *fields):
        self.spin_seen = max(getattr(self, "spin_seen", 0), getattr(self, "spin", 0))
        self.spin = 0
        self.events.append(list(fields))
        if len(self.events) > self.max_events:
            self.overflow = True
            raise EventOverflow()

    def worker_of_task(self):
        t = asyncio.current_task()
        return t.get_name() if t else "?"

    def install(self):
        m = self.m
        run = self
        self._saved = (m.TestRunner.run_test_task, m.node_mod.door, m.TestWorker.get_session,
                       m.TestGraph.__dict__["parse_node_from_object"], asyncio.sleep)
        self._saved_parse = m.TestGraph.parse_paths_to_object_roots
        # spin guard: between two events (test start/end, state request, back-off sleep, exit) a worker runs loop iterations
        # only; their number is bounded (C02: resume_within_bound / lazy_loop_terminates), and every iteration that changes the
        # path picks a child or a parent - a worker that keeps picking without ever producing an event spins without yielding
        # (the other workers are never resumed): reported like an event overflow instead of hanging the check
        self._saved_picks = (m.TestNode.pick_child, m.TestNode.pick_parent)
        real_pick_child, real_pick_parent = self._saved_picks
        run.spin = 0

        def pick_child(node, worker):
            run.spin += 1
            if run.spin > max(run.max_spin, 40 * len(run.graph.nodes)):
                run.overflow = True
                raise EventOverflow()
            return real_pick_child(node, worker)

        def pick_parent(node, worker):
            run.spin += 1
            if run.spin > max(run.max_spin, 40 * len(run.graph.nodes)):
                run.overflow = True
                raise EventOverflow()
            return real_pick_parent(node, worker)
        m.TestNode.pick_child, m.TestNode.pick_parent = pick_child, pick_parent

        async def run_test_task(runner, node):
            wid = node.params["nets"]
            if node.prefix.split("r")[0] == "0" and node.params["name"].startswith("all.internal.stateless.noop."):
                # the creation pre-step: named after the class of its object root
                root_node = [x for x in run.graph.nodes if not x.is_flat() and x.params.get("nets") == wid and
                             x.params.get("object_root") == node.params.get("object_root")][0]
                key = ("pre:@" + root_node.bridged_form, wid)
            else:
                key = ("@" + node.bridged_form, wid)
            k = run.exec_count.get(wid, 0)
            run.exec_count[wid] = k + 1
            sched = run.spec["schedule"].get(wid, [])
            dur, status = sched[k % len(sched)] if sched else (1, "PASS")
            uid = node.id_test.uid
            gets = sorted(node_states(node, "get_state"))
            locs = sorted((objkey(o), node.params.get(f"get_location_{o.long_suffix}")) for o in node.objects
                          if o.key != "nets" and node.params.get(f"get_location_{o.long_suffix}"))
            access = []
            for v_id, v_worker in run.workers.items():
                keys = [k2 for k2 in v_worker.params if k2.startswith("nets_")]
                if keys and all(node.params.get(f"{k2}_{v_id}") == v_worker.params[k2] for k2 in keys):
                    access.append(v_id)
            me = next((x for x in run.workers.values() if x.id == run.worker_of_task()), None)
            nets_ok = me is not None and node.params.get("nets") == me.id and all(
                node.params.get(k2) == me.params.get(k2) for k2 in ("nets_host", "nets_gateway", "nets_spawner"))
            if node.params.get("nets_spawner") == "remote" and node.started_worker is not None:
                sess = node.started_worker.get_session()
                want = (node.params.get("nets_shell_host"), node.params.get("nets_shell_port"))
                if sess is not None and (sess.host, sess.port) != want:
                    nets_ok = False
                    run.foreign_sessions.append(f"test {key[0]} of {wid} spawned through the session to "
                                                f"{sess.host}:{sess.port} (its own worker is {want[0]}:{want[1]})")
            if me is not None:
                # independent reading of the worker's object restrictions (lines `only a, b` / `no a, b` per vm): a test must
                # never be executed by a worker whose restrictions exclude one of its vm variants
                for o in node.objects:
                    if o.key != "vms":
                        continue
                    variants = o.params.get("name", "").split(".")
                    for line in (getattr(me, "restrs", None) or {}).get(o.suffix, "").splitlines():
                        kind, _, listed = line.strip().partition(" ")
                        listed = [v.strip() for v in listed.split(",") if v.strip()]
                        hit = any(v in variants for v in listed)
                        if (kind == "only" and listed and not hit) or (kind == "no" and hit):
                            run.excluded_runs.append(f"{key[0]} with {o.suffix}={o.params.get('name')} executed by {me.id} "
                                                     f"whose restrictions say '{line.strip()}'")
            run.ev(run.worker_of_task(), "start", key[0], uid, {
                "node_worker": key[1], "nets": node.params.get("nets"), "host": node.params.get("nets_host"),
                "gateway": node.params.get("nets_gateway"), "spawner": node.params.get("nets_spawner"),
                "started": node.started_worker.id if node.started_worker else None,
                "gets": gets, "locs": locs, "access": access, "nets_ok": nets_ok,
                "unknown": sum(1 for r in node.results if r["status"] == "UNKNOWN")})
            await run.vsleep(dur)
            if status is not None:
                tid = type("Mock", (), {"uid": uid, "name": node.params["name"]})()
                runner.job.result.tests.append({"name": tid, "status": status, "time_elapsed": str(dur), "logdir": "."})
                if (status == "PASS" or status == "WARN") and not key[0].startswith("pre:"):
                    for ok, v in node_states(node, "set_state"):
                        run.store.setdefault(wid, set()).add((ok, v))
            run.ev(run.worker_of_task(), "end", key[0], uid, {"status": status, "dur": dur})

        class Door:
            DUMP_CONTROL_DIR = "/tmp"
            action = None
            params = None

            @staticmethod
            def set_subcontrol_parameter(path, key, val):
                Door.action = val
                return path

            @staticmethod
            def set_subcontrol_parameter_dict(path, key, val):
                Door.params = val
                return path

            @staticmethod
            def run_subcontrol(session, path):
                p, do = Door.params, Door.action
                wid = p["nets"]
                if session is not None and p.get("nets_shell_host") is not None and \
                        (session.host, session.port) != (str(p.get("nets_shell_host")), str(p.get("nets_shell_port"))):
                    run.foreign_sessions.append(f"state {do} of {wid} sent through the session to {session.host}:"
                                                f"{session.port} (its own worker is {p.get('nets_shell_host')}:"
                                                f"{p.get('nets_shell_port')})")
                scope = p.get("pool_scope", "").split()
                reqs = []
                loc_key = {"check": "show_location", "get": "get_location", "unset": "unset_location"}[do]
                for key2, v in sorted(p.items()):
                    for typ in ("images", "vms", "nets"):
                        if key2.startswith(f"{do}_state_{typ}_") and v and not key2.endswith("_on_error"):
                            suffix = key2[len(f"{do}_state_"):]
                            reqs.append((suffix_key(suffix), v, p.get(f"{loc_key}_{suffix}", "")))
                ok = True
                for vm, st, loc in reqs:
                    if do == "check":
                        present = ("own" in scope and (vm, st) in run.store.get(wid, set())) or \
                                  ("shared" in scope and (vm, st) in run.store.get("shared", set()))
                        ok = ok and present
                    elif do == "unset":
                        run.store.get(wid, set()).discard((vm, st))
                    elif do == "get":
                        if (vm, st) in run.store.get("shared", set()):
                            run.store.setdefault(wid, set()).add((vm, st))
                run.ev(run.worker_of_task(), "door", do, wid, {"reqs": [list(r) for r in reqs], "scope": scope, "ok": ok})
                if do == "check" and not ok:
                    raise m.ShellCmdError(1, "command", "AssertionError")

        def parse_node_from_object(test_object, restriction="", prefix="", params=None):
            wid = params["nets"]
            n = m.TestNode(prefix, m.param.Reparsable())
            p = dict(params)
            p["name"] = "all.internal.stateless.noop.vms." + str(params["vms"]) + f".nets.{run.workers[wid].swarm_id}.{wid.split('.')[-1]}"
            p["shortname"] = "internal.stateless.noop." + wid
            n._params_cache = m.Params(p)
            root_node = [x for x in run.graph.nodes if not x.is_flat() and x.params.get("nets") == wid and
                         x.params.get("object_root") == params.get("object_root")][0]
            n.objects = list(root_node.objects)
            run.cur_pre[wid] = root_node.bridged_form
            return n

        def parse_paths_to_object_roots(graph_self, test_node, test_object, params=None):
            """synthetic stand-in for the lazy Cartesian expansion of a flat node for one worker's net"""
            wid = test_object.params["shortname"]
            cname = run.node_key[id(test_node)][0]
            classes = {c["name"]: c for c in run.spec["classes"]}
            leaf = run.nodes.get((cname, wid))
            if leaf is None:
                test_node.incompatible_workers.add(test_object.long_suffix)
                return
            todo, new = [cname], []
            while todo:
                c = todo.pop()
                n = run.nodes[(c, wid)]
                if id(n) in run.revealed or n in new:
                    continue
                new.append(n)
                todo.extend(p for p, _ in classes[c].get("parents", []))
            for n in new:
                for old in [x for x in run.order if id(x) in run.revealed]:
                    if run.node_key[id(old)][0] == run.node_key[id(n)][0]:
                        n.bridge_with_node(old)
                run.revealed.add(id(n))
                graph_self.new_nodes(n)
            for n in new:
                c = classes[run.node_key[id(n)][0]]
                for pname, vm in c.get("parents", []):
                    n.descend_from_node(run.nodes[(pname, wid)], run.imgobjs[vm])
            if id(leaf) in {id(x) for x in new}:
                leaf.descend_from_node(test_node, test_object)
            roots = [n for n in new if n.is_object_root()]
            run.ev(run.worker_of_task(), "parse", cname, wid, {"new": sorted(run.node_key[id(n)][0] for n in new)})
            first = True
            for n in new:
                yield (roots if first else []), [], n
                first = False

        async def vsleep_logged(delay, result=None):
            t = asyncio.current_task()
            if t is not None and t.get_name() in run.workers and not getattr(run, "_in_test", False):
                run.ev(t.get_name(), "sleep", delay)
            await run.vsleep(delay)
            return result

        self.cur_pre = {}
        m.TestRunner.run_test_task = run_test_task
        m.node_mod.door = Door
        # the REAL TestWorker.get_session (with its class-wide session cache) stays; only the login is faked: a session
        # remembers the address it was opened to, so a test handled through another worker's session is visible
        class FakeSession:
            def __init__(self, client, host, port, *a, **k):
                self.host, self.port = str(host), str(port)

            def cmd_output(self, *a, **k):
                return "date"

            def close(self):
                pass

        self._saved_login = m.worker_mod.remote.wait_for_login
        m.worker_mod.remote.wait_for_login = lambda *a, **k: FakeSession(*a, **k)
        m.TestWorker._session_cache = {}
        self.foreign_sessions = []
        self.excluded_runs = []
        if not getattr(self, "static_after", False):
            # (runs that expand flat nodes with the real parser keep the real function, also for the creation pre-step)
            m.TestGraph.parse_node_from_object = staticmethod(parse_node_from_object)
        if getattr(self, "lazy", False):
            m.TestGraph.parse_paths_to_object_roots = parse_paths_to_object_roots
        m.graph_mod.asyncio = types.SimpleNamespace(sleep=vsleep_logged)
        import avocado_i2n.plugins.runner as runner_mod
        self._runner_asyncio = runner_mod.asyncio
        runner_mod.asyncio = types.SimpleNamespace(sleep=vsleep_logged, **{
            k: getattr(asyncio, k) for k in ("ensure_future", "get_event_loop", "wait_for", "gather", "TimeoutError")})
        self._runner_mod = runner_mod

    def uninstall(self):
        m = self.m
        (m.TestRunner.run_test_task, m.node_mod.door, m.TestWorker.get_session,
         m.TestGraph.parse_node_from_object, _) = self._saved
        m.worker_mod.remote.wait_for_login = self._saved_login
        m.TestWorker._session_cache = {}
        m.TestGraph.parse_paths_to_object_roots = self._saved_parse
        m.TestNode.pick_child, m.TestNode.pick_parent = self._saved_picks
        m.graph_mod.asyncio = asyncio
        self._runner_mod.asyncio = self._runner_asyncio

    async def vsleep(self, delay):
        loop = asyncio.get_event_loop()
        fut = loop.create_future()
        loop.call_later(delay, lambda: (not fut.done()) and fut.set_result(None))
        await fut

    # -- the run ---------------------------------------------------------------------------
    def execute(self, max_virtual=None):
        m = self.m
        self.build()
        if not getattr(self, "static_after", False):
            self.static_lines = spec_lines(self)
        self.install()
        loop = VirtualLoop()
        asyncio.set_event_loop(loop)
        runner = m.TestRunner()
        runner.job = types.SimpleNamespace(result=types.SimpleNamespace(tests=[]), config={}, logdir=".",
                                           timeout=None)
        runner.previous_results = list(self.spec.get("previous", []))
        # results of a replayed job, given per (class, worker, status): named like the node's own test so that the
        # `re.search(bridged_form, name)` of traverse_node finds them (the uid of a previous job's result has no retry suffix)
        for cls, wid, status in self.spec.get("previous_by_class", []):
            n = getattr(self, "nodes", {}).get((cls, wid))
            if n is not None:
                runner.previous_results.append({"name": f"{n.prefix}-{n.params['name']}", "status": status,
                                                "time_elapsed": 1.0, "time": 1.0})
        self.runner = runner
        self.graph.runner = runner
        params = m.Params(self.spec.get("run_params", {}))

        async def one(wid):
            try:
                await self.graph.traverse_object_trees(self.workers[wid], params)
                self.ev(wid, "exit", "ok")
            except EventOverflow:
                self.events.append([wid, "timeout", "event-overflow"])
            except BaseException as e:  # noqa
                self.ev(wid, "raise", type(e).__name__, str(e)[:200])

        async def main():
            tasks = [loop.create_task(one(w["id"]), name=w["id"]) for w in
                     sorted(self.spec["workers"], key=lambda w: f"nets.{w['swarm']}.{w['id']}")]
            await asyncio.wait(tasks, timeout=max_virtual)
            for t in tasks:
                if not t.done():
                    self.ev(t.get_name(), "timeout", loop.time())
                    t.cancel()
            await asyncio.gather(*tasks, return_exceptions=True)

        try:
            loop.run_until_complete(main())
            self.vtime = loop.time()
        finally:
            self.uninstall()
            loop.close()
            asyncio.set_event_loop(None)
        if getattr(self, "static_after", False):
            self.static_lines = spec_lines(self)
        self.results = [(t["name"].name, t["name"].uid, t["status"]) for t in runner.job.result.tests]
        self.verdict = runner.all_results_ok()
        return self.events


# ---------------------------------------------------------------------------------------------
# static description of the REAL graph for the Lean model (extracted from the objects, not from the spec)

def shape_of(params):
    scope = params.get("pool_scope", "")
    if "swarm" not in scope and params.get("nets_spawner") == "lxc":
        return "own"
    if "cluster" not in scope and params.get("nets_spawner") == "remote":
        return "swarm"
    return "global"


def spec_lines(run):
    """lines describing workers, nodes, edges, pool for drv_trav; also returns index maps"""
    m = run.m
    lines = ["reset"]
    widx = {}
    for s in m.TestSwarm.run_swarms.values():
        for w in s.workers:
            widx[w.id] = len(widx)
            lines.append(f"worker {w.id} {w.swarm_id} {1 if len(w.restrs) else 0}")
    lazy = getattr(run, "lazy", False)
    nodes = (list(run.order) + list(run.flat.values()) + [run.root]) if lazy else list(run.graph.nodes)
    nidx = {id(n): i for i, n in enumerate(nodes)}
    classes = {}
    rank = run.ranks(nodes)
    for i, n in enumerate(nodes):
        p = n.params
        c = classes.setdefault(n.bridged_form, len(classes))
        owner = "-"
        if not n.is_flat():
            owner = str(widx[p["nets"]])
        flags = "".join([
            "f" if n.is_flat() else "", "s" if n.is_shared_root() else "", "o" if n.is_object_root() else "",
            "c" if len(n.cloned_nodes) > 0 else "", "d" if p.get("dry_run", "no") == "yes" else ""]) or "-"
        vms = [objkey(o) for o in n.objects if o.key != "nets"]
        sets = node_states(n, "set_state")
        gets = [(k, v) for k, v in node_states(n, "get_state") if v not in ("0root", "root", "0preinstall")]
        unset = [(k, v) for k, v in node_states(n, "unset_mode") if v != p.get("unset_mode", "ri") or v[0] == "f"]

        def pl(l):
            return ",".join(f"{a}:{b}" for a, b in l) or "-"
        lines.append(
            f"node {i} cls={c} owner={owner} name={p['name']} pfx={n.prefix} flags={flags} sets={pl(sets)} "
            f"gets={pl(gets)} unset={pl(unset)} maxtries={p.get('max_tries', '2' if p.get('replay') else '-')} "
            f"mct={(run.spec['cfg'].get('max_concurrent_tries', '-') if getattr(run, 'static_after', False) else p.get('max_concurrent_tries', '-'))} "
            f"timeout={p.get('test_timeout', 3600)} shape={shape_of(p)} scope={','.join(p.get('pool_scope', '').split()) or '-'} "
            f"filter={p.get('pool_filter', 'reuse')} rerun={','.join(p.get_list('rerun_status', [])) or '-'} "
            f"stop={','.join(p.get_list('stop_status', [])) or '-'} rank={rank[id(n)]} objs={','.join(vms) or '-'}"
            + (f" setless={n.setless_form}" if n.is_flat() and not n.is_shared_root() else ""))
    if lazy:
        # the complete (eager) edge set, as the expansion stub will reveal it
        cdef = {c["name"]: c for c in run.spec["classes"]}
        for i, n in enumerate(nodes):
            cname, wid = run.node_key.get(id(n), (None, None))
            if n is run.root:
                continue
            if wid == "*flat*":
                lines.append(f"edge {i} {nidx[id(run.root)]} -")
                continue
            c = cdef[cname]
            if not c.get("parents"):
                lines.append(f"edge {i} {nidx[id(run.root)]} {c['root_of'] if c.get('root_of') else c['objs'][0]}")
            for pname, vm in c.get("parents", []):
                lines.append(f"edge {i} {nidx[id(run.nodes[(pname, wid)])]} {vm}")
            if c.get("leaf"):
                lines.append(f"edge {i} {nidx[id(run.flat[cname])]} -")
    else:
        for i, n in enumerate(nodes):
            for parent, objs in n.setup_nodes.items():
                vms = sorted({objkey(o) for o in objs if o.key != "nets" and hasattr(o, "long_suffix") and o.long_suffix != "shared"})
                lines.append(f"edge {i} {nidx[id(parent)]} {','.join(vms) or '-'}")
    lines.append(f"root {nidx[id(run.root)]}")
    if lazy:
        for n in run.order:
            lines.append(f"hidden {nidx[id(n)]}")
    elif getattr(run, "static_after", False):
        for n in nodes:
            if not n.is_flat():
                lines.append(f"hidden {nidx[id(n)]}")
        # the edges from a flat test to its composite nodes do not exist before THAT flat test is expanded for the node's worker
        # (`parse_branches_for_node_and_object` hangs reused and new children below the flat node it expands), even when the
        # composite node exists already as the dependency of a test of another set: `Trav.edgeCode` (above every node index)
        for n in nodes:
            if n.is_flat() and not n.is_shared_root():
                for c in n.cleanup_nodes:
                    if not c.is_flat():
                        lines.append(f"hidden {len(nodes) * (nidx[id(n)] + 1) + nidx[id(c)]}")
    for loc, states in sorted(run.spec.get("pool", {}).items()):
        lines.append(f"pool {loc} " + ",".join(f"{a}:{b}" for a, b in states))
    lines.append("init")
    run.widx, run.nidx, run.classes = widx, nidx, classes
    return lines


def canon(line):
    """canonical form of an event line (sets sorted)"""
    toks = line.split(" ")
    out = []
    for t in toks:
        if t.startswith("locs="):
            items = []
            for it in t[5:].split(","):
                if not it:
                    continue
                vm, locs = it.split("=", 1)
                items.append(vm + "=" + "+".join(sorted(locs.split("+"))))
            t = "locs=" + ",".join(sorted(items))
        elif t.startswith("reqs="):
            t = "reqs=" + ",".join(sorted(x for x in t[5:].split(",") if x))
        out.append(t)
    return " ".join(out)


def project(run, e):
    """real event -> event line in the model's format"""
    w, kind = e[0], e[1]

    def cname(c):
        # classes are recorded by bridged form and resolved to the index of the static description here
        pre = c.startswith("pre:")
        base = c[4:] if pre else c
        if base.startswith("@"):
            base = str(run.classes[base[1:]])
        return ("pre:" if pre else "") + base
    if kind == "start":
        c = e[2]
        locs = ",".join(f"{vm}={v.replace(' ', '+')}" for vm, v in e[4]["locs"])
        return canon(f"start {w} {cname(c)} {e[3]} locs={locs} unknown={e[4]['unknown']}")
    if kind == "end":
        return f"end {w} {cname(e[2])} {e[3]} {e[4]['status'] or 'NONE'}"
    if kind == "door":
        reqs = ",".join(f"{r[0]}:{r[1]}" for r in e[4]["reqs"])
        return canon(f"door {e[3]} {e[2]} reqs={reqs} scope={','.join(e[4]['scope'])} ok={'true' if e[4]['ok'] else 'false'}")
    if kind == "sleep":
        return f"sleep {w} {int(round(e[2] * 100))}"
    if kind == "exit":
        return f"exit {w}"
    if kind == "raise":
        return f"raise {w} {e[2]}"
    return f"{kind} {w}"


def blocks(run):
    """group the real event stream into atomic blocks: [(resume line, [event lines])]"""
    out, cur, curw = [], None, None
    for e in run.events:
        w, kind = e[0], e[1]
        if kind in ("timeout", "parse"):
            continue
        if cur is None:
            if kind == "end":
                line = f"resume {run.widx[w]} {e[4]['status'] or 'NONE'} {e[4]['dur']}"
            else:
                line = f"resume {run.widx[w]}"
            cur, curw = (line, []), w
        elif w != curw:
            raise RuntimeError(f"interleaved atomic blocks: {curw} and {w}")
        cur[1].append(project(run, e))
        if kind in ("start", "sleep", "exit", "raise"):
            out.append(cur)
            cur, curw = None, None
    if cur is not None:
        out.append(cur)
    return out


def compare_with_model(run, driver):
    """returns None when the model reproduces the event stream, else (block index, model, impl)"""
    lines = list(run.static_lines)
    bl = blocks(run)
    n0 = len(lines)
    lines += [b[0] for b in bl]
    outs = driver("drv_trav", lines)
    for i, (res, evs) in enumerate(bl):
        got = " | ".join(canon(x) for x in outs[n0 + i].split(" | ") if x)
        want = " | ".join(evs)
        if got != want:
            return (i, res, got, want)
    return None


# ---------------------------------------------------------------------------------------------
# seeded generator of synthetic traversal cases

WORKER_KINDS = [
    {"id": "net1", "swarm": "localhost", "spawner": "lxc"},
    {"id": "net2", "swarm": "localhost", "spawner": "lxc"},
    {"id": "net3", "swarm": "localhost", "spawner": "lxc"},
    {"id": "net4", "swarm": "localhost", "spawner": "lxc"},
    {"id": "cluster1.net6", "swarm": "cluster1", "spawner": "remote", "gateway": "gw1", "host": "1"},
    {"id": "cluster1.net7", "swarm": "cluster1", "spawner": "remote", "gateway": "gw1", "host": "2"},
    {"id": "cluster2.net6", "swarm": "cluster2", "spawner": "remote", "gateway": "gw2", "host": "1"},
]


def gen_spec(rng, profile="mixed"):
    """A random pre-parsed synthetic graph + configuration + schedule + initial pools.

    profile: "mixed" (everything), "converge" (several workers, one shared chain, short durations: occupation
    and retries), "cleanup" (removable states at any depth), "faulty" (failures, never-reported results)."""
    kind = rng.random()
    if kind < 0.6 or profile == "longwait":
        pool = [w for w in WORKER_KINDS if w["spawner"] == "lxc"]
    elif kind < 0.85:
        pool = [w for w in WORKER_KINDS if w["spawner"] == "remote"]
    else:
        pool = [dict(WORKER_KINDS[0], spawner="process", host="")]
    nw = 1 if len(pool) == 1 else rng.choice([1, 2, 2, 3, 3, 4]) if profile != "longwait" else rng.choice([2, 2, 3])
    workers = [dict(w) for w in pool[:nw]] if rng.random() < 0.7 else [dict(w) for w in rng.sample(pool, min(nw, len(pool)))]
    # grouped by swarm as TestSwarm.run_swarms would be
    scopes = ["own", "swarm", "cluster", "shared"]
    r = rng.random()
    if r < 0.55:
        scope = list(scopes)
    else:
        scope = [s for s in scopes if rng.random() < 0.7] or ["own"]
    cfg = {"pool_scope": " ".join(scope), "test_timeout": rng.choice([1000, 1000, 1000, 200, 100])}
    if rng.random() < 0.35 or profile in ("converge", "longwait"):
        cfg["max_tries"] = rng.choice([1, 2, 2, 3, 1, 2, 2, 3, 0])
        if rng.random() < 0.4:
            cfg["max_concurrent_tries"] = rng.choice([1, 1, 2, 3])
        if rng.random() < 0.3:
            cfg["rerun_status"] = rng.choice(["fail", "fail error", "pass", "error warn"])
        if rng.random() < 0.2:
            cfg["stop_status"] = rng.choice(["pass", "fail", "error"])
    if rng.random() < 0.1:
        cfg["pool_filter"] = rng.choice(["copy", "block", "reuse"])
    nvm = rng.choice([1, 2, 2, 3]) if profile != "longwait" else rng.choice([1, 1, 2])
    vms = ["vm1", "vm2", "vm3"][:nvm]
    classes = []
    chains = {}
    removable = profile == "cleanup" or rng.random() < 0.3
    pcount = [0]

    def prefix(depth, vm):
        pcount[0] += 1
        return str(vms.index(vm) + 1) + "".join(f"a{rng.randint(1, 2)}" for _ in range(depth))
    for vm in vms:
        depth = rng.randint(1, 4)
        chain = []
        name = f"install{vm[-1]}"
        classes.append({"name": name, "objs": [vm], "set": {vm: "install"}, "root_of": vm, "prefix": prefix(depth + 1, vm)})
        chain.append((name, "install"))
        for d in range(depth):
            # fan-out: a new setup test hangs under any earlier one of the chain
            pname, pstate = chain[rng.randrange(len(chain))] if rng.random() < 0.4 else chain[-1]
            st = f"s{d}{vm[-1]}"
            c = {"name": f"setup{d}{vm[-1]}", "objs": [vm], "get": {vm: pstate}, "set": {vm: st},
                 "parents": [[pname, vm]], "prefix": prefix(depth - d, vm)}
            if removable and rng.random() < 0.5:
                c["unset"] = {vm: rng.choice(["fi", "fi", "ff", "ri"])}
                if rng.random() < 0.4:
                    c["unset_style"] = "generic"
            classes.append(c)
            chain.append((c["name"], st))
        chains[vm] = chain
    nleaf = rng.randint(1, 4)
    for i in range(nleaf):
        k = rng.choice([1, 1, 2, 3])
        objs = sorted(rng.sample(vms, min(k, len(vms))))
        parents, get = [], {}
        for vm in objs:
            pname, pstate = rng.choice(chains[vm])
            parents.append([pname, vm])
            get[vm] = pstate
        c = {"name": f"leaf{i}", "leaf": True, "objs": objs, "get": get, "parents": parents, "prefix": str(i + 1)}
        if rng.random() < 0.15:
            # a stateful leaf (on-state like tests)
            c["set"] = {objs[0]: f"leafstate{i}"}
            if removable and rng.random() < 0.5:
                c["unset"] = {objs[0]: "fi"}
        classes.append(c)
    # initial pools: any subset of producible states per location
    producible = [(vm, st) for vm in vms for _, st in chains[vm]]
    poolspec = {}
    r = rng.random()
    if r < 0.5:
        dens = 0.0
    elif r < 0.8:
        dens = 0.3
    else:
        dens = 0.8
    for loc in ["shared"] + [w["id"] for w in workers]:
        sts = [list(x) for x in producible if rng.random() < dens]
        if sts:
            poolspec[loc] = sts
    # schedule: per worker a cyclic list of (duration, status)
    faulty = profile in ("faulty", "replay") or rng.random() < 0.3
    sched = {}
    for w in workers:
        seq = []
        for _ in range(rng.randint(1, 7)):
            if profile in ("converge", "longwait"):
                dur = rng.choice([1, 1, 2, 3, 5])
            else:
                dur = rng.choice([1, 2, 3, 5, 8, 13, 40, 90])
            dur = min(dur, cfg["test_timeout"])
            st = "PASS"
            if faulty:
                x = rng.random()
                if x < 0.25:
                    st = rng.choice(["FAIL", "ERROR", "WARN", "SKIP", "CANCEL", "INTERRUPTED"])
                elif x < 0.3:
                    st = None
            seq.append([dur, st])
        sched[w["id"]] = seq
    # worker-asymmetric copies (drawn last so that the other draws of a seed stay what they were): a leaf test that some workers
    # cannot compose (object restrictions of their nets) is parsed for the other workers only; its setup stays parsed for all
    if len(workers) > 1 and rng.random() < 0.2:
        leaves = [c for c in classes if c.get("leaf")]
        for c in rng.sample(leaves, rng.randint(1, len(leaves))):
            c["exclude"] = [w["id"] for w in rng.sample(workers, rng.randint(1, len(workers) - 1))]
    spec = {"workers": workers, "vms": vms, "cfg": cfg, "classes": classes, "pool": poolspec, "schedule": sched}
    if profile == "longwait":
        long_wait(rng, spec)
    if profile == "replay":
        add_replay(rng, spec)
    return spec


def add_replay(rng, spec):
    """profile "replay": the job replays a previous one (`replay=<job>`): results of that job are attached to the nodes the
    first time they are traversed, `should_rerun` then defaults to a budget of 2 tries and to rerun_status fail,error,warn.
    Not in the Lean traversal model (stated gap): such runs are judged by the monitors count, attempt, overlap and uid only."""
    cfg = spec["cfg"]
    cfg["replay"] = "prevjob"
    if rng.random() < 0.7:
        cfg.pop("max_tries", None)
    cfg.pop("rerun_status", None)
    cfg.pop("stop_status", None)
    cfg.pop("max_concurrent_tries", None)
    prev = []
    for c in spec["classes"]:
        for w in spec["workers"]:
            if w["id"] in c.get("exclude", []):
                continue
            if rng.random() < 0.5:
                prev.append([c["name"], w["id"], rng.choice(["FAIL", "FAIL", "ERROR", "PASS", "PASS", "WARN"])])
    spec["previous_by_class"] = prev


def long_wait(rng, spec):
    """profile "longwait": a timeout budget above 10 000 s (the shipped default test_timeout is 14 400 s) and ONE test
    that legitimately runs for most of it while the other workers of the scope converge on it: they back off about 900
    times in a row, and the waiting time they account must stay below the budget (no bump, nobody joins).  Everything
    else is short so that the run stays within the virtual-time limit."""
    cfg = spec["cfg"]
    cfg["test_timeout"] = rng.choice([14400, 14400, 20000, 12000])
    cfg["pool_scope"] = "own swarm cluster shared"
    cfg.pop("max_concurrent_tries", None)
    if cfg.get("max_tries", 1) not in (1, 2):
        cfg.pop("max_tries", None)
    spec["pool"] = {}
    for c in spec["classes"]:
        c.pop("exclude", None)
    ids = [w["id"] for w in spec["workers"]]
    slow = rng.choice(ids)
    for wid in ids:
        seq = [[rng.choice([2, 3, 5, 8]), "PASS"] for _ in range(6)]
        if wid == slow:
            seq[rng.randrange(2)] = [int(cfg["test_timeout"] * rng.choice([0.72, 0.8, 0.9])), "PASS"]
        spec["schedule"][wid] = seq


def mon_lines(run):
    """the REAL event stream as `ev ...` lines for the verified monitors of drv_trav"""
    out = []
    for e in run.events:
        w, kind = e[0], e[1]
        wi = run.widx[w]
        if kind == "start":
            line = project(run, e).split(" ")
            cls = line[2]
            locs = ",".join(f"{vm}=" + "+".join(("S" if tok.split(":")[0] == "" else tok.split(":")[0]) for tok in v.split())
                            for vm, v in e[4]["locs"])
            out.append(f"ev start {wi} {cls} {e[3]} locs={locs or '-'} nw={run.widx[e[4]['node_worker']]} "
                       f"nets={1 if e[4]['nets_ok'] else 0} access={'+'.join(e[4]['access']) or '-'}")
        elif kind == "end":
            line = project(run, e).split(" ")
            out.append(f"ev end {wi} {line[2]} {e[3]} {e[4]['status'] or 'NONE'} {e[4]['dur']}")
        elif kind == "door":
            reqs = ",".join(f"{r[0]}:{r[1]}" for r in e[4]["reqs"])
            out.append(f"ev door {run.widx[e[3]]} {e[2]} reqs={reqs or '-'} ok={'true' if e[4]['ok'] else 'false'}")
        elif kind == "exit":
            out.append(f"ev exit {wi}")
        elif kind == "raise":
            out.append(f"ev raise {wi} {e[2]}")
        elif kind == "timeout":
            out.append(f"ev timeout {wi}")
    return out


MONITORS = ["overlap", "count", "attempt", "present", "owner", "states", "cleanup", "result", "uid"]


def run_case(spec, driver, monitors=MONITORS, max_virtual=200000, run_cls=None):
    """run the real traversal for a spec; returns dict(disagree=..., mon={name: verdict}, stats=...)"""
    r = (run_cls or Run)(spec)
    r.execute(max_virtual=max_virtual)
    res = {"events": len(r.events), "vtime": r.vtime, "verdict": r.verdict}
    lines = list(r.static_lines)
    bl = [] if r.overflow else blocks(r)
    n0 = len(lines)
    lines += [b[0] for b in bl]
    n1 = len(lines)
    lines += mon_lines(r)
    n2 = len(lines)
    dry = spec["cfg"].get("dry_run") == "yes"
    mons = [("result-dry" if (m == "result" and dry) else m) for m in monitors]
    lines += [f"mon {m}" for m in mons]
    outs = driver("drv_trav", lines)
    res["disagree"] = None
    res["overflow"] = r.overflow
    if hasattr(r, "lazy_vs_eager"):
        res["lazy_vs_eager"] = [[a, str(b)[:300], str(c)[:300]] for a, b, c in r.lazy_vs_eager()][:5]
    for i, (resume, evs) in enumerate(bl):
        got = " | ".join(canon(x) for x in outs[n0 + i].split(" | ") if x)
        want = " | ".join(evs)
        if got != want:
            res["disagree"] = {"block": i, "resume": resume, "model": got[:1500], "impl": want[:1500]}
            break
    res["mon"] = {m: outs[n2 + k] for k, m in enumerate(monitors)}
    kinds = {}
    for e in r.events:
        kinds[e[1]] = kinds.get(e[1], 0) + 1
    res["kinds"] = kinds
    res["n_exec"] = kinds.get("start", 0)
    res["foreign_sessions"] = list(getattr(r, "foreign_sessions", []))[:5]
    res["excluded_runs"] = list(getattr(r, "excluded_runs", []))[:5]
    res["spin_seen"] = getattr(r, "spin_seen", 0)       # most picks of one worker between two events
    res["graph_nodes"] = len(getattr(r.graph, "nodes", []))
    # states removed during the run (state control `unset` requests): "<object>:<state>" -> workers that removed it
    res["unset_by"] = {}
    for e in r.events:
        if len(e) >= 5 and e[1] == "door" and e[2] == "unset" and isinstance(e[4], dict):
            for q in e[4].get("reqs", []):
                res["unset_by"].setdefault(f"{q[0]}:{q[1]}", []).append(e[3])
    res["class_flags"] = {}
    for l in r.static_lines:
        if l.startswith("node "):
            t = dict(x.split("=", 1) for x in l.split(" ")[2:] if "=" in x)
            res["class_flags"].setdefault(t["cls"], t.get("flags", "-"))
    res["class_names"] = {str(r.classes[n.bridged_form]): key[0] for key, n in r.nodes.items() if n.bridged_form in r.classes}
    res["statuses"] = sorted({str(e[4]["status"]) for e in r.events if e[1] == "end"})
    return res
