"""C02 — traversal family (engine E6), see DESIGN.md §6 and harness/trav_common.py."""
import os

import trav_common
import vlib

PROP = "C02"
ENGINE = "traverse"
TARGETS = ["I2N.Props.C02", "drv_trav"]
PROPS_FILE = "I2N/Props/C02.lean"
MONITORS = "result,uid".split(",")
ANCHORS = {"avocado_i2n/cartgraph/graph.py": ["TestGraph.traverse_object_trees", "TestGraph.traverse_node",
                                              "TestGraph.reverse_node", "TestGraph.traverse_terminal_node"],
           "avocado_i2n/cartgraph/node.py": ["TestNode.is_occupied", "TestNode.is_started", "TestNode.is_finished",
                                             "TestNode.is_setup_ready", "TestNode.is_cleanup_ready",
                                             "TestNode.should_rerun", "TestNode.default_run_decision",
                                             "TestNode.default_clean_decision", "TestNode.pick_parent",
                                             "TestNode.pick_child", "TestNode.drop_parent", "TestNode.drop_child",
                                             "TestNode.pull_locations", "TestNode.scan_states", "TestNode.sync_states",
                                             "TestNode.shared_results", "TestNode.shared_filtered_results",
                                             "TestNode.shared_result_worker_ids", "TestNode.shared_involved_workers"],
           "avocado_i2n/plugins/runner.py": ["TestRunner.run_test_node"]}
TRUSTED = [
    "modelled, not verified: prefix_priority (exported as ranks), the avocado task machinery (replaced by a scheduled "
    "outcome), the state backends (replaced by a store: a PASS leaves the set states in the executing worker's own pool; "
    "check consults own/shared pool by scope), lazy expansion of flat leaves and replay of previous jobs (not in this model)",
    "virtual-time event loop of the harness (asyncio.SelectorEventLoop subclass)",
    "harness/pygen.py + harness/pygen_pxready.py (Python AST -> Lean `do` block, fails closed) regenerate "
    "I2N/Extracted/GenReady.lean on every run from the source of TestNode.is_setup_ready / is_cleanup_ready (search loop "
    "behind a `continue` guard), drop_parent / drop_child (ValueError for a non-neighbour, one register call) and "
    "pick_parent / pick_child (two candidate filters, RuntimeError, three stable sorts, first element, one register "
    "call); isSetupReady_matches_source, isCleanupReady_matches_source, dropParent_matches_source, "
    "dropChild_matches_source, drop_raises_for_non_neighbour, pickParent_matches_source, pickChild_matches_source prove "
    "the model's functions equal to them for every graph, state, node and worker (no hypotheses).  Trusted: the "
    "translator; the atom table of harness/pygen_pxready.py (a node / worker is its index; self.setup_nodes = the parents "
    "in dictionary order; node.is_flat(); worker.id in node.params['name']; worker.id in <register>.get_workers(node) = "
    "membership in regWorkers of the register of the class of self under the class of node; <register>.register = regAdd "
    "on the named register, for picks the register of the class of the PICKED node; <register>.get_counters() = regTotal, "
    "read before the only write; the three sort keys pinned verbatim: cmp_to_key(prefix_priority) = the exported rank, "
    "get_counters, int(not is_flat()); sorted(key=) = the model's stable insertion sort) - the EdgeRegister class itself "
    "(nested dictionaries keyed by bridged form and worker id) is tied to Reg by the differential runs only",
    "harness/pygen.py + harness/pygen_pxloc.py regenerate I2N/Extracted/GenLazy.lean on every run from the source of "
    "TestNode.is_unrolled, should_parse, is_flat, is_shared_root, is_object_root, get_stateful_objects; "
    "isUnrolled_matches_source, shouldParse_matches_source, one_line_atoms_match_source (Props/C02.lean) prove the model's "
    "isUnrolled / shouldParse equal to them (is_unrolled: on the shared root and flat nodes, RuntimeError otherwise; "
    "should_parse: for restriction lists that are empty exactly for unrestricted workers).  Trusted: the translator; the "
    "atom table of harness/pygen_pxloc.py (worker / worker is None = one optional worker; worker.net.long_suffix in "
    "self.incompatible_workers = the pair (flat node, worker) is in State.incompatible; self.cleanup_nodes = the children "
    "in dictionary order; setless_form / node.id / worker.id = Node.setless / Graph.nodeId / Worker.id, the substring tests "
    "between them translated; shared_involved_workers = involved as a list, iterated for an existence test; the parameter "
    "defaults worker=None and do='set' are checked textually); the one-line atoms are closed forms, the fields they stand "
    "for are filled by the export of harness/travlib.py, which calls the real methods",
]
CORPUS = os.path.join(vlib.VERIF, "corpus", PROP)


def correspondence(ctx):
    thorough = ctx.tier == "thorough" or ctx.extra.get("drift")
    ctx.rule = ("one case = a generated synthetic graph of real TestNode objects (1-3 vms, setup chains with fan-out, multi-object "
                "leaves, removable states; 30% with lazy expansion of flat leaves) or a really parsed graph of the shipped suite, 1-4 workers (lxc / remote clusters / serial), pool_scope subset, retry settings, "
                "initial pool population and per-worker schedule of (duration, status|never reported); the real "
                "traverse_object_trees runs under virtual time, its event stream is replayed block by block through the Lean "
                "model and judged by the verified monitors " + ",".join(MONITORS) + "; non-trivial = more than two executions")
    n = 3000 if thorough else 240
    trav_common.family_run(ctx, MONITORS, n, corpus=CORPUS, n_parsed=48 if thorough else 12,
                            n_lazyparsed=12 if thorough else 3)


def search(ctx, reason):
    trav_common.family_run(ctx, MONITORS, 1500, corpus=None, seed_offset=7919)


def replay(ctx, payload):
    trav_common.replay_case(ctx, payload, MONITORS)


def extract(ctx):
    """lean/I2N/Extracted/GenReady.lean from the AST of /repo's cartgraph/node.py (second tie, see harness/pygen.py and
    harness/pygen_pxready.py).  Raises (pygen.Unsupported) when a function left the translated subset or a pinned text
    changed: run.py records that as a broken proof obligation."""
    import pygen_pxready
    if pygen_pxready.extract_ready(ctx):
        ctx.notes.append("I2N/Extracted/GenReady.lean changed: the source of TestNode.is_setup_ready / is_cleanup_ready / "
                         "drop_parent / drop_child / pick_parent / pick_child differs from the one the committed file was "
                         "generated from (the *_matches_source theorems are re-checked)")
    import pygen_pxloc
    if pygen_pxloc.extract_lazy(ctx):
        ctx.notes.append("I2N/Extracted/GenLazy.lean changed: the source of TestNode.is_unrolled / should_parse / is_flat / "
                         "is_shared_root / is_object_root / get_stateful_objects differs from the one the committed file "
                         "was generated from (isUnrolled_matches_source, shouldParse_matches_source, "
                         "one_line_atoms_match_source are re-checked)")
    ctx.extra["regenerated"] = ("lean/I2N/Extracted/GenReady.lean (TestNode.is_setup_ready, is_cleanup_ready, drop_parent, "
                                "drop_child, pick_parent, pick_child via harness/pygen_pxready.py); "
                                "lean/I2N/Extracted/GenLazy.lean (TestNode.is_unrolled, should_parse, is_flat, "
                                "is_shared_root, is_object_root, get_stateful_objects via harness/pygen_pxloc.py)")
