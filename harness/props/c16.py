"""C16 — name lookups and visit counters are exact (engine E1 `index`)."""
import itertools
import os
import types

import vlib

PROP = "C16"
ENGINE = "index"
TARGETS = ["I2N.Props.C16", "drv_index"]
PROPS_FILE = "I2N/Props/C16.lean"
ANCHORS = {"avocado_i2n/cartgraph/node.py": [
    "PrefixTreeNode", "PrefixTree", "EdgeRegister", "TestNode.bridge_with_node", "TestNode.bridged_form",
    "TestNode.setless_form"],
    "avocado_i2n/cartgraph/graph.py": ["TestGraph.get_nodes_by_name"]}
TRUSTED = ["modelled, not verified: result order of PrefixTree.get (compared as sorted lists); "
           "names repeating their first variant are excluded (the real insert does not terminate on them)",
           "harness/pygen.py + harness/pygen_pxindex.py (Python AST -> Lean `do` block, fails closed) regenerate "
           "I2N/Extracted/GenIndex.lean on every run from the source of EdgeRegister.register / get_counters / "
           "get_workers; register_matches_source, getCounters_matches_source, getWorkers_matches_source prove the hand "
           "model equal to it through the adapter `flat` (dict of dicts -> flat association list) for every well formed "
           "registry, source_counters_exact states exactness on the generated source itself.  Trusted: the translator; "
           "the dictionary primitives of I2N/Lemmas/PyDict.lean (keys, getD = dict.get, get? = dict[], setItem = "
           "dict[k] = v, insertion ordered); the atom table (truthiness of an optional TestNode / TestWorker is "
           "`is not None`; node.bridged_form / worker.id are the keys); the three subscript stores of register pinned "
           "verbatim to setInnerEmpty / setCount 0 / addCount 1"]

SETS = ["normal", "minimal", "all", "leaves"]
VARS = ["nongui", "quicktest", "tutorial1", "tutorial2", "internal", "automated", "customize", "vms", "vm1", "vm2",
        "qcow2", "CentOS", "8", "0", "nets", "localhost", "net1", "net2", "cluster1"]


def extract(ctx):
    """lean/I2N/Extracted/GenIndex.lean from /repo's AST (second tie, see harness/pygen_pxindex.py).  Raises
    (pygen.Unsupported) when one of the three EdgeRegister methods left the translated subset or a pinned statement
    changed: run.py records that as a broken proof obligation (and runs the failing-input search)."""
    import pygen_pxindex
    if pygen_pxindex.extract_index(ctx):
        ctx.notes.append("I2N/Extracted/GenIndex.lean changed: the source of EdgeRegister.register / get_counters / "
                         "get_workers differs from the one the committed file was generated from (register_matches_source, "
                         "getCounters_matches_source, getWorkers_matches_source are re-checked)")
    ctx.extra["regenerated"] = ("lean/I2N/Extracted/GenIndex.lean (EdgeRegister.register, get_counters, get_workers via "
                                "harness/pygen_pxindex.py); obligations: register_matches_source, "
                                "getCounters_matches_source, getWorkers_matches_source, source_counters_exact")


def _impl():
    os.chdir(vlib_scratch())
    from avocado_i2n.cartgraph.node import PrefixTree, EdgeRegister, TestNode
    from avocado_i2n import params_parser as param
    from virttest.utils_params import Params
    return PrefixTree, EdgeRegister, TestNode, param, Params


_scr = None


def vlib_scratch():
    global _scr
    if _scr is None:
        import tempfile
        _scr = tempfile.mkdtemp(prefix="i2n-verif-c16-")
    return _scr


def is_wf(names):
    """parser-shaped: non-empty, no variant repeated within a name, first variant never at a later position"""
    firsts = {n[0] for n in names}
    if len({tuple(n) for n in names}) != len(names):
        return False
    for n in names:
        if len(set(n)) != len(n) or any(v in firsts for v in n[1:]):
            return False
    return True


def infix(q, n):
    return any(n[i:i + len(q)] == q for i in range(len(n) - len(q) + 1))


def gen_names(rng, small):
    """mostly WF name sets over a small alphabet (so that sharing of inner variants is frequent)"""
    sets = SETS[:3] if small else SETS
    vars_ = VARS[:6] if small else VARS
    k = rng.randint(1, 4 if small else 12)
    names = []
    for _ in range(k):
        ln = rng.randint(0, 3 if small else 7)
        body = rng.sample(vars_, min(ln, len(vars_)))
        if rng.random() < 0.5:
            body.sort(key=vars_.index)        # parser-like: same relative order of variants
        names.append([rng.choice(sets)] + body)
    uniq = []
    for n in names:
        if n not in uniq:
            uniq.append(n)
    return uniq


def gen_malformed(rng):
    """outside WF (first variant re-used at a later position of *another* name, repeated inner variants);
    never a name repeating its own first variant (real insert loops forever there)"""
    names = gen_names(rng, True)
    for n in names:
        r = rng.random()
        if r < 0.4 and len(n) > 1:
            n.append(n[rng.randint(1, len(n) - 1)])
        elif r < 0.8:
            other = rng.choice(names)
            if other[0] != n[0]:
                n.append(other[0])
    uniq = []
    for n in names:
        if n not in uniq:
            uniq.append(n)
    return uniq


def queries(rng, names, extra=4):
    qs = []
    for n in names:
        for i in range(len(n)):
            for j in range(i + 1, min(len(n), i + 3) + 1):
                qs.append(n[i:j])
    alpha = sorted({v for n in names for v in n})
    for _ in range(extra):
        qs.append([rng.choice(alpha) for _ in range(rng.randint(1, 3))])
    qs.append(["nosuchvariant"])
    uniq = []
    for q in qs:
        if q not in uniq:
            uniq.append(q)
    return uniq


def run_trie_cases(ctx, cases, oracle=True):
    """cases: list of (names, order, queries).  Runs impl + model, compares, applies the spec oracle."""
    PrefixTree, EdgeRegister, TestNode, param, Params = _impl()
    lines, expect = [], []
    for ci, (names, qs) in enumerate(cases):
        tree = PrefixTree()
        lines.append("trie-new")
        expect.append((ci, "new", None, "ok"))
        stubs = []
        for i, n in enumerate(names):
            stub = types.SimpleNamespace(params={"name": ".".join(n)}, idx=i)
            stubs.append(stub)
            tree.insert(stub)
            lines.append(f"trie-insert {'.'.join(n)} {i}")
            expect.append((ci, "insert", n, "ok"))
        wf = is_wf(names)
        ctx.count("trie.wf" if wf else "trie.malformed")
        ctx.count(f"trie.names={len(names)}")
        for q in qs:
            got = sorted(s.idx for s in tree.get(".".join(q)))
            has = ".".join(q) in tree
            lines.append(f"trie-get {'.'.join(q)}")
            expect.append((ci, "get", q, " ".join(map(str, got))))
            lines.append(f"trie-has {'.'.join(q)}")
            expect.append((ci, "has", q, "true" if has else "false"))
            if oracle and wf:
                want = sorted(i for i, n in enumerate(names) if infix(q, n))
                ctx.count("trie.query.hit" if want else "trie.query.miss")
                if got != want:
                    ctx.violate("trie-get-not-exact", f"get({'.'.join(q)}) returned {got}, contiguous matches are {want}",
                                {"kind": "trie", "names": names, "query": q})
                if has != bool(want):
                    ctx.violate("trie-contains-disagrees", f"'{'.'.join(q)}' in tree = {has}, lookups give {want}",
                                {"kind": "trie", "names": names, "query": q})
        ctx.case({"kind": "trie", "names": [".".join(n) for n in names], "n_queries": len(qs)},
                 nontrivial=len(names) > 1)
    out = vlib.driver("drv_index", lines)
    for (ci, op, arg, want), got in zip(expect, out):
        if want != got:
            ctx.disagree(f"trie:{op}", {"kind": "trie", "names": cases[ci][0], "query": arg}, got, want)
            break


def mk_node(TestNode, param, Params, idx, cls, worker):
    n = TestNode(str(idx), param.Reparsable())
    # as the shipped nets.cfg names them: containers of this host are `nets.localhost.netN` (id netN), the hosts of a
    # cluster `nets.clusterK.netM` (id clusterK.netM); equivalent tests of BOTH kinds share one bridged form
    net = f"nets.{worker}" if "." in worker else f"nets.localhost.{worker}"
    name = f"normal.cls{cls}.vms.vm1.{net}"
    n._params_cache = Params({"name": name, "shortname": name, "main_restrictions": "normal minimal all leaves",
                              "nets": worker, "_name_map_file": {"nets.cfg": net}})
    n.objects = [types.SimpleNamespace(key="nets", suffix=worker, long_suffix=worker, id=f"{worker}-{net}",
                                       params=Params({"name": net, "shortname": worker}))]
    return n


def run_register_cases(ctx, cases, oracle=True):
    """cases: list of (n_nodes [(cls, worker)], ops); ops: ('bridge', a, c) | ('nreg', n, k, w) | ('ncnt', n, k|None, w|None)
    | ('nwrk', n, k|None) | ('same', a, c)"""
    PrefixTree, EdgeRegister, TestNode, param, Params = _impl()
    lines, expect = [], []
    for ci, (nodes, ops, disciplined) in enumerate(cases):
        objs = [mk_node(TestNode, param, Params, i, c, w) for i, (c, w) in enumerate(nodes)]
        keyn = {}

        def key(i):  # a child/parent node used as register key
            return objs[i]
        lines.append("reset")
        expect.append((ci, "reset", "ok"))
        hist = []
        for op in ops:
            ctx.count("reg." + op[0])
            if op[0] == "bridge":
                a, c = op[1], op[2]
                try:
                    objs[a].bridge_with_node(objs[c])
                    res = "ok"
                except ValueError:
                    res = "valueError"
                if nodes[a][0] != nodes[c][0]:
                    # non-equivalent: the model is only asked about equivalent nodes; the code must refuse
                    if res != "valueError" and a != c:
                        ctx.violate("bridge-nonequivalent-accepted", "bridging of non-equivalent nodes accepted",
                                    {"kind": "reg", "nodes": nodes, "ops": ops})
                    continue
                lines.append(f"bridge {a} {c}")
                expect.append((ci, op, res))
            elif op[0] == "nreg":
                _, n, k, w = op
                objs[n]._picked_by_setup_nodes.register(key(k), types.SimpleNamespace(id=w))
                objs[n]._dropped_cleanup_nodes.register(key(k), types.SimpleNamespace(id=w))
                hist.append((n, k, w))
                lines.append(f"nreg {n} {objs[k].bridged_form} {w}")
                expect.append((ci, op, "ok"))
            elif op[0] == "ncnt":
                _, n, k, w = op
                got = objs[n]._picked_by_setup_nodes.get_counters(
                    key(k) if k is not None else None, types.SimpleNamespace(id=w) if w is not None else None)
                got2 = objs[n]._dropped_cleanup_nodes.get_counters(
                    key(k) if k is not None else None, types.SimpleNamespace(id=w) if w is not None else None)
                lines.append(f"ncnt {n} {objs[k].bridged_form if k is not None else '*'} {w if w is not None else '*'}")
                expect.append((ci, op, str(got)))
                if oracle and disciplined:
                    want = sum(1 for (m, k2, w2) in hist if nodes[m][0] == nodes[n][0]
                               and (k is None or nodes[k2][0] == nodes[k][0]) and (w is None or w2 == w))
                    if got != want or got2 != want:
                        ctx.violate("counter-not-exact", f"get_counters={got}/{got2}, registered visits={want}",
                                    {"kind": "reg", "nodes": nodes, "ops": ops})
            elif op[0] == "nwrk":
                _, n, k = op
                got = sorted(objs[n]._picked_by_setup_nodes.get_workers(key(k) if k is not None else None))
                lines.append(f"nwrk {n} {objs[k].bridged_form if k is not None else '*'}")
                expect.append((ci, op, " ".join(got)))
                if oracle and disciplined:
                    want = sorted({w2 for (m, k2, w2) in hist if nodes[m][0] == nodes[n][0]
                                   and (k is None or nodes[k2][0] == nodes[k][0])})
                    if got != want:
                        ctx.violate("workers-not-exact", f"get_workers={got}, registered={want}",
                                    {"kind": "reg", "nodes": nodes, "ops": ops})
            elif op[0] == "same":
                _, a, c = op
                same = all(getattr(objs[a], r) is getattr(objs[c], r) for r in
                           ("_picked_by_setup_nodes", "_dropped_setup_nodes", "_picked_by_cleanup_nodes",
                            "_dropped_cleanup_nodes"))
                lines.append(f"same {a} {c}")
                expect.append((ci, op, "true" if same else "false"))
                if oracle and disciplined and nodes[a][0] == nodes[c][0] and not same:
                    ctx.violate("registers-not-shared", f"equivalent nodes {a},{c} do not share their registers",
                                {"kind": "reg", "nodes": nodes, "ops": ops})
        ctx.case({"kind": "reg", "nodes": nodes, "ops": [list(o) for o in ops][:12], "disciplined": disciplined},
                 nontrivial=len(ops) > 3)
    out = vlib.driver("drv_index", lines)
    for (ci, op, want), got in zip(expect, out):
        if want != got:
            ctx.disagree(f"reg:{op[0] if isinstance(op, tuple) else op}",
                         {"kind": "reg", "nodes": cases[ci][0], "ops": cases[ci][1]}, got, want)
            break


def gen_register_case(rng, disciplined):
    ncls = rng.randint(1, 3)
    workers = ["net1", "net2", "net3", "net4"][:rng.randint(1, 4)]
    if rng.random() < 0.35:
        # a mixed set: containers of this host next to hosts of one or two clusters
        workers = rng.sample(["net1", "net2", "cluster1.net6", "cluster1.net7", "cluster2.net6"], rng.randint(2, 4))
    nodes = [(c, w) for c in range(ncls) for w in workers]
    rng.shuffle(nodes)
    ops = []
    if disciplined:
        # one of the two bridging disciplines of the code, then arbitrary register/lookup traffic
        if rng.random() < 0.5:
            # graph.py: every new node bridges with all old equivalent ones
            for i in range(len(nodes)):
                for j in range(i):
                    if nodes[j][0] == nodes[i][0]:
                        ops.append(("bridge", i, j))
        else:
            # intertest_setup.update: all ordered pairs
            for i in range(len(nodes)):
                for j in range(len(nodes)):
                    if i != j and nodes[j][0] == nodes[i][0]:
                        ops.append(("bridge", i, j))
    for _ in range(rng.randint(1, 30)):
        r = rng.random()
        n = rng.randrange(len(nodes))
        k = rng.randrange(len(nodes))
        if r < 0.15 and not disciplined:
            ops.append(("bridge", n, k))
        elif r < 0.55:
            ops.append(("nreg", n, k, nodes[n][1] if rng.random() < 0.7 else rng.choice(workers)))
        elif r < 0.8:
            ops.append(("ncnt", n, k if rng.random() < 0.8 else None, rng.choice(workers) if rng.random() < 0.8 else None))
        elif r < 0.9:
            ops.append(("nwrk", n, k if rng.random() < 0.7 else None))
        else:
            ops.append(("same", n, k))
    return nodes, ops, disciplined


def exhaustive_small(limit=None):
    """all name sets of <=3 names, length <=3 (set variant + <=2 of 3 others), all orders implied by permutations"""
    sets, others = ["S", "T"], ["a", "b", "c"]
    names = []
    for s in sets:
        names.append([s])
        for k in (1, 2):
            for body in itertools.permutations(others, k):
                names.append([s] + list(body))
    out = []
    for k in (1, 2, 3):
        for combo in itertools.permutations(names, k):
            out.append([list(n) for n in combo])
    return out


def gen_history(rng):
    """an interleaved history of insertions and lookups: names are indexed one by one (strict dotted prefixes of already
    indexed names included - a flat test after its own composite nodes), and between the insertions the same partial names
    are looked up again and again"""
    names = gen_names(rng, rng.random() < 0.6)
    for n in list(names):
        if len(n) > 1 and rng.random() < 0.5:
            pre = n[:rng.randint(1, len(n) - 1)]
            if pre not in names:
                names.insert(rng.randint(names.index(n) + 1 if rng.random() < 0.7 else 0, len(names)), pre)
    qs = queries(rng, names, extra=2)
    rng.shuffle(qs)
    watch = qs[:rng.randint(1, min(4, len(qs)))]
    ops = []
    for n in names:
        ops.append(("ins", n))
        for q in watch:
            if rng.random() < 0.7:
                ops.append((rng.choice(["get", "get", "has"]), q))
    for q in watch:
        ops.append(("get", q))
    return ops


def run_trie_histories(ctx, histories, oracle=True):
    """histories: lists of ("ins", name) / ("get", query) / ("has", query) in the order they are applied"""
    PrefixTree, EdgeRegister, TestNode, param, Params = _impl()
    lines, expect = [], []
    for ci, ops in enumerate(histories):
        tree = PrefixTree()
        lines.append("trie-new")
        expect.append((ci, "new", None, "ok"))
        names = []
        for op, arg in ops:
            if op == "ins":
                stub = types.SimpleNamespace(params={"name": ".".join(arg)}, idx=len(names))
                names.append(arg)
                tree.insert(stub)
                lines.append(f"trie-insert {'.'.join(arg)} {stub.idx}")
                expect.append((ci, "insert", arg, "ok"))
                continue
            wf = is_wf(names)
            want = sorted(i for i, n in enumerate(names) if infix(arg, n))
            if op == "get":
                got = sorted(s.idx for s in tree.get(".".join(arg)))
                lines.append(f"trie-get {'.'.join(arg)}")
                expect.append((ci, "get", arg, " ".join(map(str, got))))
                if oracle and wf and got != want:
                    ctx.violate("trie-get-not-exact", f"after indexing {['.'.join(n) for n in names]} one by one (with lookups "
                                f"in between): get({'.'.join(arg)}) returned {got}, contiguous matches are {want}",
                                {"kind": "trie-history", "ops": [[o, a] for o, a in ops]})
            else:
                has = ".".join(arg) in tree
                lines.append(f"trie-has {'.'.join(arg)}")
                expect.append((ci, "has", arg, "true" if has else "false"))
                if oracle and wf and has != bool(want):
                    ctx.violate("trie-contains-disagrees", f"'{'.'.join(arg)}' in tree = {has}, a scan of the indexed names "
                                f"gives {want}", {"kind": "trie-history", "ops": [[o, a] for o, a in ops]})
        ctx.count("trie.history")
        ctx.count(f"trie.history.ops={min(len(ops) // 5 * 5, 40)}+")
        ctx.case({"kind": "trie-history", "ops": [[o, ".".join(a)] for o, a in ops]}, nontrivial=len(names) > 1)
    out = vlib.driver("drv_index", lines)
    for (ci, op, arg, want), got in zip(expect, out):
        if want != got:
            ctx.disagree(f"trie-history:{op}", {"kind": "trie-history", "ops": [[o, a] for o, a in histories[ci]]}, got, want)
            break


def correspondence(ctx):
    rng = ctx.rng
    thorough = ctx.tier == "thorough" or ctx.extra.get("drift")
    ctx.rule = ("trie cases: a set of dotted names inserted in a random order into the real PrefixTree and into the Lean "
                "model, then every contiguous sub-sequence (length<=3) of every name plus random misses is looked up with "
                "get and __contains__; register cases: random register/get_counters/get_workers/bridge sequences on real "
                "TestNode objects; non-trivial = more than one name / more than three operations; distinct by content hash")
    # corpus first
    corpus = os.path.join(vlib.VERIF, "corpus", "C16")
    if os.path.isdir(corpus):
        import json
        for f in sorted(os.listdir(corpus)):
            c = json.load(open(os.path.join(corpus, f)))
            replay(ctx, {"case": c})
    n_trie, n_mal, n_reg = (30000, 3000, 20000) if thorough else (3000, 300, 2000)
    cases = []
    for _ in range(n_trie):
        names = gen_names(rng, rng.random() < 0.5)
        rng.shuffle(names)
        cases.append((names, queries(rng, names)))
    for _ in range(n_mal):
        names = gen_malformed(rng)
        cases.append((names, queries(rng, names)))
    if thorough:
        ex = exhaustive_small()
        ctx.extra["exhaustive_small_name_sets"] = len(ex)
        for names in ex:
            cases.append((names, queries(rng, names, extra=0)))
    for i in range(0, len(cases), 2000):
        run_trie_cases(ctx, cases[i:i + 2000])
    hist = [gen_history(rng) for _ in range(n_trie // 3)]
    for i in range(0, len(hist), 2000):
        run_trie_histories(ctx, hist[i:i + 2000])
    rcases = [gen_register_case(rng, rng.random() < 0.6) for _ in range(n_reg)]
    for i in range(0, len(rcases), 2000):
        run_register_cases(ctx, rcases[i:i + 2000])


def search(ctx, reason):
    """proof or correspondence broke: hunt on the implementation with the spec oracle only (bigger, biased sample)"""
    rng = ctx.rng
    cases = []
    for _ in range(20000):
        names = gen_names(rng, True)
        rng.shuffle(names)
        if is_wf(names):
            cases.append((names, queries(rng, names)))
    for names in exhaustive_small():
        cases.append((names, queries(rng, names, extra=0)))
    for i in range(0, len(cases), 4000):
        run_trie_cases(ctx, cases[i:i + 4000])
        if ctx.violations:
            break
    if not ctx.violations:
        rcases = [gen_register_case(rng, True) for _ in range(20000)]
        for i in range(0, len(rcases), 4000):
            run_register_cases(ctx, rcases[i:i + 4000])
            if ctx.violations:
                break
    # shrink the first violation
    if ctx.violations:
        v = ctx.violations[0]
        c = v["case"]
        if c["kind"] == "trie":
            def fails(names):
                sub = vlib.Ctx(ctx.prop, ctx.tier, ctx.seed)
                sub.disagree = lambda *a, **k: None
                try:
                    run_trie_cases(sub, [(names, [c["query"]])])
                except Exception:
                    return False
                return bool(sub.violations)
            v["case"]["names"] = vlib.shrink_list(c["names"], fails)


def replay(ctx, payload):
    c = payload["case"]
    if c.get("kind") == "trie":
        qs = [c["query"]] if c.get("query") else queries(ctx.rng, c["names"])
        run_trie_cases(ctx, [([list(n) for n in c["names"]], qs)])
    elif c.get("kind") == "trie-history":
        run_trie_histories(ctx, [[(o, list(a) if isinstance(a, list) else a.split(".")) for o, a in c["ops"]]])
    elif c.get("kind") == "reg":
        run_register_cases(ctx, [([tuple(n) for n in c["nodes"]], [tuple(o) for o in c["ops"]], True)])
