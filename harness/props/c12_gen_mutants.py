"""Mutation sanity for the translator tie of C12 (development tool, not part of ./check):

    /venv/bin/python harness/props/c12_gen_mutants.py [name-prefix ...]

For every mutant: one textual edit of a scratch copy of avocado_i2n/states/setup.py (/repo untouched), then
harness/pygen_pxpolicy.py regenerates I2N/Extracted/GenPolicy.lean from the copy.  Expected: either the translation
refuses (pygen.Unsupported), or `lake build I2N.Lemmas.PolicyGen` (the module that holds the proofs of
getOne/setOne/unsetOne/checkOne_matches_source; push, pop: I2N.Lemmas.PolicyGenPush; _state_check_chain:
I2N.Lemmas.PolicyGenChain) FAILS.  A mutant for which the build
succeeds SURVIVES = a hole.  The committed GenPolicy.lean is restored afterwards.
"""
import os
import subprocess
import sys
import tempfile

sys.path.insert(0, os.path.dirname(os.path.dirname(os.path.abspath(__file__))))
import vlib  # noqa: E402
import pygen  # noqa: E402
import pygen_pxpolicy  # noqa: E402

MUTANTS = {
    "g1 get: abort-on-missing compares the wrong letter": (
        "get", [('        if not state_exists and "a" == action_if_doesnt_exist:\n            logging.info("Aborting because of missing snapshot for setup")',
                 '        if not state_exists and "a" == action_if_exists:\n            logging.info("Aborting because of missing snapshot for setup")')]),
    "g2 get: elif reordered (ignore before abort on present)": (
        "get", [('        elif state_exists and "a" == action_if_exists:\n            logging.info("Aborting because of unwanted snapshot for setup")',
                 '        elif state_exists and "x" == action_if_exists:\n            logging.info("Aborting because of unwanted snapshot for setup")')]),
    "g3 get: default get_mode ra -> ri": (
        "get", [('state_params.get("get_mode", "ra")\n\n        logging.info(f"Getting', 'state_params.get("get_mode", "ri")\n\n        logging.info(f"Getting')]),
    "g4 get: `continue` forgotten after ignore-present": (
        "get", [('            logging.warning("Ignoring present snapshot for setup")\n            continue\n',
                 '            logging.warning("Ignoring present snapshot for setup")\n')]),
    "g5 get: ROOTS test negated": (
        "get", [('        if state_params["get_state"] in ROOTS:\n            state_backend.get_root',
                 '        if state_params["get_state"] not in ROOTS:\n            state_backend.get_root')]),
    "g6 get: backend looked up before the nested check": (
        "get", [('        state_exists = _state_check_chain(\n            "get", env, params_obj_type, params_obj_name, state_params\n        )\n        state_backend = BACKENDS[state_params["states"]]\n',
                 '        state_backend = BACKENDS[state_params["states"]]\n        state_exists = _state_check_chain(\n            "get", env, params_obj_type, params_obj_name, state_params\n        )\n')]),
    "s1 set: root guard of .f dropped (and -> or)": (
        "set", [('if not state_params["set_state"] in ROOTS and not state_backend.check_root(',
                 'if not state_params["set_state"] in ROOTS or not state_backend.check_root(')]),
    "s2 set: SourcedStateBackend special case dropped": (
        "set", [("if issubclass(state_backend, SourcedStateBackend):", "if False and issubclass(state_backend, SourcedStateBackend):")]),
    "s3 set: a. and r. swapped": (
        "set", [('        if state_exists and "a" == action_if_exists:\n            logging.info("Aborting because of unwanted snapshot for later cleanup")',
                 '        if state_exists and "r" == action_if_exists:\n            logging.info("Aborting because of unwanted snapshot for later cleanup")'),
                ('        elif state_exists and "r" == action_if_exists:\n            logging.info("Keeping',
                 '        elif state_exists and "a" == action_if_exists:\n            logging.info("Keeping')]),
    "s4 set: wrong chain (`get` instead of `set`)": (
        "set", [('            "set", env, params_obj_type, params_obj_name, state_params', '            "get", env, params_obj_type, params_obj_name, state_params')]),
    "s5 set: unset_state key not written before the overwrite": (
        "set", [('            state_params["unset_state"] = state_params["set_state"]\n', '')]),
    "u1 unset: `continue` forgotten after reuse": (
        "unset", [('                params_obj_name,\n            )\n            continue\n        elif state_exists and "f" == action_if_exists:',
                   '                params_obj_name,\n            )\n        elif state_exists and "f" == action_if_exists:')]),
    "u2 unset: default fi -> fa": (
        "unset", [('state_params.get("unset_mode", "fi")', 'state_params.get("unset_mode", "fa")')]),
    "u3 unset: read-only guard compares another type": (
        "unset", [('            continue\n        if params_obj_type == "nets/vms/images" and state_params.get_boolean(\n            "image_readonly", False\n        ):\n            logging.warning(\n                f"Incorrect configuration: cannot use any state "\n                f"from readonly image {params_obj_name} - skipping"\n            )\n            continue\n\n        # if the state is not defined skip (leaf tests that are no setup)\n        if not state_params.get("unset_state"):',
                   '            continue\n        if params_obj_type == "images" and state_params.get_boolean(\n            "image_readonly", False\n        ):\n            logging.warning(\n                f"Incorrect configuration: cannot use any state "\n                f"from readonly image {params_obj_name} - skipping"\n            )\n            continue\n\n        # if the state is not defined skip (leaf tests that are no setup)\n        if not state_params.get("unset_state"):')]),
    "c1 check: check_mode letters swapped": (
        "check", [('action_if_root_exists = state_params["check_mode"][0]\n        action_if_root_doesnt_exist = state_params["check_mode"][1]',
                   'action_if_root_exists = state_params["check_mode"][1]\n        action_if_root_doesnt_exist = state_params["check_mode"][0]')]),
    "c2 check: pool_scope=own forgotten on a forced root": (
        "check", [('            if action_if_root_doesnt_exist == "f":\n                root_params["pool_scope"] = "own"\n', '            if action_if_root_doesnt_exist == "f":\n')]),
    "c3 check: default check_mode rf -> rr": (
        "check", [('state_params.get("check_mode", "rf")', 'state_params.get("check_mode", "rr")')]),
    "c4 check: `return False` on a missing root becomes `continue`": (
        "check", [('            elif action_if_root_doesnt_exist == "r":\n                return False', '            elif action_if_root_doesnt_exist == "r":\n                continue')]),
    "c5 check: set_root before unset_root on a forced re-creation": (
        "check", [('                state_backend.unset_root(root_params, state_object)\n            state_backend.set_root(root_params, state_object)\n            root_exists = True\n        else:',
                   '                state_backend.set_root(root_params, state_object)\n            state_backend.unset_root(root_params, state_object)\n            root_exists = True\n        else:')]),
    "c6 check: show on root_params instead of state_params": (
        "check", [("state_exists = state in state_backend.show(state_params, state_object)", "state_exists = state in state_backend.show(root_params, state_object)")]),
    "p1 push: ROOTS guard dropped": (
        "push", [('        if state in ROOTS:\n            # cannot be done with root states\n            continue\n\n        # restrict parametric objects of this type in the subroutine\n        composite_types = params_obj_type.split("/")\n        composite_names = params_obj_name.split("/")\n        for composite_type, composite_name in zip(composite_types, composite_names):\n            state_params[composite_type] = composite_name\n        state_params["states_chain"] = composite_types[-1]\n\n        state_params["set_state"]',
                  '        # restrict parametric objects of this type in the subroutine\n        composite_types = params_obj_type.split("/")\n        composite_names = params_obj_name.split("/")\n        for composite_type, composite_name in zip(composite_types, composite_names):\n            state_params[composite_type] = composite_name\n        state_params["states_chain"] = composite_types[-1]\n\n        state_params["set_state"]')]),
    "p2 push: default push_mode af -> ff": (
        "push", [('state_params.get("push_mode", "af")', 'state_params.get("push_mode", "ff")')]),
    "p3 push: set_state written from set_state instead of push_state": (
        "push", [('state_params["set_state"] = state_params["push_state"]', 'state_params["set_state"] = state_params["set_state"]')]),
    "o1 pop: default of the get half ra -> ri": (
        "pop", [('state_params.get("pop_mode", "ra")', 'state_params.get("pop_mode", "ri")')]),
    "o2 pop: the unset half reads unset_mode instead of pop_mode": (
        "pop", [('state_params.get("pop_mode", "fa")', 'state_params.get("unset_mode", "fa")')]),
    "o3 pop: unset_states called before get_states": (
        "pop", [('        get_states(state_params, env)\n\n        state_params["unset_state"] = state_params["pop_state"]',
                 '        unset_states(state_params, env)\n\n        state_params["unset_state"] = state_params["pop_state"]'),
                ('state_params.get("pop_mode", "fa")\n        unset_states(state_params, env)',
                 'state_params.get("pop_mode", "fa")\n        get_states(state_params, env)')]),
    "o4 pop: ROOTS guard dropped": (
        "pop", [('        if state in ROOTS:\n            # cannot be done with root states\n            continue\n\n        # restrict parametric objects of this type in the subroutine\n        composite_types = params_obj_type.split("/")\n        composite_names = params_obj_name.split("/")\n        for composite_type, composite_name in zip(composite_types, composite_names):\n            state_params[composite_type] = composite_name\n        state_params["states_chain"] = composite_types[-1]\n\n        state_params["get_state"]',
                 '        # restrict parametric objects of this type in the subroutine\n        composite_types = params_obj_type.split("/")\n        composite_names = params_obj_name.split("/")\n        for composite_type, composite_name in zip(composite_types, composite_names):\n            state_params[composite_type] = composite_name\n        state_params["states_chain"] = composite_types[-1]\n\n        state_params["get_state"]')]),
    "o5 pop: unset_state key not written": (
        "pop", [('        state_params["unset_state"] = state_params["pop_state"]\n', '')]),
    "o6 pop: the unset half is skipped (second call dropped)": (
        "pop", [('state_params.get("pop_mode", "fa")\n        unset_states(state_params, env)\n', 'state_params.get("pop_mode", "fa")\n')]),
    "k1 chain: soft boot chosen for get instead of set": (
        "chain", [('    if do == "set":\n        state_params["check_opts"] = "soft_boot=yes"', '    if do == "get":\n        state_params["check_opts"] = "soft_boot=yes"')]),
    "k2 chain: else branch writes soft_boot=yes into check_opts": (
        "chain", [('        state_params["check_opts"] = "soft_boot=no"', '        state_params["check_opts"] = "soft_boot=yes"')]),
    "k3 chain: location test negated": (
        "chain", [('    if state_params.get(f"{do}_location"):', '    if not state_params.get(f"{do}_location"):')]),
    "k4 chain: show_location written under another key": (
        "chain", [('        state_params["show_location"] = state_params[f"{do}_location"]', '        state_params["check_location"] = state_params[f"{do}_location"]')]),
    "k5 chain: soft_boot key not written in the else branch": (
        "chain", [('        state_params["soft_boot"] = "no"\n', '')]),
    "k6 chain: check_state taken from the mode key": (
        "chain", [('    state_params["check_state"] = state_params[f"{do}_state"]', '    state_params["check_state"] = state_params.get(f"{do}_mode", "")')]),
    "k7 chain: names and types swapped in the restriction": (
        "chain", [('    for composite_type, composite_name in zip(composite_types, composite_names):\n        state_params[composite_type] = composite_name\n    state_params["states_chain"]',
                   '    for composite_type, composite_name in zip(composite_types, composite_names):\n        state_params[composite_name] = composite_type\n    state_params["states_chain"]')]),
    "k8 chain: states_chain written before the restriction loop": (
        "chain", [('    for composite_type, composite_name in zip(composite_types, composite_names):\n        state_params[composite_type] = composite_name\n    state_params["states_chain"] = composite_types[-1]\n    state_exists',
                   '    state_params["states_chain"] = composite_types[-1]\n    for composite_type, composite_name in zip(composite_types, composite_names):\n        state_params[composite_type] = composite_name\n    state_exists')]),
    "o7 pop: states_chain restricted to the first type": (
        "pop", [('        state_params["states_chain"] = composite_types[-1]\n\n        state_params["get_state"]',
                 '        state_params["states_chain"] = composite_types[0]\n\n        state_params["get_state"]')]),
}


def main(argv):
    names = [n for n in MUTANTS if not argv or any(n.startswith(a) for a in argv)]
    src = open(os.path.join(vlib.REPO, pygen_pxpolicy.SETUP_REL)).read()
    gen = pygen._lean_path("GenPolicy.lean")
    committed = open(gen).read()
    lean_dir = vlib.LEAN
    rows = []
    try:
        for name in names:
            which, edits = MUTANTS[name]
            text = src
            for old, new in edits:
                assert text.count(old) == 1, (name, old[:60], text.count(old))
                text = text.replace(old, new)
            compile(text, "setup_mut.py", "exec")
            with tempfile.NamedTemporaryFile("w", suffix=".py", delete=False) as fh:
                fh.write(text)
            try:
                out = pygen_pxpolicy.policy_source(fh.name)
            except pygen.Unsupported as e:
                rows.append((name, "refused by the translation", str(e)[:110]))
                print(rows[-1], flush=True)
                continue
            finally:
                os.unlink(fh.name)
            if out == committed:
                rows.append((name, "SURVIVES", "generated Lean unchanged"))
                print(rows[-1], flush=True)
                continue
            open(gen, "w").write(out)
            target = {"push": "I2N.Lemmas.PolicyGenPush", "pop": "I2N.Lemmas.PolicyGenPush",
                      "chain": "I2N.Lemmas.PolicyGenChain"}.get(which, "I2N.Lemmas.PolicyGen")
            r = subprocess.run(["lake", "build", target], cwd=lean_dir, capture_output=True, text=True)
            if r.returncode == 0:
                rows.append((name, "SURVIVES", f"{target} still builds"))
            else:
                errs = [l for l in (r.stdout + r.stderr).splitlines() if l.startswith("error:") and ".lean:" in l]
                rows.append((name, "equality proof fails to compile", (errs[0] if errs else "?")[:110]))
            print(rows[-1], flush=True)
    finally:
        open(gen, "w").write(committed)
    print()
    for r in rows:
        print("| " + " | ".join(r) + " |")
    return 1 if any(r[1] == "SURVIVES" for r in rows) else 0


if __name__ == "__main__":
    sys.exit(main(sys.argv[1:]))
