"""C20 — manual steps act once per selected vm and worker, in the given order (engine E6 `traverse`, tools part).

The REAL `Manu.run` (command line -> `cmd_parser.params_from_cmd` -> setup chain loop) and the REAL tools of
`avocado_i2n.intertest_setup` run on the shipped suite under a virtual clock (harness/toolslib.py); what they executed
is judged by the property sentence directly (spec oracle) and compared with the Lean model (`Driver/Tools.lean`).
"""
import itertools
import json
import multiprocessing
import os
import re
import time

import vlib
import toolslib
from toolslib import PER_VM, ONE_NODE

PROP = "C20"
ENGINE = "traverse"
TARGETS = ["I2N.Props.C20", "drv_tools"]
PROPS_FILE = "I2N/Props/C20.lean"
ANCHORS = {"avocado_i2n/intertest_setup.py": [
    "_parse_and_iterate_for_objects_and_workers", "_parse_one_node_for_all_objects_per_worker",
    "_reuse_tool_with_param_dict", "with_cartesian_graph", "check", "get", "set", "unset", "push", "pop", "boot",
    "shutdown", "download", "upload", "control", "collect", "create", "clean", "noop"],
    "avocado_i2n/plugins/manu.py": ["Manu.run"],
    "avocado_i2n/cartgraph/graph.py": ["TestGraph.flag_children", "TestGraph.parse_shared_root_from_object_roots"],
    "avocado_i2n/cartgraph/node.py": ["TestNode.pick_child", "TestNode.shared_finished_workers"]}
TRUSTED = ["the Cartesian parser is an oracle of the model: which nodes `parse_composite_nodes` returns for a worker "
           "and a vm selection is recorded by a spy and handed to the model (compatibility itself is judged "
           "independently from the nets.cfg table of the shipped suite)",
           "the overwrite dictionary handed to the parser ends up in `node.params` (checked on every executed node for "
           "the keys of the step)",
           "star traversal modelled directly (the shared traversal model has no hook for custom run policies); "
           "`is_occupied` is not modelled there: under the checked well-formedness (a node's name contains the id of "
           "exactly one selected worker) only the owner ever visits a node",
           "the compiled driver drv_tools (falls back to `lake env lean --run Driver/Tools.lean` when it is stale)",
           "translator tie (runChain_matches_source): harness/pygen.py on the `try` body and the `except` handler of the "
           "chain loop of Manu.run; harness/pygen_pxcmd.py cuts the loop out of Manu.run (everything in front of and "
           "behind the loop is pinned: `retcode = 0`, `return retcode`) and matches the loop body structurally "
           "(count; getattr outside the try; one `try … except Exception as error`); the skeleton genChainStep / "
           "genChainLoop / genManuChain printed in I2N/Extracted/GenManu.lean (what try/except and the `for` over "
           "`enumerate` mean; the step call is the only expression of the try body that may raise) and the atom "
           "`setup_func(config, \"0m%s\" % i) in [None, 0]` = not Outcome.fails are hand written"]


def extract(ctx):
    """second tie: the chain loop of Manu.run regenerated from the CURRENT source (raises pygen.Unsupported when the
    loop left the expected shape; run.py records that as a proof problem and searches for a failing input)"""
    import pygen_pxcmd
    if pygen_pxcmd.extract_manu(ctx):
        ctx.notes.append("I2N/Extracted/GenManu.lean changed: the source of the chain loop of Manu.run differs from the "
                         "one the committed file was generated from (runChain_matches_source is re-checked)")
    ctx.extra["regenerated"] = ("lean/I2N/Extracted/GenManu.lean (chain loop of Manu.run via harness/pygen_pxcmd.py + "
                                "harness/pygen.py)")

# -- independent knowledge about the shipped suite (configs/nets.cfg, guest-os.cfg, objects-overwrite.cfg) ---------
VARIANTS = {"vm1": ["CentOS", "Fedora"], "vm2": ["Win10", "Win7"], "vm3": ["Ubuntu", "Kali"]}
DEFAULT = {"vm1": "CentOS", "vm2": "Win10", "vm3": "Ubuntu"}
NETS = ["net1", "net2", "net3", "net4", "net5"]


def compat(vm, variant, net):
    """nets.cfg: net3 `only_vm1 = CentOS, Fedora; no_vm2 = WinXP, Win8`, net5 `only_vm1 = Fedora; no_vm2 = Win7`"""
    if net == "net5":
        if vm == "vm1":
            return variant == "Fedora"
        if vm == "vm2":
            return variant != "Win7"
    if net == "net3":
        if vm == "vm1":
            return variant in ("CentOS", "Fedora")
        if vm == "vm2":
            return variant not in ("WinXP", "Win8")
    return True


def selected_variants(case, vm):
    r = case["vms"][vm]
    if r is None:
        return [DEFAULT[vm]]
    if r == "":
        return list(VARIANTS[vm])
    return r.split(",")


# what each step must apply (from the documentation of the tools; independent of the Lean table)
def state_dict(op):
    return {"vm_action": op, "skip_image_processing": "yes"}


STEP_PARAMS = {
    "check": state_dict("check"), "pop": state_dict("pop"), "push": state_dict("push"), "get": state_dict("get"),
    "set": state_dict("set"), "unset": state_dict("unset"),
    "collect": dict(state_dict("get"), get_state_images="root", get_mode_images="ii", check_mode_images="rr",
                    pool_scope="swarm cluster shared"),
    "create": dict(state_dict("set"), set_state_images="root", set_mode_images="af", check_mode_images="rr",
                   pool_scope="own"),
    "clean": dict(state_dict("unset"), unset_state_images="root", unset_mode_images="fa", check_mode_images="rf",
                  pool_scope="own"),
    "boot": {"vm_action": "boot"}, "download": {"vm_action": "download"}, "upload": {"vm_action": "upload"},
    "shutdown": {"vm_action": "shutdown"}, "control": {"vm_action": "run"},
}
VARIANT_OF = {"check": "internal.stateful.check", "pop": "internal.stateful.pop", "push": "internal.stateful.push",
              "get": "internal.stateful.get", "set": "internal.stateful.set", "unset": "internal.stateful.unset",
              "collect": "internal.stateful.get", "create": "internal.stateful.set", "clean": "internal.stateful.unset",
              "boot": "internal.stateless.manage.start", "download": "internal.stateless.manage.download",
              "upload": "internal.stateless.manage.upload", "shutdown": "internal.stateless.manage.stop",
              "control": "internal.stateless.manage.run"}
PROBES = ["pool_scope", "check_mode_images", "get_state_images", "get_mode_images", "set_state_images",
          "set_mode_images", "unset_state_images", "unset_mode_images", "nets"]
KEEP = re.compile(r"^(vm_action|skip_image_processing|vms|main_vm|object_suffix|pool_scope|nets|"
                  r"(get|set|unset|check)_(state|mode)(_.*)?|unset_mode.*|c20_.*|setup|max_tries|stop_status)$")


def cmdline(case):
    cl = ["setup=" + ",".join(case["chain"]), "vms=" + ",".join(sorted(case["vms"])), "nets=" + " ".join(case["nets"])]
    for vm, r in sorted(case["vms"].items()):
        if r is not None:
            cl.append(f"only_{vm}={r}")
    for k, v in sorted(case.get("extra", {}).items()):
        cl.append(f"{k}={v}")
    return cl


# -- running one case on the real code (in a worker process) -------------------------------------------------------

def observe(case, module=None, manu_cls=None):
    """returns a JSON-able observation of the real run"""
    t0 = time.time()
    rec = toolslib.Recorder(sched=case.get("sched"), fail=case.get("fail"), module=module)
    if case.get("via", "manu") == "manu":
        kind, val = rec.call_manu(case.get("cmdline") or cmdline(case), manu_cls=manu_cls)
    else:
        vm_strs = {vm: "".join(f"only {r}\n" for r in ([DEFAULT[vm]] if r is None else [r] if r else []))
                   for vm, r in case["vms"].items()}
        config = rec.base_config(vm_strs, " ".join(case["nets"]), extra=case.get("extra"))
        kind, val = rec.call_tool(case["chain"][0], config, case.get("tag", "0m0"))
    evs = []
    by_step = {}
    for e in rec.events:
        if e["k"] == "parse":
            by_step.setdefault(e["step"], []).extend(e["prefixes"])
    ranks = {i: toolslib.rank_prefixes(p) for i, p in by_step.items()}
    for e in rec.events:
        e = dict(e)
        if e["k"] == "parse":
            e["ranks"] = [ranks[e["step"]][p] for p in e["prefixes"]]
        if "params" in e:
            e["params"] = {k: v for k, v in e["params"].items() if isinstance(v, str) and KEEP.match(k)}
        for k in ("pd", "pd_after", "vm_strs"):
            if k in e:
                e[k] = {a: b for a, b in e[k].items() if isinstance(b, str)}
        evs.append(e)
    return {"result": [kind, val], "events": evs, "wall": round(time.time() - t0, 2)}


def _observe_job(args):
    root, case = args
    os.environ["I2N_TOOLS_SCRATCH_ROOT"] = root
    import logging
    logging.disable(logging.CRITICAL)
    try:
        return observe(case)
    except Exception as e:  # harness crash: reported by the parent as exit 2
        import traceback
        return {"crash": traceback.format_exc()[-1500:]}


def observe_all(ctx, cases, procs=8):
    if len(cases) == 1:
        import logging
        logging.disable(logging.CRITICAL)
        return [observe(cases[0])]
    root = ctx.mkscratch()
    mp = multiprocessing.get_context("fork")
    with mp.Pool(min(procs, len(cases)), maxtasksperchild=8) as pool:
        obs = pool.map(_observe_job, [(root, c) for c in cases], chunksize=1)
    for o in obs:
        if "crash" in o:
            raise RuntimeError("harness crash in a worker process: " + o["crash"])
    return obs


# -- spec oracle: the property sentence on the implementation's own observations -----------------------------------

def steps_of(obs):
    """per outer step: the spy's entry/exit and the test events"""
    steps = {}
    for e in obs["events"]:
        i = e.get("step", -1)
        if i < 0:
            continue
        st = steps.setdefault(i, {"tool": None, "tag": None, "ret": None, "exc": None, "ended": False, "starts": [],
                                  "ends": [], "parses": [], "pd": None, "doors": [], "vm_strs": None})
        if e["k"] == "tool" and e["outer"]:
            st.update(tool=e["tool"], tag=e["tag"], pd=e["pd"], vm_strs=e["vm_strs"])
        elif e["k"] == "tool-end" and e["outer"]:
            st.update(ret=e["ret"], exc=e["exc"], ended=True, pd_after=e["pd_after"])
        elif e["k"] == "start":
            st["starts"].append(e)
        elif e["k"] == "end":
            st["ends"].append(e)
        elif e["k"] == "parse":
            st["parses"].append(e)
        elif e["k"] == "door":
            st["doors"].append(e)
    return [steps[i] for i in sorted(steps)]


def variant_in(name, vm, variants):
    """which of the vm's variants the node name mentions in the vm's part of the name"""
    m = re.search(r"(?:^|\.)" + vm + r"\.(.*?)(?:\.vm\d\.|$)", name)
    part = m.group(1) if m else name
    hits = [v for v in variants if re.search(r"(?:^|\.)" + re.escape(v) + r"(?:\.|$)", part)]
    return hits[0] if len(hits) == 1 else None


def judge(ctx, case, obs):
    """ctx.violate for every way the observed run breaks the property sentence"""
    def bad(key, what):
        ctx.violate(key, what, {"kind": "c20", "case": case})
    chain = case["chain"]
    known = [s for s in chain if s in toolslib.TOOLS]
    if len(known) != len(chain) or case.get("cmdline"):
        return  # unknown step names / unparsable command lines are outside the property's quantifier (model only)
    kind, val = obs["result"]
    if kind == "overflow":
        bad("step-livelock", "the chain did not terminate (event overflow): a step keeps re-running its tests")
        return
    steps = steps_of(obs)
    sel_vms = sorted(case["vms"])
    # order of the chain, every step runs (also after a failing one)
    called = [(s["tool"], s["tag"]) for s in steps]
    want = [(t, f"0m{i}") for i, t in enumerate(chain)] if case.get("via", "manu") == "manu" else \
        [(chain[0], case.get("tag", "0m0"))]
    dedup = [t for i, t in enumerate(chain) if t not in chain[:i]]
    if called != want and len(dedup) < len(chain) and called == [(t, f"0m{i}") for i, t in enumerate(dedup)]:
        bad("chain-repeated-step-dropped", f"chain {chain}: steps called {called} - a step that occurs twice in the "
            f"chain is executed only once")
        chain = dedup
    elif called != want:
        if called == want[:len(called)]:
            bad("chain-step-skipped", f"steps called {called}, chain is {want}: later steps were prevented")
        else:
            bad("chain-order", f"steps called {called}, chain is {want}")
    for i, st in enumerate(steps):
        if st["pd"] != steps[0]["pd"]:
            diff = {k: (steps[0]["pd"].get(k), st["pd"].get(k)) for k in set(st["pd"]) | set(steps[0]["pd"])
                    if steps[0]["pd"].get(k) != st["pd"].get(k)}
            bad("step-params-leak", f"step {i} ({st['tool']}) starts with a command line dictionary that differs from "
                f"the one the chain started with: {diff} - an earlier reusing step (collect/create/clean) raised and "
                f"its temporary parameters were not taken back")
            break
    idx = [e.get("step", -1) for e in obs["events"] if e["k"] in ("start", "end")]
    if idx != sorted(idx):
        bad("chain-steps-overlap", "tests of a later step ran before an earlier step finished")
    failing = []
    for i, st in enumerate(steps):
        tool = st["tool"]
        ctx.count(f"tool.{tool}")
        statuses_bad = [e for e in st["ends"] if e["status"] in ("FAIL", "ERROR")]
        step_failed = bool(st["exc"]) or bool(statuses_bad)
        failing.append(step_failed)
        if st["exc"]:
            ctx.count(f"step.raised.{st['exc']}")
        if tool == "noop" or tool not in STEP_PARAMS:
            continue
        if not st["exc"] and (st["ret"] not in (None, 0)) != bool(statuses_bad):
            if tool in ("collect", "create", "clean") and st["ret"] is None:
                bad("reuse-step-failure-not-reported", f"step {tool}: {len(statuses_bad)} tests ended FAIL/ERROR but the "
                    f"step returned None (_reuse_tool_with_param_dict drops the reused tool's return value), so the "
                    f"chain does not report the failure")
            else:
                bad("step-retcode", f"step {tool} returned {st['ret']} but bad test results = {len(statuses_bad)}")
        sabotaged = case.get("fail") and case["fail"]["pos"] == i and case["fail"]["kind"] in ("start", "test-raise")
        # expected executions: independent compatibility table
        if tool in PER_VM:
            expected = [(w, vm, var) for w in case["nets"] for vm in sel_vms for var in selected_variants(case, vm)
                        if compat(vm, var, w)]
        else:
            combos = {w: [c for c in itertools.product(*[selected_variants(case, vm) for vm in sel_vms])
                          if all(compat(vm, var, w) for vm, var in zip(sel_vms, c))] for w in case["nets"]}
            if any(len(c) > 1 for c in combos.values()):
                # documented: multi-vm tools cannot be used on several variants of a vm at once
                if st["exc"] != "RuntimeError" and not sabotaged:
                    bad("one-node-ambiguous-accepted", f"{tool} with several variants per worker did not raise")
                if st["starts"]:
                    bad("one-node-ambiguous-ran", f"{tool} raised for ambiguous variants but ran {len(st['starts'])} tests")
                continue
            expected = [(w, " ".join(sel_vms), "+".join(c[0])) for w, c in combos.items() if len(c) == 1]
        if sabotaged:
            # an environment that does not start / a runner that raises: nothing more may be demanded than
            # "no unselected vm, no foreign worker"
            expected = None
        got = []
        for e in st["starts"]:
            vms = (e["vms"] or "").split()
            for vm in vms:
                if vm not in sel_vms:
                    bad("unselected-vm-executed", f"{tool}: test {e['shortname']} uses {vm}, selected {sel_vms}")
            if e["worker"] != e["nets"] or e["nets"] not in case["nets"]:
                bad("foreign-worker", f"{tool}: test of {e['nets']} executed by {e['worker']}, selected {case['nets']}")
            if VARIANT_OF[tool] not in e["name"]:
                bad("wrong-test", f"{tool}: executed {e['shortname']}")
            if tool in PER_VM:
                var = variant_in(e["name"], vms[0], VARIANTS[vms[0]]) if len(vms) == 1 and vms[0] in VARIANTS else None
                got.append((e["nets"], e["vms"], var))
            else:
                var = "+".join(str(variant_in(e["name"], vm, VARIANTS[vm])) for vm in vms if vm in VARIANTS)
                got.append((e["nets"], e["vms"], var))
            # the step's parameters
            want_p = dict(STEP_PARAMS[tool])
            want_p.update(case.get("extra", {}))
            if tool in PER_VM:
                want_p["vms"] = vms[0] if vms else None
            else:
                want_p.update(vms=" ".join(sel_vms), main_vm=sel_vms[0])
            for k, v in want_p.items():
                if e["params"].get(k) != v:
                    bad("params-not-applied", f"{tool}: {e['shortname']} has {k}={e['params'].get(k)!r}, the step says {v!r}")
            if tool == "unset" and len(vms) == 1:
                # the removal policy of the manual unset step: the user's vm-specific unset_mode_<vm>, else the user's general
                # unset_mode, else the step's own default `fi` (the suite-wide default `ri` would make the step a no-op) -
                # for EVERY selected vm, whatever was decided for the vms before it
                extra_p = case.get("extra", {})
                want_mode = extra_p.get(f"unset_mode_{vms[0]}", extra_p.get("unset_mode", "fi"))
                eff = e["params"].get(f"unset_mode_{vms[0]}", e["params"].get("unset_mode"))
                ctx.count("oracle.unset-policy." + ("user-vm" if f"unset_mode_{vms[0]}" in extra_p else
                                                     "user-general" if "unset_mode" in extra_p else "step-default"))
                if eff != want_mode:
                    bad("unset-policy-of-the-step-lost", f"unset: {e['shortname']} runs with unset mode {eff!r} for {vms[0]}, "
                        f"the step says {want_mode!r} (command line: {extra_p})")
        if expected is not None:
            if sorted(got) != sorted(expected):
                miss = sorted(set(expected) - set(got))
                extra = sorted(set(got) - set(expected))
                dup = sorted({g for g in got if got.count(g) > 1})
                key = "executed-twice" if dup else "not-executed" if miss else "unexpected-execution"
                bad(key, f"{tool}: executions {sorted(got)} but selected vms x compatible workers = {sorted(expected)} "
                         f"(missing {miss}, extra {extra}, repeated {dup})")
        elif len(set(map(tuple, got))) != len(got):
            bad("executed-twice", f"{tool}: repeated executions {got}")
    # return code of the chain
    if kind == "ret":
        reported = [bool(st["exc"]) or st["ret"] not in (None, 0) for st in steps]
        if case.get("via", "manu") == "manu" and (val == 1) != any(failing) and (val == 1) != any(reported):
            # (a difference explained by a step that hid its failure is reported at that step)
            bad("chain-retcode", f"Manu.run returned {val}, failing steps: {failing}")
        if case.get("via", "manu") == "manu" and val not in (0, 1):
            bad("chain-retcode", f"Manu.run returned {val}")
    elif kind == "exc" and case.get("via", "manu") == "manu":
        bad("chain-raised", f"Manu.run raised {val} for a chain of built-in steps")


# -- model comparison ----------------------------------------------------------------------------------------------

def model_lines(case, obs):
    """operation lines for Driver/Tools.lean and the answers the real run corresponds to"""
    lines, expect = [], []
    steps = steps_of(obs)
    kind, val = obs["result"]
    if case.get("via", "manu") == "manu":
        if case.get("cmdline") and not steps and kind == "ret":
            lines.append("manu0\t" + ",".join(case["chain"]))
            expect.append(("manu0", f"ret={val}\texec=\tfails="))
        else:
            beh = ""
            for st in steps:
                beh += "r" if st["exc"] else "f" if any(e["status"] in ("FAIL", "ERROR") for e in st["ends"]) else "o"
            lines.append("reset")
            expect.append(("reset", "ok"))
            for k, v in (steps[0]["pd"] if steps else {}).items():
                lines.append(f"pd\t{k}\t{v}")
                expect.append(("pd", "ok"))
            lines.append("chain\t" + ",".join(toolslib.TOOLS) + "\t" + ",".join(case["chain"]) + "\t" + (beh or "o") +
                         "\t" + ",".join(PROBES))
            ret = str(val) if kind == "ret" else val
            execs = ",".join(f"{st['tool']}:{st['tag'][2:]}" for st in steps)
            fails = "".join("1" if (st["exc"] or st["ret"] not in (None, 0)) else "0" for st in steps)
            envs = "|".join(",".join(f"{k}={st['pd'].get(k, '<unset>')}" for k in PROBES) for st in steps)
            expect.append(("chain", f"ret={ret}\texec={execs}\tfails={fails}\tenv={envs}"))
    for i, st in enumerate(steps):
        tool = st["tool"]
        if tool not in PER_VM + ONE_NODE or kind == "overflow":
            continue
        nets = (st["pd"].get("nets") or "").split()
        vms = sorted(st["vm_strs"])
        lines.append("reset")
        expect.append(("reset", "ok"))
        for w in nets:
            lines.append(f"worker\t{w}")
            expect.append(("worker", "ok"))
        nobj = {}
        for e in obs["events"]:
            if e["k"] == "objects" and e.get("step") == i and e["type"] == "vms" and e["name"] in vms:
                nobj.setdefault(e["name"], e["n"])   # the tool's own call comes first
        for vm in vms:
            lines.append(f"vm\t{vm}\t{nobj.get(vm, 1)}")
            expect.append(("vm", "ok"))
        for k, v in st["pd"].items():
            lines.append(f"pd\t{k}\t{v}")
            expect.append(("pd", "ok"))
        for p in st["parses"]:
            lines.append("\t".join(["parse", str(nets.index(p["net"])), p["params"].get("vms", "")] +
                                   [str(x) for nk in zip(p["names"], p["keys"], p["ranks"]) for x in nk]))
            expect.append(("parse", "ok"))
        sabotaged = case.get("fail") and case["fail"]["pos"] == i and case["fail"]["kind"] in ("start", "test-raise")
        all_ok = not any(e["status"] in ("FAIL", "ERROR") for e in st["ends"])
        lines.append(f"outcome\t{tool}\t{1 if st['exc'] else 0}\t{1 if all_ok else 0}")
        expect.append(("outcome", "R" if st["exc"] else "N" if st["ret"] is None else str(int(st["ret"]))))
        keys = sorted(set(STEP_PARAMS[tool]) | set(case.get("extra", {})) | {"vms"} |
                      ({"object_suffix"} if tool in PER_VM else {"main_vm"}) |
                      ({f"unset_mode_{vm}" for vm in vms} | {"unset_mode"} if tool in ("unset", "clean") else set()))
        if tool in ONE_NODE:
            keys.remove("vm_action")     # comes from the suite's configuration, not from the step
        if st["exc"] and not sabotaged:
            lines.append(f"nodes\t{tool}")
            expect.append(("nodes", f"err {st['exc']}"))
            continue
        # graph construction: the nodes the parser returned, in creation order
        lines.append(f"nodes\t{tool}")
        expect.append(("nodes", "\t".join(["ok"] + [f"{p['net']}|{n}|{p['params'].get('vms', '')}"
                                                      for p in st["parses"] for n in p["names"]])))
        if sabotaged:
            continue
        sched = []
        for e in obs["events"]:
            if e.get("step") == i and e["k"] in ("start", "end"):
                sched.append(nets.index(e["worker"]))
        sched += [w for w in range(len(nets))] * 2
        lines.append(f"tool\t{tool}\tstar\t{','.join(keys)}\t{' '.join(map(str, sched))}")
        real = ["done=true"]
        for e in st["starts"]:
            kv = ";".join(f"{k}={e['params'].get(k, '<unset>')}" for k in keys)
            real.append(f"{e['worker']}|{e['name']}|{e['vms']}|{kv}")
        expect.append(("tool", "\t".join(real)))
        expect[-1] = ("tool", expect[-1][1], keys)
    return lines, expect


def wf_names(ctx, case, obs):
    """well-formedness the theorems assume: a node name contains the id of exactly one selected worker (its own)"""
    for st in steps_of(obs):
        nets = (st["pd"] or {}).get("nets", "").split()
        for p in st["parses"]:
            for n in p["names"]:
                inn = [w for w in nets if w in n]
                if inn != [p["net"]]:
                    ctx.notes.append(f"node name {n} contains worker ids {inn}, parsed for {p['net']}")
                    ctx.count("wf.violated")
                else:
                    ctx.count("wf.ok")


def compare(ctx, cases, observations):
    lines, expect, owner = [], [], []
    for ci, (case, obs) in enumerate(zip(cases, observations)):
        l, e = model_lines(case, obs)
        lines += l
        expect += e
        owner += [ci] * len(l)
    if not lines:
        return
    out = toolslib.run_driver(lines)
    seen = set()
    for ci, exp, got, line in zip(owner, expect, out, lines):
        op, want = exp[0], exp[1]
        if op == "tool":
            # keys the step's dictionary does not mention: the model makes no claim (the suite's configuration decides)
            for k in exp[2]:
                if f"{k}=<unset>" in got:
                    want = re.sub(r"(^|[;|])" + re.escape(k) + r"=[^;\t]*", lambda m: m.group(1) + k + "=<unset>", want)
        if want != got and ci not in seen:
            seen.add(ci)
            ctx.disagree(f"tools:{op}", {"kind": "c20", "case": cases[ci], "line": line[:300]}, got[:1500], want[:1500])


# -- generators ----------------------------------------------------------------------------------------------------

def gen_selection(rng, max_vms=3, max_nets=3, allow_multi=True):
    nv = rng.choice([1, 1, 2, 2, 3][:2 + max_vms])
    vms = {}
    for vm in sorted(rng.sample(["vm1", "vm2", "vm3"], min(nv, max_vms))):
        r = rng.random()
        if r < 0.45:
            vms[vm] = None
        elif r < 0.85 or not allow_multi:
            vms[vm] = rng.choice(VARIANTS[vm])
        else:
            vms[vm] = ""
    nn = rng.choice([1, 2, 2, 3][:1 + max_nets])
    nets = rng.sample(NETS, nn)
    if rng.random() < 0.5:
        nets.sort()
    return vms, nets


def gen_sched(rng, nets):
    return {w: [[rng.choice([1, 1, 2, 3, 5, 8]), "PASS"] for _ in range(rng.randint(1, 4))] for w in nets}


def gen_extra(rng):
    extra = {}
    if rng.random() < 0.6:
        extra["c20_marker"] = rng.choice(["x17", "a b c", "yes", "0"])
    if rng.random() < 0.3:
        # a retry budget on the command line (as people pass it for run/update steps): a manual step still acts once
        extra["max_tries"] = rng.choice(["2", "3"])
        if rng.random() < 0.4:
            extra["stop_status"] = "fail"
    return extra


def gen_single(rng, tool, small=False):
    vms, nets = gen_selection(rng, max_vms=2 if small else 3, max_nets=2 if small else 3, allow_multi=tool in PER_VM or rng.random() < 0.3)
    return {"chain": [tool], "vms": vms, "nets": nets, "extra": gen_extra(rng), "sched": gen_sched(rng, nets),
            "fail": None, "via": "manu" if rng.random() < 0.7 else "direct", "tag": rng.choice(["0m0", "5m", "1r"])}


def gen_chain(rng, length, fail_pos, fail_kind):
    tools = [rng.choice(PER_VM + ONE_NODE + ["noop"]) for _ in range(length)]   # steps may repeat
    vms, nets = gen_selection(rng, max_vms=2, max_nets=2, allow_multi=False)
    case = {"chain": tools, "vms": vms, "nets": nets, "extra": gen_extra(rng), "sched": gen_sched(rng, nets),
            "fail": None, "via": "manu"}
    if fail_pos is not None:
        if tools[fail_pos] == "noop":
            tools[fail_pos] = rng.choice(PER_VM + ONE_NODE)
        if fail_kind == "ambiguous":
            # a real exception of the real tool: a multi-vm step on a vm with several variants
            # every multi-vm step of the chain raises then; keep exactly one, at the failing position
            for j, t in enumerate(tools):
                if t in ONE_NODE and j != fail_pos:
                    tools[j] = rng.choice(PER_VM)
            if tools[fail_pos] not in ONE_NODE:
                tools[fail_pos] = rng.choice(ONE_NODE)
            vm = rng.choice(sorted(vms))
            vms[vm] = ""
            case["nets"] = nets = [n for n in nets if n != "net5"] or ["net1"]
            case["sched"] = gen_sched(rng, nets)
        else:
            case["fail"] = {"kind": fail_kind, "pos": fail_pos, "status": rng.choice(["FAIL", "ERROR"])}
    return case


def gen_cases(rng, thorough):
    cases = []
    # every built-in step on its own
    reps = 4 if thorough else 1
    for tool in PER_VM + ONE_NODE:
        for _ in range(reps):
            cases.append(gen_single(rng, tool, small=not thorough))
    # chains with a failing step at every position, of every failure kind
    kinds = ["status", "test-raise", "start", "ambiguous"]
    combos = [(n, p, k) for n in (2, 3, 4) for p in range(n) for k in kinds]
    rng.shuffle(combos)
    picked = combos if thorough else combos[:7]
    if not thorough:
        # make sure first / middle / last positions and all kinds occur in the quick tier
        picked = [(2, 0, "status"), (3, 1, "test-raise"), (3, 2, "start"), (2, 1, "ambiguous"), (4, 0, "start"),
                  (3, 0, "test-raise"), (4, 3, "status"), (2, 1, "start"), (3, 1, "status"), (4, 2, "test-raise"),
                  (3, 0, "ambiguous"), (2, 0, "test-raise"), (4, 1, "status"), (3, 2, "ambiguous")]
    for n, p, k in picked:
        for _ in range(3 if thorough else 1):
            cases.append(gen_chain(rng, n, p, k))
    for n in ((2, 3, 4, 2, 3, 4) * 4 if thorough else (2, 3, 4, 2)):
        cases.append(gen_chain(rng, n, None, None))
    # outside the quantifier (model comparison only): unknown step, command line that does not parse
    cases.append({"chain": ["check", "nosuchstep", "boot"], "vms": {"vm1": None}, "nets": ["net1"], "via": "manu"})
    cases.append({"chain": ["check"], "vms": {"vm1": None}, "nets": ["net1"], "via": "manu",
                  "cmdline": ["setup=check", "vms=vm9", "nets=net1"]})
    cases.append({"chain": ["noop", "check"], "vms": {"vm1": None}, "nets": ["net1"], "via": "manu"})
    # regressions of the repaired defects 5f9a82c / 79572ad: a reusing step whose tests fail; a reusing step that raises
    cases.append({"chain": ["create", "check"], "vms": {"vm1": None}, "nets": ["net1"], "via": "manu",
                  "fail": {"kind": "status", "pos": 0, "status": "FAIL"}})
    cases.append({"chain": ["clean", "unset"], "vms": {"vm1": None}, "nets": ["net1"], "via": "manu",
                  "fail": {"kind": "start", "pos": 0}})
    # the unset step decides its default removal policy per vm: an earlier vm with several variants, or with a policy of its
    # own given by the user, must not change what the later vms get
    cases.append({"chain": ["unset"], "vms": {"vm1": "", "vm3": VARIANTS["vm3"][0]}, "nets": rng.sample(["net1", "net2"], rng.choice([1, 2])),
                  "extra": {}, "sched": None, "fail": None, "via": "manu"})
    cases.append({"chain": ["unset"], "vms": {"vm2": VARIANTS["vm2"][0], "vm3": VARIANTS["vm3"][0]}, "nets": ["net1"],
                  "extra": {"unset_mode_vm2": "ri"}, "sched": None, "fail": None, "via": rng.choice(["manu", "direct"])})
    cases.append({"chain": ["unset"], "vms": {"vm1": VARIANTS["vm1"][0], "vm2": VARIANTS["vm2"][0]}, "nets": ["net2"],
                  "extra": {"unset_mode": "ri"}, "sched": None, "fail": None, "via": "manu"})
    cases.append({"chain": ["get", "set"], "vms": {"vm1": VARIANTS["vm1"][0], "vm2": VARIANTS["vm2"][0]}, "nets": ["net1", "net2"],
                  "extra": {"max_tries": "2"}, "sched": None, "fail": None, "via": "manu"})
    # regression of 3361dd0: chains that repeat a step (README: "adding multiple run steps throughout the setup chain")
    cases.append({"chain": ["noop", "noop"], "vms": {"vm1": None}, "nets": ["net1"], "via": "manu"})
    if thorough:
        cases.append({"chain": ["check", "boot", "check"], "vms": {"vm1": None}, "nets": ["net1"], "via": "manu"})
        cases.append({"chain": ["get", "get", "shutdown"], "vms": {"vm2": None}, "nets": ["net2", "net1"], "via": "manu"})
    return cases


# -- entry points of the check -------------------------------------------------------------------------------------

def run_cases(ctx, cases, procs=8, model=True):
    observations = observe_all(ctx, cases, procs=procs)
    for case, obs in zip(cases, observations):
        n_tests = sum(1 for e in obs["events"] if e["k"] == "start")
        ctx.case({"chain": case["chain"], "vms": case["vms"], "nets": case["nets"], "fail": case.get("fail"),
                  "via": case.get("via", "manu"), "tests": n_tests, "result": obs["result"]}, nontrivial=n_tests > 0)
        ctx.count(f"chain.len={len(case['chain'])}")
        ctx.count(f"workers={len(case['nets'])}")
        ctx.count(f"vms={len(case['vms'])}")
        ctx.count(f"result.{obs['result'][0]}.{obs['result'][1]}")
        if case.get("fail"):
            ctx.count(f"fail.{case['fail']['kind']}@{case['fail']['pos']}/{len(case['chain'])}")
        judge(ctx, case, obs)
        wf_names(ctx, case, obs)
    if model:
        compare(ctx, cases, observations)
    ctx.extra["wall_real_code_s"] = round(sum(o["wall"] for o in observations), 1)
    return observations


def correspondence(ctx):
    thorough = ctx.tier == "thorough" or ctx.extra.get("drift")
    ctx.rule = ("one case = a setup chain of built-in steps (1-4 steps, optionally with a failing step: bad test status, "
                "raising runner, environment that does not start, or a genuinely ambiguous multi-vm step), a vm selection "
                "with variant restrictions, 1-3 workers of net1..net5 (net3, net5 restricted) and a per-worker schedule of "
                "test durations; run through the real Manu.run (or the tool directly) on the shipped suite; "
                "non-trivial = at least one test executed; distinct by content hash")
    corpus = os.path.join(vlib.VERIF, "corpus", "C20")
    cases = []
    if os.path.isdir(corpus):
        for f in sorted(os.listdir(corpus)):
            cases.append(json.load(open(os.path.join(corpus, f))))
    cases += gen_cases(ctx.rng, thorough)
    try:
        run_cases(ctx, cases, procs=12 if thorough else 8)
    finally:
        toolslib.cleanup()


def search(ctx, reason):
    """proof or correspondence broke: a bigger sample judged by the spec oracle only"""
    cases = gen_cases(ctx.rng, True)
    try:
        run_cases(ctx, cases, procs=12, model=False)
    finally:
        toolslib.cleanup()


def replay(ctx, payload):
    c = payload["case"]
    case = c.get("case", c)
    try:
        run_cases(ctx, [case], procs=1)
    finally:
        toolslib.cleanup()
