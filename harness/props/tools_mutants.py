"""Mutation sanity for C15 and C20 (development tool, not part of ./check):

    /venv/bin/python harness/props/tools_mutants.py [c20|c15] [name ...]

For every mutant: copy ONE module of /repo (`avocado_i2n/intertest_setup.py` or `avocado_i2n/plugins/manu.py`) to a
scratch dir, apply ONE textual edit there, load the copy as a module of its package (so that relative imports work) and
run the C15 / C20 harness (spec oracle + model comparison) against the mutated module.  /repo is not touched.
"""
import importlib.util
import os
import shutil
import sys
import tempfile

sys.path.insert(0, os.path.dirname(os.path.dirname(os.path.abspath(__file__))))
import warnings  # noqa: E402
warnings.filterwarnings("ignore")
import logging  # noqa: E402
logging.disable(logging.CRITICAL)
import vlib  # noqa: E402
import toolslib  # noqa: E402
from props import c15, c20  # noqa: E402

STAR_FLAG = ('        flag=lambda self, slot: not self.is_shared_root()\n'
             '        and slot not in self.shared_finished_workers,\n    )\n    r.run_workers(graph, config["param_dict"])\n'
             '    LOG_UI.info("Finished %s", operation)')

C20_MUTANTS = {
    # Manu.run
    "M1-break-after-failing-step": ("manu", "                    retcode = 1\n            except Exception as error:",
                                    "                    retcode = 1\n                    break\n            except Exception as error:"),
    "M2-break-after-raising-step": ("manu", '                LOG_UI.error("Use \'export AVOCADO_LOG_EARLY=1\' for further details.")\n                retcode = 1\n',
                                    '                LOG_UI.error("Use \'export AVOCADO_LOG_EARLY=1\' for further details.")\n                retcode = 1\n                break\n'),
    "M3-exception-not-counted": ("manu", '                LOG_UI.error("Use \'export AVOCADO_LOG_EARLY=1\' for further details.")\n                retcode = 1\n',
                                 '                LOG_UI.error("Use \'export AVOCADO_LOG_EARLY=1\' for further details.")\n'),
    "M4-retcode-reset-by-later-step": ("manu", "                if setup_func(config, \"0m%s\" % i) not in [None, 0]:\n                    # return 1 if at least one of the steps fails\n                    retcode = 1\n",
                                       "                retcode = 0 if setup_func(config, \"0m%s\" % i) in [None, 0] else 1\n"),
    "M5-reversed-chain": ("manu", "for i, setup_step in enumerate(setup_chain):", "for i, setup_step in enumerate(reversed(setup_chain)):"),
    # _parse_and_iterate_for_objects_and_workers
    "M6-run-flag-without-finished-check": ("its", STAR_FLAG, STAR_FLAG.replace(
        "not self.is_shared_root()\n        and slot not in self.shared_finished_workers,", "not self.is_shared_root(),")),
    "M7-first-worker-skipped": ("its", '    for test_worker in graph.workers.values():\n        test_worker.net.update_restrs(config["vm_strs"])\n        for test_object in',
                                '    for test_worker in list(graph.workers.values())[1:]:\n        test_worker.net.update_restrs(config["vm_strs"])\n        for test_object in'),
    "M8-always-first-vm": ("its", '            setup_dict["vms"] = test_object.suffix\n', '            setup_dict["vms"] = selected_vms[0]\n'),
    "M9-step-dict-not-applied": ("its", "            setup_dict = config[\"param_dict\"].copy()\n            setup_dict.update(param_dict)\n            setup_dict[\"vms\"]",
                                 "            setup_dict = config[\"param_dict\"].copy()\n            setup_dict[\"vms\"]"),
    "M10-unselected-vm-added": ("its", '    selected_vms = sorted(config["vm_strs"].keys())\n    LOG_UI.info(\n        "Starting %s for %s',
                                '    selected_vms = sorted(config["available_vms"].keys())\n    LOG_UI.info(\n        "Starting %s for %s'),
    # _parse_one_node_for_all_objects_per_worker
    "M11-main-vm-last": ("its", 'setup_dict.update({"vms": vms, "main_vm": selected_vms[0]})', 'setup_dict.update({"vms": vms, "main_vm": selected_vms[-1]})'),
    "M12-ambiguous-variant-tolerated": ("its", "        elif len(nodes) > 1:\n            raise RuntimeError(", "        elif len(nodes) > 2:\n            raise RuntimeError("),
}

# the three repaired defects of /repo, reverted (a list of edits = one revert)
C20_MUTANTS.update({
    "R1-revert-3361dd0-repeated-steps-dropped": ("manu", 'setup_chain = run_params.get("setup", "").split()',
                                                 'setup_chain = run_params.objects("setup")'),
    "R2-revert-5f9a82c-reuse-status-dropped": ("its", [
        ("    return _reuse_tool_with_param_dict(\n        config,\n        tag,\n        {\n            \"get_state_images\"",
         "    _reuse_tool_with_param_dict(\n        config,\n        tag,\n        {\n            \"get_state_images\""),
        ("    return _reuse_tool_with_param_dict(\n        config,\n        tag,\n        {\n            \"set_state_images\"",
         "    _reuse_tool_with_param_dict(\n        config,\n        tag,\n        {\n            \"set_state_images\""),
        ("    return _reuse_tool_with_param_dict(\n        config,\n        tag,\n        {\n            \"unset_state_images\"",
         "    _reuse_tool_with_param_dict(\n        config,\n        tag,\n        {\n            \"unset_state_images\"")], None),
    "R3-revert-79572ad-params-leak": ("its", "    try:\n        return tool(config, tag=tag)\n    finally:\n        config[\"param_dict\"] = setup_dict",
                                      "    ret = tool(config, tag=tag)\n    config[\"param_dict\"] = setup_dict\n    return ret"),
})

C15_MUTANTS = {
    "U1-from-state-not-rerun": ("its", "                            skip_children=True,\n                        )", "                            skip_children=True,\n                        ) if False else None"),
    "U2-clean-flags-wrong-vm": ("its", "                        flag_state,\n                        vm_name,\n", "                        flag_state,\n                        selected_vms[0],\n"),
    "U3-target-cleaned-too": ("its", "                        flag=lambda self, slot: len(self.cloned_nodes) == 0,\n                        skip_parents=True,",
                              "                        flag=lambda self, slot: len(self.cloned_nodes) == 0,\n                        skip_parents=False,"),
    "U4-first-worker-skipped": ("its", "        for worker in graph.workers.values():\n            setup_dict = config[\"param_dict\"].copy()\n            # in case of permanent",
                                "        for worker in list(graph.workers.values())[1:]:\n            setup_dict = config[\"param_dict\"].copy()\n            # in case of permanent"),
    "U5-skip-graph-not-applied": ("its", "                clean_graph.flag_intersection(\n                    skip_graph, flag_type=\"run\", flag=lambda self, slot: False\n                )",
                                  "                pass"),
    "U6-run-graph-one-state-short": ("its", '                    restriction=param.re_str("all.." + to_state),', '                    restriction=param.re_str("all.." + from_state),'),
    "U7-clean-children-only-one-level": None,   # in graph.py: reasoned in design.d/C15.md (flag_children is also fingerprinted)
    "U8-unknown-state-tolerated": ("its", "                except AssertionError as error:\n                    logging.error(error)\n                    raise ValueError(\n                        f\"Could not identify a test node from {vm_name}'s to_state",
                                   "                except AssertionError as error:\n                    logging.error(error)\n                    continue\n                    raise ValueError(\n                        f\"Could not identify a test node from {vm_name}'s to_state"),
}


def load_mutant(which, old, new, scratch):
    rel = "avocado_i2n/plugins/manu.py" if which == "manu" else "avocado_i2n/intertest_setup.py"
    src = open(os.path.join(vlib.REPO, rel)).read()
    edits = old if isinstance(old, list) else [(old, new)]
    for o, n in edits:
        if src.count(o) != 1:
            raise RuntimeError(f"mutation anchor occurs {src.count(o)} times in {rel}: {o[:60]!r}")
        src = src.replace(o, n)
    path = os.path.join(scratch, os.path.basename(rel).replace(".py", "_mut.py"))
    with open(path, "w") as fh:
        fh.write(src)
    name = "avocado_i2n.plugins.manu_mut" if which == "manu" else "avocado_i2n.intertest_setup_mut"
    spec = importlib.util.spec_from_file_location(name, path)
    mod = importlib.util.module_from_spec(spec)
    sys.modules[name] = mod
    spec.loader.exec_module(mod)
    return mod


def c20_cases(rng):
    cases = c20.gen_cases(rng, False)
    # the three cheap regression cases of the repaired defects first
    regress = [c for c in cases if c["chain"] in (["noop", "noop"], ["create", "check"], ["clean", "unset"])]
    cases = [c for c in cases if c not in regress]
    # chains first (they are what the Manu.run mutants need), then a multi-worker single of each kind
    chains = [c for c in cases if len(c["chain"]) > 1]
    singles = [c for c in cases if len(c["chain"]) == 1 and len(c["nets"]) > 1]
    return regress + chains[:8] + singles[:6]


def c15_cases(rng):
    cs = c15.gen_cases(rng, False)
    return [cs[1], cs[3], cs[6], cs[0], cs[10]]


def run(prop, names):
    table = C20_MUTANTS if prop == "c20" else C15_MUTANTS
    scratch = tempfile.mkdtemp(prefix="i2n-verif-mut-")
    toolslib.env()
    results = {}
    try:
        for name, mut in table.items():
            if names and name not in names or mut is None:
                continue
            which, old, new = mut
            mod = load_mutant(which, old, new, scratch)
            ctx = vlib.Ctx(prop.upper(), "quick", 1)
            mod_arg = dict(module=mod) if which == "its" else {}
            cases = c20_cases(ctx.rng) if prop == "c20" else c15_cases(ctx.rng)
            P = c20 if prop == "c20" else c15
            obs = []
            for case in cases:
                if prop == "c20":
                    o = c20.observe(case, module=mod_arg.get("module"), manu_cls=mod.Manu if which == "manu" else None)
                else:
                    o = c15.observe(case, module=mod)
                obs.append(o)
                P.judge(ctx, case, o)
                if ctx.violations:
                    break
            n = len(obs)
            P.compare(ctx, cases[:n], obs)
            keys = sorted({v["key"] for v in ctx.violations})
            results[name] = (keys, len(ctx.disagreements))
            print(f"{name}: violations={keys} disagreements={len(ctx.disagreements)} after {n} cases", flush=True)
            if ctx.violations:
                print("    e.g.", ctx.violations[0]["what"][:300], flush=True)
                v = ctx.violations[0]
                os.makedirs(os.path.join(vlib.REPLAY, "mutants"), exist_ok=True)
                rp = os.path.join(vlib.REPLAY, "mutants", f"{prop.upper()}-{name}.json")
                import json
                with open(rp, "w") as fh:
                    json.dump({"kind": "failing-input", "property": prop.upper(), "mutant": name, "key": v["key"],
                               "what": v["what"], "case": v["case"]}, fh, indent=1, sort_keys=True, default=str)
                print("    replay (fails on the mutated module, passes on /repo):", rp, flush=True)
    finally:
        toolslib.cleanup()
        shutil.rmtree(scratch, ignore_errors=True)
    return results


if __name__ == "__main__":
    prop = sys.argv[1] if len(sys.argv) > 1 else "c20"
    names = sys.argv[2:]
    if names == ["--parallel"]:
        import subprocess
        table = C20_MUTANTS if prop == "c20" else C15_MUTANTS
        procs = [subprocess.Popen([sys.executable, __file__, prop, n]) for n, m in table.items() if m is not None]
        for p in procs:
            p.wait()
    else:
        run(prop, names)
