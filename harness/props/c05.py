"""C05 — traversal family (engine E6), see DESIGN.md §6 and harness/trav_common.py."""
import os

import trav_common
import vlib

PROP = "C05"
ENGINE = "traverse"
TARGETS = ["I2N.Props.C05", "drv_trav"]
PROPS_FILE = "I2N/Props/C05.lean"
MONITORS = "cleanup".split(",")
ANCHORS = {"avocado_i2n/cartgraph/graph.py": ["TestGraph.traverse_object_trees", "TestGraph.traverse_node",
                                              "TestGraph.reverse_node", "TestGraph.traverse_terminal_node"],
           "avocado_i2n/cartgraph/node.py": ["TestNode.is_occupied", "TestNode.is_started", "TestNode.is_finished",
                                             "TestNode.is_setup_ready", "TestNode.is_cleanup_ready",
                                             "TestNode.should_rerun", "TestNode.default_run_decision",
                                             "TestNode.default_clean_decision", "TestNode.pick_parent",
                                             "TestNode.pick_child", "TestNode.drop_parent", "TestNode.drop_child",
                                             "TestNode.pull_locations", "TestNode.scan_states", "TestNode.sync_states",
                                             "TestNode.shared_results", "TestNode.shared_filtered_results",
                                             "TestNode.shared_result_worker_ids", "TestNode.shared_involved_workers"],
           "avocado_i2n/plugins/runner.py": ["TestRunner.run_test_node"]}
TRUSTED = [
    "modelled, not verified: prefix_priority (exported as ranks), the avocado task machinery (replaced by a scheduled "
    "outcome), the state backends (replaced by a store: a PASS leaves the set states in the executing worker's own pool; "
    "check consults own/shared pool by scope), lazy expansion of flat leaves and replay of previous jobs (not in this model)",
    "virtual-time event loop of the harness (asyncio.SelectorEventLoop subclass)",
    "harness/pygen.py (Python AST -> Lean `do` block, fails closed) regenerates I2N/Extracted/GenClean.lean on every run "
    "from the source of TestNode.default_clean_decision (the four tests in front, the is_reversible flag loop as "
    "List.any, the selection between cleaning at once and the loop over the involved workers); "
    "cleanDecision_matches_source proves the model's cleanDecision equal to it for every graph, state, copy and worker "
    "under the explicit encoding ModesEncoded (the one unset mode exported per object stands for the two reads "
    "unset_mode_images / unset_mode_vms with default unset_mode: the export of harness/travlib.py is tied by the "
    "correspondence run, not by this theorem).  Trusted: the translator; the atoms (dry_run test, self.is_flat(), "
    "len(self.cloned_nodes) > 0, worker.id in self.params['name'], self.objects, the two first-character reads are "
    "total - an empty mode raises IndexError in the real code); the pinned loop over the involved workers (text in "
    "harness/pygen.py CLEAN_DOOR_BLOCK, mirrored by hand in Props.C05.cleanDoor)",
    "harness/pygen.py + harness/pygen_pxloc.py regenerate I2N/Extracted/GenInvolved.lean on every run from the source of "
    "the properties TestNode.shared_involved_workers and shared_results (nothing pinned); involved_matches_source (for "
    "every division of the workers into swarms that lists them in exported order) and sharedResults_matches_source prove "
    "the model's involved / sharedResults equal to them.  Trusted: the translator; the atoms (<register>.get_workers() = "
    "regWorkers <register> none, a worker's id stands for the worker, TestSwarm.run_swarms = the swarms in dictionary "
    "order each standing for the list of its workers, self.results / self.bridged_nodes / m.results)",
]
CORPUS = os.path.join(vlib.VERIF, "corpus", PROP)


def extract(ctx):
    """lean/I2N/Extracted/GenClean.lean from /repo's AST (second tie, see harness/pygen.py).  Raises
    (pygen.Unsupported) when the function left the translated subset or the pinned loop changed: run.py records that
    as a proof problem."""
    import pygen
    if pygen.extract_clean(ctx):
        ctx.notes.append("I2N/Extracted/GenClean.lean changed: the source of TestNode.default_clean_decision differs from "
                         "the one the committed file was generated from (cleanDecision_matches_source is re-checked)")
    import pygen_pxloc
    if pygen_pxloc.extract_involved(ctx):
        ctx.notes.append("I2N/Extracted/GenInvolved.lean changed: the source of TestNode.shared_involved_workers / "
                         "shared_results differs from the one the committed file was generated from "
                         "(involved_matches_source, sharedResults_matches_source are re-checked)")
    ctx.extra["regenerated"] = ("lean/I2N/Extracted/GenClean.lean (TestNode.default_clean_decision via harness/pygen.py); "
                                "lean/I2N/Extracted/GenInvolved.lean (TestNode.shared_involved_workers, "
                                "shared_results via harness/pygen_pxloc.py)")


def wellformed(lines):
    """The decidable hypotheses `WellFormed` of the run-level theorems of Props/C05.lean (`unset_after_dependants`, …),
    evaluated on the static description that is handed to the model: returns the names of the conjuncts that fail.
    (edges are recorded at both ends and the registers exist for every class by construction of the driver's input;
    set states are listed per object of the node by construction of `spec_lines`)"""
    workers, nodes, edges, root = [], {}, [], None
    for l in lines:
        t = l.split(" ")
        if t[0] == "worker":
            workers.append(t[1])
        elif t[0] == "node":
            nodes[int(t[1])] = dict(x.split("=", 1) for x in t[2:] if "=" in x)
        elif t[0] == "edge":
            edges.append((int(t[1]), int(t[2])))
        elif t[0] == "root":
            root = int(t[1])
    bad = set()
    flat = {i: "f" in n["flags"] for i, n in nodes.items()}
    if any(a not in nodes or b not in nodes for a, b in edges) or root not in nodes:
        bad.add("graphWF")
    for i, n in nodes.items():
        if flat[i]:
            continue
        own = n["owner"]
        if "?" in n["name"] or not own.isdigit() or int(own) >= len(workers) or \
                any((w in n["name"]) != (j == int(own)) for j, w in enumerate(workers)):
            bad.add("OwnerNames")
        if not set(x.split(":")[0] for x in n["sets"].split(",") if x != "-") <= set(n["objs"].split(",")):
            bad.add("SetsInObjs")
    for i, a in nodes.items():
        for j, b in nodes.items():
            if i < j and a["cls"] == b["cls"]:
                if flat[i] != flat[j]:
                    bad.add("FlatClass")
                if flat[i] or a["owner"] == b["owner"]:
                    bad.add("CopyUniq")
    if root in nodes and (not flat[root] or any(a == root for a, _ in edges)):
        bad.add("RootTop")
    return sorted(bad)


def _record_hypotheses():
    """remember the static description of each run and report which theorem hypotheses it meets (inherited by the forked
    worker processes of `family_run`)"""
    import travlib
    if getattr(travlib, "_c05_patched", False):
        return
    orig_lines, orig_case = travlib.spec_lines, travlib.run_case

    def spec_lines(run):
        lines = orig_lines(run)
        travlib._c05_last_lines = lines
        return lines

    def run_case(spec, driver, **kw):
        travlib._c05_last_lines = []
        res = orig_case(spec, driver, **kw)
        res["wellformed"] = wellformed(travlib._c05_last_lines)
        return res
    travlib.spec_lines, travlib.run_case, travlib._c05_patched = spec_lines, run_case, True


def _count_hypotheses(ctx, results):
    for r in results:
        if "wellformed" not in r or trav_common.substring_ids(r["spec"]):
            continue
        kind = "lazy" if (r["spec"].get("lazy") or r["spec"].get("lazyparsed")) else "pre-parsed"
        ctx.count(f"theorem-hypotheses WellFormed ({kind}): " + ("met" if not r["wellformed"] else
                                                                  "NOT met: " + ",".join(r["wellformed"])))


def correspondence(ctx):
    _record_hypotheses()
    thorough = ctx.tier == "thorough" or ctx.extra.get("drift")
    ctx.rule = ("one case = a generated synthetic graph of real TestNode objects (1-3 vms, setup chains with fan-out, multi-object "
                "leaves, removable states; 30% with lazy expansion of flat leaves) or a really parsed graph of the shipped suite, 1-4 workers (lxc / remote clusters / serial), pool_scope subset, retry settings, "
                "initial pool population and per-worker schedule of (duration, status|never reported); the real "
                "traverse_object_trees runs under virtual time, its event stream is replayed block by block through the Lean "
                "model and judged by the verified monitors " + ",".join(MONITORS) + "; non-trivial = more than two executions")
    n = 3000 if thorough else 240
    results = trav_common.family_run(ctx, MONITORS, n, corpus=CORPUS, n_parsed=48 if thorough else 12,
                                     n_lazyparsed=12 if thorough else 3)
    _count_hypotheses(ctx, results)


def search(ctx, reason):
    trav_common.family_run(ctx, MONITORS, 1500, corpus=None, seed_offset=7919)


def replay(ctx, payload):
    trav_common.replay_case(ctx, payload, MONITORS)
