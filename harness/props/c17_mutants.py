"""Mutation sanity for C17 (development tool, not part of ./check).

    /venv/bin/python harness/props/c17_mutants.py            # all mutants, one sub-process each
    /venv/bin/python harness/props/c17_mutants.py run NAME   # one mutant, prints a JSON summary

Every mutant is ONE module of /repo (states/qcow2.py or states/ramfile.py) copied to a scratch directory with a
small textual edit (or the file as it was before the F1 fix, taken from git objects); /repo is not touched.  The
mutated module is loaded by harness/props/c17.py through C17_QCOW2_SRC / C17_RAMFILE_SRC, then the quick
correspondence runs; when only the model disagrees or a pinned constant changed, `search` runs as ./check would.
"""
import json
import os
import shutil
import subprocess
import sys
import tempfile

HERE = os.path.dirname(os.path.abspath(__file__))
sys.path.insert(0, os.path.dirname(HERE))
sys.path.insert(0, HERE)

REPO = os.environ.get("I2N_REPO", "/repo")
Q, R = "avocado_i2n/states/qcow2.py", "avocado_i2n/states/ramfile.py"

MUTANTS = {
    # name: (file, [(old, new)] or "git:<rev>", what)
    "old-qcow2": (Q, "git:8bdd936^", "QCOW2VTBackend.show as before the F1 fix (.intersect on a list, restart on empty)"),
    "old-ramfile": (R, "git:8bdd936^", "RamfileBackend._show as before the F1 fix"),
    "vt-restart-on-empty": (Q, [("            if states is None:\n                states = list(image_states)",
                                 "            if not states:\n                states = list(image_states)")],
                            "accumulator restarted whenever it is empty (truthiness instead of `is None`)"),
    "vt-union": (Q, [("states = [state for state in states if state in image_states]",
                      "states = states + [state for state in image_states if state not in states]")],
                 "union instead of intersection"),
    "vt-last-image": (Q, [("states = [state for state in states if state in image_states]",
                           "states = list(image_states)")], "only the last image counts (forgotten filter)"),
    "vt-first-image": (Q, [("states = [state for state in states if state in image_states]",
                            "states = [state for state in states]")], "only the first image counts (dropped condition)"),
    "vt-skip-last": (Q, [("        for image_name in params.objects(\"images\"):\n            image_params = params.object_params(image_name)\n"
                          "            # TODO: refine method arguments by providing at least the image name directly\n"
                          "            image_params[\"images\"] = image_name\n            image_states = super()",
                          "        for image_name in params.objects(\"images\")[:2]:\n            image_params = params.object_params(image_name)\n"
                          "            # TODO: refine method arguments by providing at least the image name directly\n"
                          "            image_params[\"images\"] = image_name\n            image_states = super()")],
                     "third image never consulted (off-by-one on the image list)"),
    "ram-no-image-check": (R, [("            if state in images_states:", "            if True:")],
                           "memory file alone makes a vm state (dropped guard)"),
    "ram-union": (R, [("images_states = images_states.intersection(image_snapshots)",
                       "images_states = images_states.union(image_snapshots)")], "union instead of intersection"),
    "ram-restart-on-empty": (R, [("            if images_states is None:\n                images_states = set(image_snapshots)",
                                  "            if not images_states:\n                images_states = set(image_snapshots)")],
                             "accumulator restarted whenever it is empty"),
    "ram-cut-5": (R, [("state = snapshot[:-6]", "state = snapshot[:-5]")], "off-by-one when cutting `.state`"),
    "on-regex-no-lookahead": (Q, [(r"\s*(?!0 B)(\d+e?", r"\s*(\d+e?")], "on pattern without the `(?!0 B)` guard"),
    "off-regex-any-bytes": (Q, [(r"\s*(0 B)\s+", r"\s*(\d+ B)\s+")], "off pattern accepts every size in bytes"),
    "on-regex-no-exponent": (Q, [(r"(\d+e?[\-\+]?[\.\d]* \w+)", r"(\d+[\.\d]* \w+)")],
                             "on pattern without exponent/sign: sizes like 2e+03 MiB are not recognised"),
    "off-regex-not-multiline": (Q, [("\\d{4}-\\d\\d-\\d\\d\", flags=re.MULTILINE\n)", "\\d{4}-\\d\\d-\\d\\d\"\n)")],
                                "off pattern compiled without re.MULTILINE: only the first line can match"),
}


def make_source(name, tmp):
    path, edit, _ = MUTANTS[name]
    if isinstance(edit, str):
        src = subprocess.run(["git", "-C", REPO, "show", f"{edit[4:]}:{path}"], check=True, stdout=subprocess.PIPE, text=True).stdout
    else:
        src = open(os.path.join(REPO, path)).read()
        for old, new in edit:
            assert src.count(old) == 1, f"{name}: the text to mutate occurs {src.count(old)} times"
            src = src.replace(old, new)
    out = os.path.join(tmp, os.path.basename(path))
    with open(out, "w") as fh:
        fh.write(src)
    return path, out


def run_one(name):
    tmp = tempfile.mkdtemp(prefix="i2n-verif-c17-mut-")
    try:
        path, src = make_source(name, tmp)
        os.environ["C17_QCOW2_SRC" if path == Q else "C17_RAMFILE_SRC"] = src
        import vlib
        import c17
        ctx = vlib.Ctx("C17", "quick", int(os.environ.get("VERIF_SEED", "1")))
        q = c17.QCOW2_SRC or os.path.join(REPO, Q)
        r = c17.RAMFILE_SRC or os.path.join(REPO, R)
        try:
            pins_ok = c17.extracted_source(q, r) == open(os.path.join(vlib.LEAN, "I2N/Extracted/Show.lean")).read()
        except RuntimeError as e:
            pins_ok = f"extract fails closed: {e}"
        c17.correspondence(ctx)
        searched = False
        if (pins_ok is not True or ctx.disagreements) and not ctx.violations:
            searched = True
            c17.search(ctx, "proof" if pins_ok is not True else "correspondence")
        keys = {}
        for v in ctx.violations:
            keys.setdefault(v["key"], v)
        first = next(iter(keys.values()), None)
        print("RESULT " + json.dumps({
            "mutant": name, "pinned_constants_unchanged": pins_ok, "disagreements": len(ctx.disagreements),
            "violations": {k: sum(1 for v in ctx.violations if v["key"] == k) for k in keys}, "searched": searched,
            "first": None if first is None else {"key": first["key"], "what": first["what"][:300],
                                                 "case": {k: v for k, v in first["case"].items() if k != "lines"}},
            "first_disagreement": ctx.disagreements[0]["where"] if ctx.disagreements else None}, default=str))
    finally:
        shutil.rmtree(tmp, ignore_errors=True)


def main():
    if len(sys.argv) >= 3 and sys.argv[1] == "run":
        run_one(sys.argv[2])
        return
    names = sys.argv[1:] or list(MUTANTS)
    rows = []
    for n in names:
        p = subprocess.run([sys.executable, os.path.abspath(__file__), "run", n], stdout=subprocess.PIPE,
                           stderr=subprocess.PIPE, text=True)
        res = [l for l in p.stdout.splitlines() if l.startswith("RESULT ")]
        if not res:
            print(f"{n}: HARNESS ERROR\n{p.stderr[-1500:]}")
            continue
        r = json.loads(res[0][7:])
        rows.append(r)
        verdict = "CAUGHT (violation + replay)" if r["violations"] else (
            "caught as disagreement only" if r["disagreements"] or r["pinned_constants_unchanged"] is not True else "MISSED")
        print(f"{n:26s} {verdict:30s} violations={r['violations']} disagreements={r['disagreements']} "
              f"pins_unchanged={r['pinned_constants_unchanged']} searched={r['searched']}")
        if r["first"]:
            print(f"{'':26s} e.g. {r['first']['what']}")
    return rows


if __name__ == "__main__":
    main()
