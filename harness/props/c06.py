"""C06 — the parsed dependency graph is well formed (engine E5 `graph`)."""
import copy
import json
import os
import time

import vlib
import graphlib as gl

PROP = "C06"
ENGINE = "graph"
TARGETS = ["I2N.Props.C06", "drv_graph"]
PROPS_FILE = "I2N/Props/C06.lean"
ANCHORS = {"avocado_i2n/cartgraph/graph.py": [
    "TestGraph.get_and_parse_nodes_from_composite_node_and_object", "TestGraph.parse_shared_root_from_object_roots",
    "TestGraph.parse_object_trees", "TestGraph.parse_paths_to_object_roots",
    "TestGraph.parse_branches_for_node_and_object", "TestGraph.parse_cloned_branches_for_node_and_object",
    "TestGraph.get_and_parse_objects_for_node_and_object", "TestGraph.parse_object_nodes"],
    "avocado_i2n/cartgraph/node.py": ["TestNode.validate", "TestNode.descend_from_node", "TestNode.clone_as_source",
                                      "TestNode.set_objects_from_net", "TestNode.default_run_decision"],
    "avocado_i2n/cartgraph/object.py": ["TestObject.object_typed_params", "TestObject.id", "ImageObject"]}
TRUSTED = ["modelled, not verified: the third-party Cartesian parser (virttest.cartesian_config) — the checker "
           "works on the graph the real code built with it",
           "graph extraction (harness/graphlib.py:extract): reads nodes, setup/cleanup dictionaries, objects and "
           "object-typed get/get_state/set_state off the real TestGraph",
           "generated mini suites (harness/graphlib.py:gen_suite/write_suite) are Cartesian configs in the format of "
           "/repo/tp_folder/configs"]

SHIPPED_CASES = [
    # (tests_str, vm_strs, nets, mode)
    ("only normal\nonly tutorial1\n", {"vm1": "only CentOS\n", "vm2": "only Win10\n", "vm3": "only Ubuntu\n"},
     ["net1", "net2"], "eager"),
    ("only leaves..tutorial_get..implicit_both\n", {"vm1": "only CentOS\n", "vm2": "only Win10\n",
                                                    "vm3": "only Ubuntu\n"}, ["net1"], "eager"),
    ("only normal\nonly tutorial1,tutorial2\n", {"vm1": "only CentOS\n", "vm2": "only Win10\n",
                                                 "vm3": "only Ubuntu\n"}, ["net1", "net2"], "lazy"),
    ("only leaves..tutorial3..no_remote\n", {"vm1": "", "vm2": "only Win10\n", "vm3": "only Ubuntu\n"},
     ["net3"], "eager"),
    ("only minimal\n", {"vm1": "only CentOS\n", "vm2": "only Win10\n", "vm3": "only Ubuntu\n"},
     ["cluster1.net6", "cluster1.net7"], "eager"),
    ("only leaves..tutorial_finale\n", {"vm1": "only CentOS\n", "vm2": "only Win10\n", "vm3": "only Ubuntu\n"},
     ["net1"], "eager"),
    ("only normal..tutorial1\n", {"vm1": "", "vm2": "only Win10\n", "vm3": "only Ubuntu\n"}, ["net5", "net1"],
     "eager"),
    ("only leaves..tutorial_gui\n", {"vm1": "", "vm2": "", "vm3": "only Ubuntu\n"}, ["net2", "net5"], "eager"),
    # one test selected through a nested set (normal.gui) and needed as setup of a test of another set, expanded lazily
    ("only leaves..tutorial_get..explicit_noop,normal..tutorial_gui\n", {"vm1": "only CentOS\n", "vm2": "only Win10\n",
                                                                        "vm3": "only Ubuntu\n"}, ["net1"], "lazy"),
    # the same kind of selection with two workers that start on different flat nodes
    ("only normal..tutorial_gui..client_noop,leaves..tutorial_get..explicit_noop\n",
     {"vm1": "only CentOS\n", "vm2": "only Win10\n", "vm3": "only Ubuntu\n"}, ["net1", "net2"], "lazy"),
    # the stateless noop test itself selected (under `all`): its composite nodes share their leading variants with the flat
    # shared root `all.internal.stateless.noop`
    ("only all..noop,leaves..tutorial1\n", {"vm1": "only CentOS\n", "vm2": "only Win10\n", "vm3": "only Ubuntu\n"},
     ["net1"], "eager"),
    # a multi-valued vm restriction written with unusual but legal blanks around the comma (the Cartesian parser accepts
    # any): both variants of vm1 stay selected for every worker
    ("only normal..tutorial1\n", {"vm1": "only CentOS,  Fedora\n", "vm2": "only Win10\n", "vm3": "only Ubuntu\n"},
     ["net1", "net4"], "eager"),
    ("only normal..tutorial1\n", {"vm1": "only Fedora , CentOS\n", "vm2": "only Win10\n", "vm3": "only Ubuntu\n"},
     ["net2"], "lazy"),
]


# ---------------------------------------------------------------------------------------------

def index_wf(names):
    """the preconditions of the name index (C16) evaluated on the node names of a really parsed graph.
    `WFb` (what C16's lookup exactness, order independence and contains/get agreement are proved under): names
    distinct, non-empty, the first variant of every name occurs in no name at a later position.  The full `WF`
    additionally has "no variant repeated within a name" (only needed for "each match returned once").
    Returns (violated WFb clauses, violated extra clauses)."""
    split = [n.split(".") for n in names]
    firsts = {n[0] for n in split}
    wfb, extra = set(), set()
    if len(set(names)) != len(names):
        wfb.add("names-not-distinct")
    for n in split:
        if not n or n == [""]:
            wfb.add("empty")
        if any(v in firsts for v in n[1:]):
            wfb.add("first-variant-at-later-position")
        if len(set(n)) != len(n):
            extra.add("variant-repeated-within-a-name")
    return sorted(wfb), sorted(extra)


def lean_verdict(out_line):
    """'ok' | 'fail a … ; b …'  ->  {clause: [witness strings]}"""
    if out_line == "ok":
        return {}
    assert out_line.startswith("fail "), out_line
    res = {}
    for part in out_line[5:].split(" ; "):
        clause, _, w = part.partition(" ")
        res.setdefault(clause, []).append(w)
    return res


def first_worker_oids(x, case):
    first = case["nets"][0].replace("localhost.", "")
    return {o["oid"] for nd in x["nodes"] if nd["worker"] == first for o in nd["objects"]}


def double_clone(x):
    """some test has two objects that both depend on a whole group of producers (get without a fixed state)"""
    return any(sum(1 for o in nd["objects"] if o["get"] and o["get_state"] == "0root") >= 2 for nd in x["nodes"])


def classify_producer(x, case, witness):
    """stable key of a violated producer clause"""
    i, oid, ps = witness
    if not ps and case.get("suite"):
        nd = x["nodes"][i]
        o = [o for o in nd["objects"] if o["oid"] == oid][0]
        vm, variant = o["suffix"].split("_")[-1], oid.split(".")[-1]
        if not gl.candidate_producers(case["suite"], case, nd["worker"], vm, variant, o["get"]):
            return "suite-not-wf"
    if not ps:
        return "missing-producer"
    if len(ps) > 1:
        return "several-producers"
    if not any(o["oid"] == oid for o in x["nodes"][ps[0]]["objects"]):
        # the one parent does not even have the object: the dependency was resolved for another object of the test
        return "producer-of-another-object"
    return "wrong-producer"


def brief(case):
    c = {k: v for k, v in case.items() if k != "suite"}
    if case.get("suite") and case["suite"].get("path"):
        c["suite"] = "shipped tp_folder"
    elif case.get("suite"):
        c["suite_tests"] = [t["name"] for t in case["suite"]["tests"]]
    return c


def judge_graph(ctx, case, graph, x, lean_line, origin="real"):
    """spec oracle on the implementation's graph + comparison with the verified checker's verdict"""
    spec = gl.spec_check(x)
    lean = lean_verdict(lean_line)
    if "range" in spec or "range" in lean:
        same = ("range" in spec) == ("range" in lean)
    else:
        same = set(spec) == set(lean)
        if same and "producer" in spec:
            same = len(spec["producer"]) == len(lean["producer"])
    if not same:
        ctx.disagree("check:" + origin, brief(case), lean_line, {k: v[:4] for k, v in spec.items()})
    if origin != "real":
        return spec, lean
    full = dict(case)
    for clause, ws in spec.items():
        for w in ws[:3]:
            key = clause if clause != "producer" else classify_producer(x, case, w)
            if clause == "edge-object" and not any(o["oid"] == gl._edge_oid(w[2]) for o in x["nodes"][w[1]]["objects"]):
                key = "producer-of-another-object"
            if double_clone(x):
                key = "double-clone"
            if key == "suite-not-wf":
                # the configuration declares a dependency nothing can produce for this variant: outside the
                # property's quantifier (well-formed suites); counted, not reported
                ctx.count("suite.not_wf.missing_producer")
                continue
            what = f"graph not well formed, clause `{clause}`: {w}"
            if clause == "producer":
                i, oid, ps = w
                nd = x["nodes"][i]
                o = [o for o in nd["objects"] if o["oid"] == oid]
                what = (f"node {nd['id']} requires get={o[0]['get'] if o else '?'} state={o[0]['get_state'] if o else '?'} "
                        f"for object {oid} but has parents {[x['nodes'][p]['id'] for p in ps]} for it "
                        f"(expected exactly one producer of worker {nd['worker']})")
            ctx.violate(key, what, full)
    vkey = "double-clone" if double_clone(x) else "validate-rejects"
    for (nid, err) in x["invalid"]:
        ctx.violate(vkey, f"TestNode.validate() rejects {nid}: {err}", full)
    for (nid, err) in getattr(graph, "_verif_invalid", []) if graph is not None else []:
        ctx.violate(vkey, f"TestNode.validate() rejects {nid} during lazy expansion: {err}", full)
    return spec, lean


def check_clone_sources(ctx, case, graph):
    """the real run / clean / rerun decisions on every clone source"""
    for n in graph.nodes:
        if len(n.cloned_nodes) == 0:
            continue
        ctx.count("clone_source.decisions")
        w = next((w for w in graph.workers.values() if w.id in n.params["name"]), None)
        if w is None:
            continue
        try:
            verdicts = (n.default_run_decision(w), n.default_clean_decision(w), n.should_rerun(w))
        except Exception as e:  # noqa
            verdicts = ("raised " + type(e).__name__,)
        if any(v is not False for v in verdicts):
            ctx.violate("clone-source-runnable", f"clone source {n.id}: run/clean/rerun decisions = {verdicts}", case)
        if not n.prefix.startswith("0"):
            ctx.violate("clone-source-prefix", f"clone source {n.id} does not carry the 0 prefix", case)


def mutate_graph(rng, x):
    """a malformed variant of a real extracted graph (negative stream): (name, graph)"""
    y = copy.deepcopy(x)
    comp = [i for i, nd in enumerate(y["nodes"]) if not nd["flat"]]
    kind = rng.choice(["back-edge", "drop-cleanup", "dup-id", "drop-producer", "second-root", "self-edge",
                       "wrong-state", "extra-producer", "foreign-worker"])
    if kind == "back-edge" and y["setup"]:
        c, p, o = rng.choice(y["setup"])
        y["setup"].append((p, c, o))
        y["cleanup"].append((c, p, o))
    elif kind == "drop-cleanup" and y["cleanup"]:
        y["cleanup"].pop(rng.randrange(len(y["cleanup"])))
    elif kind == "dup-id" and len(y["nodes"]) > 1:
        a, b = rng.sample(range(len(y["nodes"])), 2)
        y["nodes"][a]["id"] = y["nodes"][b]["id"]
    elif kind == "drop-producer":
        cands = [(c, p, o) for (c, p, o) in y["setup"] if not y["nodes"][p]["flat"]]
        if cands:
            e = rng.choice(cands)
            y["setup"].remove(e)
            if (e[1], e[0], e[2]) in y["cleanup"]:
                y["cleanup"].remove((e[1], e[0], e[2]))
    elif kind == "second-root" and comp:
        i = rng.choice(comp)
        y["setup"] = [e for e in y["setup"] if e[0] != i]
        y["cleanup"] = [e for e in y["cleanup"] if e[1] != i]
    elif kind == "self-edge" and comp:
        i = rng.choice(comp)
        o = y["nodes"][i]["objects"][-1]["oid"]
        y["setup"].append((i, i, o))
        y["cleanup"].append((i, i, o))
    elif kind == "wrong-state":
        cands = [(i, k) for i in comp for k, o in enumerate(y["nodes"][i]["objects"])
                 if o["get"] and o["get_state"] not in ("0root", "")]
        if cands:
            i, k = rng.choice(cands)
            y["nodes"][i]["objects"][k]["get_state"] += "x"
    elif kind == "extra-producer":
        cands = [(c, p, o) for (c, p, o) in y["setup"] if not y["nodes"][p]["flat"]]
        if cands and len(comp) > 2:
            c, p, o = rng.choice(cands)
            q = rng.choice([i for i in comp if i not in (c, p)])
            if (c, q, o) not in y["setup"]:
                y["setup"].append((c, q, o))
                y["cleanup"].append((q, c, o))
    elif kind == "foreign-worker" and comp:
        i = rng.choice(comp)
        y["nodes"][i]["worker"] += "x"
    y["setup"].sort()
    y["cleanup"].sort()
    return kind, y


def run_cases(ctx, cases, n_mut=2):
    """parse every case with the real code, check with the verified checker and the spec oracle"""
    batch, lines = [], []
    for case in cases:
        t0 = time.time()
        graph, status = gl.run_case(case)
        ctx.count("parse." + status.split(":")[0] + ("" if not status.startswith("error") else "." + status.split(":")[1]))
        ctx.count("mode." + case.get("mode", "eager"))
        ctx.count("suite." + ("mini" if case.get("suite") else "shipped"))
        ctx.count(f"workers={len(case['nets'])}")
        if status.startswith("error:ValueError:Detected") or status.startswith("error:AssertionError:Test node"):
            # TestNode.validate() is called by the parser itself (parse_object_trees) and raised
            dbl = gl.double_clone_suite(case)
            ctx.violate("double-clone" if dbl else "validate-rejects",
                        "TestNode.validate() rejects a node while parsing: " + status[:300], dict(case))
            ctx.case(brief(case), nontrivial=True)
            continue
        if status.startswith("error:Timeout"):
            # the implementation's own non-termination (bounded by graphlib.run_case): reported only when it can be
            # tied to a finding (double-clone shape, or it terminates under a finding's minimal fix)
            dbl = gl.double_clone_suite(case)
            ctx.violate("double-clone" if dbl else "parser-timeout",
                        "the parser did not terminate within the time bound on this input", dict(case))
            ctx.case(brief(case), nontrivial=True)
            continue
        if status.startswith("error"):
            ctx.notes.append(f"real parser raised on {brief(case)}: {status}"[:600])
            ctx.case(brief(case), nontrivial=False)
            continue
        if graph is None:
            ctx.case(brief(case), nontrivial=False)
            continue
        x = gl.extract(graph)
        n = len(x["nodes"])
        ctx.count("nodes<=10" if n <= 10 else "nodes<=30" if n <= 30 else "nodes<=100" if n <= 100 else "nodes>100")
        ctx.count("graphs.with_clones" if x["clones"] else "graphs.without_clones")
        pairs = [(c, p) for (c, p, o) in x["setup"]]
        ctx.count("graphs.with_several_objects_on_one_dependency" if len(pairs) != len(set(pairs))
                  else "graphs.one_object_per_dependency")
        ctx.count("graphs.multi_variant" if any(v.strip() == "" or "," in v or v.startswith("no")
                                                for v in case["vm_strs"].values()) else "graphs.single_variant")
        ctx.extra["parse_seconds"] = round(ctx.extra.get("parse_seconds", 0) + time.time() - t0, 1)
        ctx.extra["nodes_total"] = ctx.extra.get("nodes_total", 0) + n
        check_clone_sources(ctx, case, graph)
        wfb, extra = index_wf([nd["name"] for nd in x["nodes"]])
        ctx.count("index_WFb.ok" if not wfb else "index_WFb.violated")
        ctx.count("index_WF_full.ok" if not (wfb or extra) else "index_WF_full.violated")
        for clause in wfb + extra:
            ctx.count("index_wf." + clause)
        # the lookups the parser relies on must nevertheless be exact on these names (naive scan as oracle)
        for nd in x["nodes"][:6]:
            q = nd["setless"]
            got = sorted(n.id for n in graph.get_nodes_by_name(q))
            want = sorted(m["id"] for m in x["nodes"] if gl.name_matches(q, m["name"]))
            if got != want:
                ctx.violate("double-clone" if double_clone(x) else "name-lookup-not-exact",
                            f"get_nodes_by_name({q}) = {got[:3]}…, contiguous matches are "
                            f"{want[:3]}…", dict(case))
        # "no two nodes with the same identity": beyond the node ids, no two runnable nodes of one worker may be the same
        # test (same name below the test set, same objects) - two test sets selecting one test must share its node
        mains = gl.MAIN_SETS_ALL
        seen_tests = {}
        for nd in x["nodes"]:
            if nd["flat"] or nd["shared_root"]:
                continue
            nm = nd["name"]
            for m in mains:
                if nm.startswith(m + "."):
                    nm = nm[len(m) + 1:]
                    break
            other = seen_tests.setdefault((nd["worker"], nm), nd["id"])
            if other != nd["id"] and not double_clone(x):
                ctx.violate("same-test-parsed-twice", f"nodes {other} and {nd['id']} of {nd['worker']} are the same test {nm[:80]}…",
                            dict(case))
                break
        muts = [mutate_graph(ctx.rng, x) for _ in range(n_mut)]
        start = len(lines)
        lines += gl.to_lines(x) + ["check"]
        idx = [len(lines) - 1]
        for _, y in muts:
            lines += gl.to_lines(y) + ["check"]
            idx.append(len(lines) - 1)
        batch.append((case, graph, x, muts, idx))
        ctx.case(brief(case), nontrivial=n > 3)
    if not lines:
        return
    out = vlib.driver("drv_graph", lines)
    for case, graph, x, muts, idx in batch:
        spec, lean = judge_graph(ctx, case, graph, x, out[idx[0]])
        for (kind, y), j in zip(muts, idx[1:]):
            ctx.count("malformed." + kind)
            mspec, mlean = judge_graph(ctx, dict(case, mutation=kind), None, y, out[j], origin="mutated:" + kind)
            ctx.count("malformed.rejected" if mlean else "malformed.accepted")


def gen_cases(rng, n_suites, per_suite, size="small", lazy_share=0.3, max_workers=3):
    cases = []
    for _ in range(n_suites):
        suite = gl.gen_suite(rng, size)
        for _ in range(per_suite):
            sel = gl.gen_selection(rng, suite, max_workers)
            case = {"suite": suite, **sel, "mode": "eager"}
            if rng.random() < lazy_share:
                case["mode"] = "lazy"
                # a random interleaving of (flat node, worker) expansions; sometimes a proper prefix only
                order = [(fi, w.replace("localhost.", "")) for fi in range(gl.MAX_FLATS) for w in sel["nets"]]
                rng.shuffle(order)
                if rng.random() < 0.3:
                    order = order[:max(1, len(order) // 2)]
                case["order"] = order
            cases.append(case)
    return cases


def shipped_case(i, with_suite=False):
    t, v, n, m = SHIPPED_CASES[i]
    return {"suite": gl.shipped_suite() if with_suite else None, "tests_str": t, "vm_strs": dict(v), "nets": list(n),
            "mode": m}


def correspondence(ctx):
    rng = ctx.rng
    thorough = ctx.tier == "thorough" or ctx.extra.get("drift")
    ctx.rule = ("one case = one (suite, tests restriction, per-vm restrictions, ordered worker set, eager|lazy parsing "
                "with an expansion order) parsed by the real TestGraph code; the extracted graph is judged by the "
                "verified checker (drv_graph `check`) and by an independent naive Python reading of C06, verdicts are "
                "compared clause by clause; TestNode.validate() must accept every node; clone sources are asked their "
                "real run/clean/rerun decisions; each real graph additionally yields malformed variants (negative "
                "stream) on which checker and oracle must agree; non-trivial = more than 3 nodes; distinct by content")
    try:
        for case in gl.corpus_cases("C06"):
            ctx.count("corpus.replayed")
            gl.run_attributed(ctx, case, lambda c, k: run_cases(c, [k], n_mut=0))
        n_suites, per_suite, n_shipped = (150, 3, len(SHIPPED_CASES)) if thorough else (16, 2, 2)
        budget = 1500 if thorough else 150
        cases = gen_cases(rng, n_suites, per_suite, "large" if thorough else "small")
        for i, case in enumerate(cases):
            if ctx.remaining(budget * 0.75) < 0:
                ctx.notes.append(f"time budget: stopped after {i} of {len(cases)} generated-suite cases")
                break
            gl.run_attributed(ctx, case, lambda c, k: run_cases(c, [k]))
        ship = list(range(len(SHIPPED_CASES)))
        rng.shuffle(ship)
        if not thorough:
            # always include the multi-worker restricted case and the mixed-set lazy case
            ship = [6, 8, 10] + [i for i in ship if i not in (6, 8, 10)][:n_shipped - 1]
        for i in ship:
            if ctx.remaining(budget) < 0:
                ctx.notes.append("time budget: shipped-suite cases cut short")
                break
            gl.run_attributed(ctx, shipped_case(i), lambda c, k: run_cases(c, [k], n_mut=3))
        # random selections over the shipped suite's own sets, variants and nets
        for _ in range(14 if thorough else 1):
            if ctx.remaining(budget + (0 if thorough else 25)) < 0:
                ctx.notes.append("time budget: random shipped-suite selections cut short")
                break
            ctx.count("suite.shipped.random")
            gl.run_attributed(ctx, gl.gen_shipped_case(rng, with_suite=False), lambda c, k: run_cases(c, [k], n_mut=1))
    finally:
        gl.cleanup()


def search(ctx, reason):
    """proof or correspondence broke: hunt on the implementation with the spec oracle only"""
    rng = ctx.rng
    try:
        cases = gen_cases(rng, 40, 3, "large", lazy_share=0.4)
        for case in cases:
            if ctx.remaining(600) < 0 or ctx.violations:
                break
            graph, status = gl.run_case(case)
            if graph is None:
                continue
            x = gl.extract(graph)
            for clause, ws in gl.spec_check(x).items():
                key = clause if clause != "producer" else classify_producer(x, case, ws[0])
                ctx.violate(key, f"graph not well formed, clause `{clause}`: {ws[0]}", case)
    finally:
        gl.cleanup()


def replay(ctx, payload):
    case = gl.load_case(payload["case"])
    if case.get("order"):
        case["order"] = [tuple(o) for o in case["order"]]
    case.pop("mutation", None)
    try:
        run_cases(ctx, [case], n_mut=0)
    finally:
        gl.cleanup()
