"""C15 — the update tool reruns exactly the requested path and drops only its dependants (engine E6, tools part).

The REAL `intertest_setup.update` runs on the shipped suite under a virtual clock (harness/toolslib.py).  Spies record
the remove-set graph of every (vm, worker) with the verdict of the installed run/clean policies, and the calls of
`flag_intersection` / `flag_children`; the traversal's executions and state removals (door `unset` requests) are
observed.  A spec oracle (plain graph search on the parsed graph: path from `from_state` to `to_state`, strict
descendants of `to_state`) judges the observations; the Lean model (`Driver/Tools.lean`) recomputes the flags.
"""
import json
import multiprocessing
import os
import re
import time

import vlib
import toolslib

PROP = "C15"
ENGINE = "traverse"
TARGETS = ["I2N.Props.C15", "drv_tools"]
PROPS_FILE = "I2N/Props/C15.lean"
ANCHORS = {"avocado_i2n/intertest_setup.py": ["update"],
           "avocado_i2n/cartgraph/graph.py": ["TestGraph.flag_children", "TestGraph.flag_intersection",
                                              "TestGraph.get_nodes", "TestGraph.get_nodes_by_name"],
           "avocado_i2n/cartgraph/node.py": ["TestNode.setless_form", "TestNode.sync_states"]}
TRUSTED = ["the Cartesian parser is an oracle of the model and of the spec oracle: the remove-set graph (nodes, cleanup "
           "edges, produced states, clone sources) and the node names of the `all..<to_state>` / `all..<from_state>` "
           "graphs are recorded by spies; that the latter are exactly the state's node plus its setup closure is the "
           "parser's contract (hypothesis of the theorems, checked by the spec oracle's own graph search)",
           "the traversal executes a node iff its installed run policy says so and removes the states of a node iff its "
           "clean policy says so (engine E6; observed here through the executed tests and the door's unset requests)",
           "flag_children's worker regex `(?:^|\\.)<component form>.*<worker id>(?:$|\\.)` and flag_intersection's "
           "`<setless name>$` are read as attribute tests; the equivalence is checked on every node of every run",
           "the compiled driver drv_tools (falls back to `lake env lean --run Driver/Tools.lean` when it is stale)",
           "translator tie (removeSet_matches_source, flagPasses_matches_source, workerBody_matches_source, "
           "update_matches_source, bridgePair_matches_source, bridgeAll_matches_source, flagIntersectionStep_matches_source, "
           "flagIntersection_matches_source): harness/pygen.py (Python AST -> "
           "Lean `do` block, fails closed; its opt-in `effect_loops` shapes) on the pieces harness/pygen_pxupdate.py cuts "
           "out of intertest_setup.update (pinned prologue / epilogue / per-vm prefix, the two loops and the all-pairs "
           "bridging loop matched structurally, the `try` around the parse of the remove-set graph whose handler must end "
           "in `continue`); the atom / statement tables of that module (parser calls = the oracle `UEnv` of "
           "I2N/Lemmas/ToolsUpdate.lean keyed by restriction, vm index, vm and worker; the two `flag_children` loops "
           "with their `except AssertionError: raise ValueError` pinned whole to `fcAllM`); the adapter `updateAll` / "
           "`bridgeAll` around the hand model `updateFlags` is defined by hand in I2N/Lemmas/ToolsUpdate.lean"]


def extract(ctx):
    """second tie: `intertest_setup.update` cut into its loops and translated to Lean from the CURRENT source (raises
    pygen.Unsupported when it left the translated subset / a pinned statement changed / the loop structure is no
    longer the expected one; run.py records that as a broken proof obligation and searches for a failing input)"""
    import pygen_pxupdate
    if pygen_pxupdate.extract_update(ctx):
        ctx.notes.append("I2N/Extracted/GenUpdate.lean changed: the source of intertest_setup.update differs from the "
                         "one the committed file was generated from (the …_matches_source theorems are re-checked)")
    ctx.extra["regenerated"] = ("lean/I2N/Extracted/GenUpdate.lean (update: remove-set restriction, flagging passes, "
                                "loop skeleton, all-pairs bridging; TestGraph.flag_intersection: loop body; via "
                                "harness/pygen_pxupdate.py + harness/pygen.py)")

DEFAULT = {"vm1": "CentOS", "vm2": "Win10", "vm3": "Ubuntu"}
# setup chains of the shipped suite (generator only; the oracle reads the parsed graph): state -> parent state
CHAIN = {"vm1": {"install": None, "customize": "install", "on_customize": "customize", "connect": "customize",
                 "linux_virtuser": "customize"},
         "vm2": {"install": None, "customize": "install", "on_customize": "customize", "windows_virtuser": "customize"},
         "vm3": {"install": None, "customize": "install", "on_customize": "customize", "connect": "customize"}}
MAIN_RESTRICTIONS = ["all", "nonleaves", "leaves", "normal", "minimal"]      # main_restrictions of the shipped groups-base.cfg
REMOVE_SETS = [None, "leaves", "minimal", "tutorial_gui", "tutorial_get", "tutorial1", "leaves..tutorial_gui"]
NETS = ["net1", "net2", "net3", "net4"]


def pairs(vm):
    """(from, to) with from an ancestor-or-self of to along the vm's setup chain"""
    out = []
    for to in CHAIN[vm]:
        s = to
        while s is not None:
            out.append((s, to))
            s = CHAIN[vm][s]
    return out


# -- one case on the real code ---------------------------------------------------------------------------------------

def observe(case, module=None):
    t0 = time.time()
    rec = toolslib.Recorder(sched=case.get("sched"), module=module, spy_update=True)
    vm_strs = {vm: "".join(f"only {r}\n" for r in ([DEFAULT[vm]] if r is None else [r] if r else []))
               for vm, r in case["vms"].items()}
    vp = {}
    for vm in case["vms"]:
        if case.get("from", {}).get(vm) is not None:
            vp[f"from_state_{vm}"] = case["from"][vm]
        if case.get("to", {}).get(vm) is not None:
            vp[f"to_state_{vm}"] = case["to"][vm]
    if case.get("remove_set"):
        vp["remove_set"] = case["remove_set"]
    for vm, rs in (case.get("remove_set_vm") or {}).items():
        vp[f"remove_set_{vm}"] = rs          # object-suffixed form (like from_state_<vm> / to_state_<vm>)
    config = rec.base_config(vm_strs, " ".join(case["nets"]), vms_params=vp)
    kind, val = rec.call_tool("update", config, case.get("tag", "0m0"))
    evs = []
    for e in rec.events:
        e = dict(e)
        if e["k"] in ("tool", "tool-end", "parse", "objects", "wstart"):
            continue
        if "params" in e:
            p = e.pop("params")
            e["type"] = p.get("type")
            e["get_mode"], e["set_mode"], e["unset_mode"] = p.get("get_mode"), p.get("set_mode"), p.get("unset_mode")
        evs.append(e)
    msg = str(getattr(rec, "last_exc", ""))[:200] if kind == "exc" else ""
    return {"result": [kind, val], "msg": msg, "events": evs, "wall": round(time.time() - t0, 2)}


def _observe_job(args):
    root, case = args
    os.environ["I2N_TOOLS_SCRATCH_ROOT"] = root
    import logging
    logging.disable(logging.CRITICAL)
    try:
        return observe(case)
    except Exception:
        import traceback
        return {"crash": traceback.format_exc()[-1500:]}


def observe_all(ctx, cases, procs=8):
    if len(cases) == 1:
        import logging
        logging.disable(logging.CRITICAL)
        return [observe(cases[0])]
    root = ctx.mkscratch()
    mp = multiprocessing.get_context("fork")
    with mp.Pool(min(procs, len(cases)), maxtasksperchild=4) as pool:
        obs = pool.map(_observe_job, [(root, c) for c in cases], chunksize=1)
    for o in obs:
        if "crash" in o:
            raise RuntimeError("harness crash in a worker process: " + o["crash"])
    return obs


# -- spec oracle -----------------------------------------------------------------------------------------------------

def infix(q, l):
    return any(l[i:i + len(q)] == q for i in range(len(l) - len(q) + 1))


def test_class(name):
    """worker independent identity of a test: the part of the name before the objects"""
    n = name.split(".vms.")[0]
    return re.sub(r"^(all|nonleaves|leaves|normal\.gui|normal\.nongui|normal|minimal)\.", "", n)


def variant_of(text, vm):
    """the variant of `vm` a node name / component form is composed with (its first variant component, e.g. qemu_kvm_centos)"""
    m = re.search(rf"(?:^|\.){vm}\.([A-Za-z0-9_]+)", text or "")
    return m.group(1) if m else ""


def state_node(g, state, vm):
    """the node(s) of the graph that produce `state` for `vm` (install: the vm's object root)"""
    if state == "install":
        return [i for i, n in enumerate(g["nodes"]) if n["object_root"] and vm in re.split(r"[-.]", n["object_root"])]
    return [i for i, n in enumerate(g["nodes"]) if infix(state.split("."), n["name"].split(".")) and vm in n["vms"]]


def descendants(g, i):
    seen, todo = set(), list(g["nodes"][i]["children"])
    while todo:
        j = todo.pop()
        if j not in seen:
            seen.add(j)
            todo += g["nodes"][j]["children"]
    return seen


def ancestors_or_self(g, i):
    seen, todo = set(), [i]
    while todo:
        j = todo.pop()
        if j not in seen:
            seen.add(j)
            todo += g["nodes"][j]["parents"]
    return seen


def states_of(case, vm):
    return (case.get("from", {}).get(vm) or "install", case.get("to", {}).get(vm) or "customize")


def judge(ctx, case, obs):
    def bad(key, what):
        ctx.violate(key, what, {"kind": "c15", "case": case})
    kind, val = obs["result"]
    if kind == "overflow":
        bad("update-livelock", "update did not terminate (event overflow)")
        return
    graphs = [g for e in obs["events"] if e["k"] == "graphs" for g in e["graphs"]]
    starts = [e for e in obs["events"] if e["k"] == "start"]
    doors = [e for e in obs["events"] if e["k"] == "door"]
    sel = sorted(case["vms"])
    if case.get("expect") == "reject":
        ctx.count("oracle.reject")
        if kind != "exc":
            bad("unknown-state-accepted", f"update with states {case.get('from')}..{case.get('to')} returned {val}")
        if starts or [d for d in doors if d["do"] == "unset"]:
            bad("unknown-state-side-effects", f"update was rejected ({val}) after {len(starts)} tests / "
                f"{len(doors)} state requests")
        return
    rejected = [e for e in obs["events"] if e["k"] == "rejected-graph"]
    if kind == "exc" and val == "ValueError" and rejected and case.get("expect") != "any":
        # rejected although both states were meant to exist: legitimate only if the state really is not (uniquely)
        # in the remove-set graph of that vm and worker; and nothing may have happened
        r = rejected[-1]
        gvm = r["graph"]["vm"]        # the vm whose iteration built this graph (not the name the call was given)
        frm, to = states_of(case, gvm)
        hits_to, hits_from = state_node(r["graph"], to, gvm), state_node(r["graph"], frm, gvm)
        ok = len(hits_to) != 1 or len(hits_from) != 1
        ctx.count("oracle.rejected-state-absent" if ok else "oracle.rejected-state-present")
        if not ok:
            bad("known-state-rejected", f"update rejected ({obs['msg'][:80]}) although {gvm}'s to_state {to} and "
                f"from_state {frm} are produced by the unique nodes {hits_to}, {hits_from} of its graph on {r['graph']['worker']}")
        if starts or [d for d in doors if d["do"] == "unset"]:
            bad("unknown-state-side-effects", f"update was rejected after {len(starts)} tests")
        return
    if kind != "ret":
        if case.get("expect") == "any":
            ctx.count("oracle.skipped-exc")
            return
        bad("update-raised", f"update raised {val}: {obs['msg']}")
        return
    # the remove-set graph of a vm is parsed from THAT vm's remove set: `remove_set_<vm>` if given, else `remove_set`, else
    # `leaves`, completed by `all..` when it names no main restriction (read off the parser calls, independent of the graphs)
    for e in obs["events"]:
        if e["k"] == "pot" and not e.get("shared") and e.get("vm") in sel:
            rs = (case.get("remove_set_vm") or {}).get(e["vm"]) or case.get("remove_set") or "leaves"
            if not any(m in rs for m in MAIN_RESTRICTIONS):
                rs = "all.." + rs
            ctx.count("oracle.remove-set." + ("per-vm" if (case.get("remove_set_vm") or {}).get(e["vm"]) else "global"))
            if (e.get("restr") or "").strip() != "only " + rs:
                bad("remove-set-of-another-scope", f"{e['vm']} on {e['worker']}: the remove-set graph was parsed from "
                    f"{(e.get('restr') or '').strip()!r}, the vm's remove set is {rs!r}")
    # every selected vm is handled on every selected worker (unless the parser has nothing for that worker)
    empty = {(e["vm"], e["worker"]) for e in obs["events"] if e["k"] == "pot" and e["exc"]}
    have = {(g["vm"], g["worker"]) for g in graphs}
    for vm in sel:
        for w in case["nets"]:
            if (vm, w) not in have and (vm, w) not in empty:
                bad("worker-skipped", f"no remove-set graph was flagged for {vm} on {w}")
    # expected executions and removals from the parsed graphs (plain graph search)
    want_exec, want_unset = set(), set()
    for g in graphs:
        vm = g["vm"]
        frm, to = states_of(case, vm)
        # a selected vm may stand for several variants (no restriction): the path is updated for each of them
        variants = sorted({variant_of(cf, vm) for n in g["nodes"] for cf in n["cfs"] if cf.startswith(vm + ".")})
        ctx.count(f"oracle.variants={len(variants)}")
        for var in variants:
            def of_var(i):
                return any(cf.startswith(vm + ".") and variant_of(cf, vm) == var for cf in g["nodes"][i]["cfs"])
            tn, fn = [i for i in state_node(g, to, vm) if of_var(i)], [i for i in state_node(g, frm, vm) if of_var(i)]
            if len(tn) != 1 or len(fn) != 1:
                bad("state-not-unique-accepted", f"{vm}/{var}@{g['worker']}: to_state {to} -> nodes {tn}, from_state {frm} -> "
                    f"{fn}, yet update went ahead")
                return
            tn, fn = tn[0], fn[0]
            anc_to, anc_from = ancestors_or_self(g, tn), ancestors_or_self(g, fn)
            if fn not in anc_to:
                ctx.count("oracle.from-not-before-to")
                return      # outside the quantifier (from_state is not on the way to to_state)
            path = {i for i in anc_to if i not in anc_from or i == fn}
            for i in path:
                if not g["nodes"][i]["shared_root"]:
                    want_exec.add((vm, var, test_class(g["nodes"][i]["name"])))
            for i in descendants(g, tn):
                n = g["nodes"][i]
                if n["cloned"]:
                    continue
                for svm, st, key in n["sets"]:
                    if svm == vm:
                        want_unset.add((g["worker"], vm, var, st))
                    else:
                        # a dependant that saves a state of ANOTHER vm: the property forbids touching it
                        pass
    got_exec = []
    for e in starts:
        vms = (e["vms"] or "").split()
        cls = test_class(e["name"])
        if e["type"] == "shared_configure_install":
            continue     # the configuration half of the two-step install (same test id as the install)
        for vm in vms:
            got_exec.append((vm, variant_of(e["name"], vm), cls))
        if e["worker"] != e["nets"] or e["nets"] not in case["nets"]:
            bad("foreign-worker", f"test of {e['nets']} executed by {e['worker']}")
        if (e["get_mode"], e["set_mode"], e["unset_mode"]) != ("ra", "ff", "fi"):
            bad("update-modes", f"{e['shortname']} ran with get/set/unset modes {(e['get_mode'], e['set_mode'], e['unset_mode'])}")
    if sorted(got_exec) != sorted(want_exec):
        miss = sorted(want_exec - set(got_exec))
        extra = sorted(set(got_exec) - want_exec)
        dup = sorted({x for x in got_exec if got_exec.count(x) > 1})
        key = ("executed-other-vm" if any(x[0] not in sel for x in extra) else
               "executed-off-path" if extra else "path-test-not-executed" if miss else "path-test-executed-twice")
        bad(key, f"executed {sorted(got_exec)}; path from_state..to_state = {sorted(want_exec)} "
                 f"(missing {miss}, extra {extra}, repeated {dup})")
    got_unset = []
    for d in doors:
        if d["do"] != "unset":
            continue
        for suffix, r in d["reqs"].items():
            vm = suffix.split("_")[-1]
            got_unset.append((d["nets"], vm, variant_of(d.get("name") or "", vm), r["state"]))
            if r["mode"][:1] != "f":
                bad("unset-mode", f"unset of {r['state']} with mode {r['mode']}")
    if sorted(got_unset) != sorted(want_unset):
        miss = sorted(want_unset - set(got_unset))
        extra = sorted(set(got_unset) - want_unset)
        dup = sorted({x for x in got_unset if got_unset.count(x) > 1})
        key = ("removed-other-vm" if any(x[1] not in sel for x in extra) else
               "removed-not-derived" if extra else "derived-state-kept" if miss else "removed-twice")
        bad(key, f"removed {sorted(got_unset)}; states derived from to_state on every worker = {sorted(want_unset)} "
                 f"(missing {miss}, extra {extra}, repeated {dup})")
    ctx.count(f"oracle.exec={len(want_exec)}")
    ctx.count(f"oracle.unset={len(want_unset)}")


# -- model comparison ------------------------------------------------------------------------------------------------

def model_lines(ctx, case, obs):
    lines, expect = [], []
    graphs = {g["gid"]: g for e in obs["events"] if e["k"] == "graphs" for g in e["graphs"]}
    pots = [e for e in obs["events"] if e["k"] == "pot"]
    # group the flagging calls by remove-set graph, in program order
    order, calls = [], {}
    for e in obs["events"]:
        if e["k"] == "pot" and not e["shared"] and e["exc"] is None:
            order.append(e["gid"])
            calls[e["gid"]] = {"pot": e, "fi": [], "fc": []}
        elif e["k"] in ("fi", "fc") and e["gid"] in calls:
            calls[e["gid"]][e["k"]].append(e)
    kind, val = obs["result"]
    for gi, gid in enumerate(order):
        c = calls[gid]
        g = graphs.get(gid)
        vm, worker = c["pot"]["vm"], c["pot"]["worker"]
        frm, to = states_of(case, vm)
        if g is None:
            # update raised before the traversal: the graph was not extracted; only the last group can be the culprit
            ctx.count("model.graph-not-extracted")
            continue
        # well-formedness of the model's reading of the two regexes
        names = [n["name"] for n in g["nodes"]]
        for n in g["nodes"]:
            for cf, hit in n["rx"].items():
                if hit != (cf in n["cfs"]):
                    ctx.count("wf.worker-regex-differs")
                    ctx.notes.append(f"worker regex differs from attribute test on {n['name']} / {cf}")
            for other in [x["other"] for x in c["fi"]]:
                for nm in other:
                    if bool(re.search(n["setless"] + "$", nm)) != nm.endswith(n["setless"]):
                        ctx.count("wf.suffix-regex-differs")
        ctx.count("wf.graphs")
        lines.append("ureset")
        expect.append("ok")
        for n in g["nodes"]:
            fl = ("s" if n["shared_root"] else "") + ("c" if n["cloned"] else "") or "-"
            sets = ",".join(f"{a}:{b}" for a, b, _ in n["sets"]) or "-"
            lines.append("\t".join(["unode", n["name"], n["setless"], " ".join(n["vms"]), g["worker"], " ".join(n["cfs"]),
                                    n["object_root"] or "-", fl, sets, " ".join(map(str, n["children"]))]))
            expect.append("ok")
        cfs = []
        for x in c["fc"]:
            cf = x["wname"][:-len(".*" + worker)] if x["wname"].endswith(".*" + worker) else x["wname"]
            if cf not in cfs:
                cfs.append(cf)
        others = [x for x in c["fi"] if not x["same"]]
        run_names = others[0]["other"] if others else []
        skip_names = others[1]["other"] if len(others) > 1 else []
        lines.append("\t".join(["update", vm, worker, " ".join(cfs), frm, to, "1", " ".join(run_names),
                                " ".join(skip_names)]))
        expect.append("ok\trun=" + "".join(n["run"] for n in g["nodes"]) + "\tclean=" + "".join(n["clean"] for n in g["nodes"]))
    return lines, expect


def compare(ctx, cases, observations):
    lines, expect, owner = [], [], []
    for ci, (case, obs) in enumerate(zip(cases, observations)):
        l, e = model_lines(ctx, case, obs)
        lines += l
        expect += e
        owner += [ci] * len(l)
    if not lines:
        return
    out = toolslib.run_driver(lines)
    seen = set()
    for ci, want, got, line in zip(owner, expect, out, lines):
        if want != got and ci not in seen:
            seen.add(ci)
            ctx.disagree("tools:update", {"kind": "c15", "case": cases[ci], "line": line[:200]}, got[:1500], want[:1500])


# -- generators ------------------------------------------------------------------------------------------------------

def gen_sched(rng, nets):
    return {w: [[rng.choice([1, 1, 2, 3, 5]), "PASS"] for _ in range(rng.randint(1, 3))] for w in nets}


def mk_case(rng, vms, nets, frm_to, remove_set=None):
    return {"vms": {vm: None for vm in vms}, "nets": nets, "from": {vm: ft[0] for vm, ft in frm_to.items()},
            "to": {vm: ft[1] for vm, ft in frm_to.items()}, "remove_set": remove_set, "sched": gen_sched(rng, nets)}


def gen_cases(rng, thorough):
    cases = []
    if not thorough:
        # 12 combinations: every position of (from, to) on the chains, 1-3 workers, 1-2 vms, several remove sets
        plan = [(["vm1"], 1, {"vm1": ("install", "customize")}, None),
                (["vm1"], 2, {"vm1": ("customize", "connect")}, None),
                (["vm2"], 1, {"vm2": ("install", "install")}, None),
                (["vm2"], 2, {"vm2": ("customize", "customize")}, "tutorial_gui"),
                (["vm3"], 1, {"vm3": ("customize", "connect")}, "leaves"),
                (["vm1"], 3, {"vm1": ("connect", "connect")}, "tutorial_get"),
                (["vm1", "vm2"], 1, {"vm1": ("customize", "connect"), "vm2": ("install", "customize")}, None),
                (["vm2"], 1, {"vm2": ("install", "windows_virtuser")}, None),
                (["vm1"], 1, {"vm1": ("install", "customize")}, "minimal"),
                (["vm3"], 2, {"vm3": ("install", "on_customize")}, None),
                # a target provided by a test of a NESTED test set (normal.gui...) with that set as the remove set: the node
                # names of the remove-set graph then carry two set variants in front of the test
                (["vm2"], 2, {"vm2": ("windows_virtuser", "tutorial_gui.client_clicked")}, "normal"),
                (["vm2"], 1, {"vm2": rng.choice([("customize", "tutorial_gui.client_noop"),
                                                 ("install", "tutorial_gui.client_noop")])}, "normal"),
                # a worker that cannot provide the vm variant (net5: only_vm1 = Fedora) listed BEFORE compatible ones:
                # it is skipped, the workers after it are still updated
                (["vm1"], rng.choice([["net1", "net5", "net2"], ["net5", "net1"], ["net5", "net2", "net1"]]),
                 {"vm1": rng.choice([("customize", "customize"), ("install", "customize")])}, None)]
        for vms, nw, ft, rs in plan:
            nets = list(nw) if isinstance(nw, list) else rng.sample(NETS, nw)
            cases.append(mk_case(rng, vms, nets, ft, rs))
        # a selected vm without restriction stands for all of its variants: the path is updated for each variant
        c = mk_case(rng, ["vm1"], rng.sample(NETS, 2), {"vm1": rng.choice([("customize", "linux_virtuser"),
                                                                           ("customize", "customize")])}, None)
        c["vms"]["vm1"] = ""
        cases.append(c)
        # a remove set given per vm (object-suffixed) that differs from the global / default one
        c = mk_case(rng, ["vm1", "vm2"], rng.sample(NETS, rng.choice([1, 2])),
                    {"vm1": ("install", "customize"), "vm2": ("install", "customize")}, None)
        c["remove_set_vm"] = {"vm1": "minimal"}
        cases.append(c)
    else:
        combos = []
        for vm in ("vm1", "vm2", "vm3"):
            for ft in pairs(vm):
                for nw in (1, 2, 3):
                    combos.append(([vm], nw, {vm: ft}))
        rng.shuffle(combos)
        for vms, nw, ft in combos[:96]:
            # mostly the default remove set (a narrower one often does not contain the state: rejected, which the
            # oracle verifies but which exercises nothing else)
            rs = None if rng.random() < 0.7 else rng.choice(REMOVE_SETS)
            nets = rng.sample(NETS, nw)
            if vms == ["vm1"] and rng.random() < 0.3:
                nets.insert(rng.randrange(len(nets)), "net5")      # incompatible with the default CentOS vm1
            c = mk_case(rng, vms, nets, ft, rs)
            if vms == ["vm1"] and "net5" not in nets and rng.random() < 0.25:
                c["vms"]["vm1"] = ""          # all variants of vm1 (CentOS, Fedora)
            cases.append(c)
        for nw in (1, 2, 3):
            for ft in (("windows_virtuser", "tutorial_gui.client_clicked"), ("customize", "tutorial_gui.client_noop"),
                       ("install", "tutorial_gui.client_clicked")):
                cases.append(mk_case(rng, ["vm2"], rng.sample(NETS, nw), {"vm2": ft}, rng.choice(["normal", "normal", "leaves"])))
        for _ in range(24):
            vms = sorted(rng.sample(["vm1", "vm2", "vm3"], rng.choice([2, 2, 3])))
            ft = {vm: rng.choice(pairs(vm)) for vm in vms}
            c = mk_case(rng, vms, rng.sample(NETS, rng.choice([1, 1, 2])), ft,
                        None if rng.random() < 0.7 else rng.choice(REMOVE_SETS[:4]))
            if rng.random() < 0.4:
                c["remove_set_vm"] = {rng.choice(vms): rng.choice(["minimal", "leaves", "tutorial1"])}
            cases.append(c)
    # unknown states are rejected
    rej = [(["vm1"], {"vm1": ("install", "nosuchstate")}), (["vm1"], {"vm1": ("nosuchstate", "customize")})]
    if thorough:
        rej += [(["vm2"], {"vm2": ("install", "connect")}), (["vm1", "vm2"], {"vm1": ("install", "customize"),
                                                                             "vm2": ("customize", "nosuchstate")})]
    for vms, ft in rej:
        c = mk_case(rng, vms, [rng.choice(NETS)], ft, None)
        c["expect"] = "reject"
        cases.append(c)
    # outside the quantifier (model comparison only): from_state below to_state, a state outside the remove set
    c = mk_case(rng, ["vm1"], ["net1"], {"vm1": ("connect", "customize")}, None)
    c["expect"] = "any"
    cases.append(c)
    return cases


# -- entry points ----------------------------------------------------------------------------------------------------

def run_cases(ctx, cases, procs=8, model=True):
    observations = observe_all(ctx, cases, procs=procs)
    for case, obs in zip(cases, observations):
        n_tests = sum(1 for e in obs["events"] if e["k"] == "start")
        n_unset = sum(1 for e in obs["events"] if e["k"] == "door" and e["do"] == "unset")
        ctx.case({"vms": sorted(case["vms"]), "nets": case["nets"], "from": case["from"], "to": case["to"],
                  "remove_set": case["remove_set"], "tests": n_tests, "unsets": n_unset, "result": obs["result"]},
                 nontrivial=n_tests > 0)
        ctx.count(f"workers={len(case['nets'])}")
        ctx.count(f"vms={len(case['vms'])}")
        ctx.count(f"remove_set={case['remove_set']}")
        ctx.count(f"result.{obs['result'][0]}.{obs['result'][1]}")
        for vm in case["vms"]:
            ctx.count(f"pair.{case['from'][vm]}..{case['to'][vm]}")
        judge(ctx, case, obs)
    if model:
        compare(ctx, cases, observations)
    ctx.extra["wall_real_code_s"] = round(sum(o["wall"] for o in observations), 1)
    return observations


def correspondence(ctx):
    thorough = ctx.tier == "thorough" or ctx.extra.get("drift")
    ctx.rule = ("one case = vm selection (1-3 vms), per vm a (from_state, to_state) pair along its setup chain, a "
                "remove_set, 1-3 workers of net1..net4 and a per-worker schedule of test durations; real "
                "intertest_setup.update on the shipped suite; non-trivial = at least one test executed; distinct by "
                "content hash")
    corpus = os.path.join(vlib.VERIF, "corpus", "C15")
    cases = []
    if os.path.isdir(corpus):
        for f in sorted(os.listdir(corpus)):
            cases.append(json.load(open(os.path.join(corpus, f))))
    cases += gen_cases(ctx.rng, thorough)
    try:
        run_cases(ctx, cases, procs=14 if thorough else 10)
    finally:
        toolslib.cleanup()


def search(ctx, reason):
    cases = gen_cases(ctx.rng, True)[:60]
    try:
        run_cases(ctx, cases, procs=14, model=False)
    finally:
        toolslib.cleanup()


def replay(ctx, payload):
    c = payload["case"]
    case = c.get("case", c)
    try:
        run_cases(ctx, [case], procs=1)
    finally:
        toolslib.cleanup()
