"""Mutation sanity for C11 (development aid, not part of ./check): copies /repo/avocado_i2n/cmd_parser.py to a scratch
dir, applies ONE small edit that keeps /repo's selftests green, and runs the C11 check against the mutated module
(I2N_C11_MUTANT is read by harness/props/c11.py:impl).  Usage: /venv/bin/python harness/props/c11_mutate.py [name...]"""
import json
import os
import shutil
import subprocess
import sys
import tempfile

HERE = os.path.dirname(os.path.dirname(os.path.dirname(os.path.abspath(__file__))))
SRC = os.path.join(os.environ.get("I2N_REPO", "/repo"), "avocado_i2n", "cmd_parser.py")

MUTANTS = {
    # forgotten case: a primary restriction given with no= does not escape the default any more
    "no-keeps-default": ("                if variant in available_restrictions:\n",
                         "                if variant in available_restrictions and key == \"only\":\n"),
    # off by one: only the first vm of vms= is validated
    "vms-first-only": ("            for vm_name in with_selected_vms:\n                if vm_name not in available_vms:",
                       "            for vm_name in with_selected_vms[:1]:\n                if vm_name not in available_vms:"),
    # forgotten update: commas of a plain K=V are no longer turned into spaces
    "kv-keeps-commas": ("            # NOTE: comma on the command line is space in a config file\n"
                        "            value = value.replace(\",\", \" \")\n",
                        "            # NOTE: comma on the command line is space in a config file\n"),
    # wrong scope: only only_vmX (not no_vmX) lifts the vm default
    "no-vm-keeps-default": ("                        use_vms_default[vm_name] = False\n",
                            "                        use_vms_default[vm_name] = not key.startswith(\"only_\")\n"),
    # changed regex: a primary restriction inside a dotted value is no longer seen
    "split-without-dot": ("re.split(r\",|\\.|\\.\\.\", value)", "re.split(r\",|\\.\\.\", value)"),
    # reordered statements: the default primary restriction is put in front and the typed ones are dropped
    "default-first": ("        tests_str += \"only %s\\n\" % default\n", "        tests_str = \"only %s\\n\" % default\n"),
    # swapped comparison in the conflict guard
    "conflict-guard-swapped": ("            if nets_str != \"\":\n", "            if nets_str == \"\" and \"nets\" in param_dict:\n"),
    # regression to the code before /repo 893de05: the conflict is only checked in the nets= branch
    "regress-nets-order": ("                if nets_str != \"\" and explicit_nets is not None:\n",
                           "                if False:\n"),
    # regression to the code before /repo 6e359ac: object restriction keys matched by prefix
    "regress-prefix-match": [("if re.fullmatch(\"(only|no)_nets\", key):", "if re.match(\"(only|no)_nets\", key):"),
                             ("if re.fullmatch(f\"(only|no)_{vm_name}\", key):",
                              "if re.match(f\"(only|no)_{vm_name}\", key):")],
}


def main():
    names = sys.argv[1:] or list(MUTANTS)
    src = open(SRC).read()
    out = {}
    for name in names:
        edits = MUTANTS[name] if isinstance(MUTANTS[name], list) else [MUTANTS[name]]
        mutated = src
        for old, new in edits:
            assert mutated.count(old) == 1, f"{name}: pattern occurs {mutated.count(old)} times"
            mutated = mutated.replace(old, new)
        d = tempfile.mkdtemp(prefix="i2n-verif-mut-")
        path = os.path.join(d, "cmd_parser.py")
        open(path, "w").write(mutated)
        env = dict(os.environ, I2N_C11_MUTANT=path, VERIF_SEED=os.environ.get("VERIF_SEED", "1"))
        p = subprocess.run([os.path.join(HERE, "check"), "C11", "--tier", "quick", "--no-build"], env=env,
                           stdout=subprocess.PIPE, stderr=subprocess.STDOUT, text=True)
        keys = []
        for line in p.stdout.splitlines():
            if line.startswith("VIOLATION") and "replay=" in line:
                f = line.split("replay=")[1].split()[0]
                r = json.load(open(f))
                keys.append(r.get("key") or ("no-failing-input-found: " + str(r.get("names"))[:120]))
        ev = json.load(open(os.path.join(HERE, "evidence", "C11.json")))
        out[name] = {"exit": p.returncode, "violations": keys,
                     "disagreements": ev["coverage"]["disagreements_model_vs_impl"]}
        print(name, json.dumps(out[name]))
        shutil.rmtree(d, ignore_errors=True)
    return out


if __name__ == "__main__":
    main()
