"""C18 — the vm network model stays consistent and its address arithmetic is exact (engine E4 `net`)."""
import ipaddress
import os
import shutil
import tempfile
import unittest.mock as mock

import vlib

PROP = "C18"
ENGINE = "net"
TARGETS = ["I2N.Props.C18", "drv_net"]
PROPS_FILE = "I2N/Props/C18.lean"
ANCHORS = {
    "avocado_i2n/vmnet/network.py": ["VMNetwork.__init__", "VMNetwork.integrate_node", "VMNetwork.reattach_interface"],
    "avocado_i2n/vmnet/netconfig.py": [
        "VMNetconfig.mask_bit", "VMNetconfig._get_network_ip", "VMNetconfig.from_interface",
        "VMNetconfig.add_interface", "VMNetconfig.has_interface", "VMNetconfig.can_add_interface",
        "VMNetconfig.validate", "VMNetconfig.get_allocatable_address", "VMNetconfig.translate_address",
        "VMNetconfig.ip_start", "VMNetconfig.ip_end"],
    "avocado_i2n/vmnet/interface.py": ["VMInterface.__init__"],
    "avocado_i2n/vmnet/node.py": ["VMNode.__init__"],
}
TRUSTED = [
    "modelled, not verified: Python's ipaddress module (the model re-derives the arithmetic; agreement is checked "
    "on every run, exhaustively over the 33 prefix lengths); virttest Params.objects/object_params (used to feed "
    "the real VMNetwork exactly as selftests/isolation/test_vm_network.py does)",
    "interfaces of all vms are created before the first is attached in the model (integrate_node creates them per "
    "vm); unobservable because unattached interfaces are never read",
    "after a reattach that raised, the case ends (the real objects are left half-updated; not modelled)",
    "translator tie (lean/I2N/Extracted/GenNet.lean): harness/pygen.py, the cuts and the atom table of "
    "harness/pygen_pxnet.py (addresses / dotted strings / int(address) are one number; ipaddress.IPv4Address(<int>) is the "
    "range check `ipv4`; network_address / `in network` are the hand model's networkIp / inNet; bin().zfill(), "
    "rstrip('0'), split('.') are the list functions printed in the prelude of the generated file)",
    "translator tie of avocado_i2n/vmnet/network.py (lean/I2N/Extracted/GenNetwork.lean): the pinned head of "
    "reattach_interface (nic roles -> the interface objects c, r; a nic name of the server is the id of the object "
    "registered under it, the empty name is registered nowhere), the pinned tail (self.params updates), the pinned "
    "guards / first loop of integrate_node (new interface objects first..first+count-1), the heap primitives of the "
    "prelude (ncOf, ipOf, delIfs, allocM, setIp, setNcRef, newNetconfig, fromInterfaceM, registerNc) that every pinned "
    "statement is spelled with; validate: the dictionary `addresses` with distinct constant keys is the list of its "
    "values, `assert X` is `if not X: raise AssertionError`, ip_start / ip_end use the hand model's minOff / maxOff",
]


def extract(ctx):
    """second tie: the decision logic of avocado_i2n/vmnet/netconfig.py (get_allocatable_address, has_interface,
    can_add_interface, add_interface, translate_address, the getter of mask_bit, validate) and of
    VMNetwork.reattach_interface / integrate_node / __init__ (avocado_i2n/vmnet/network.py) translated to Lean from the CURRENT source by harness/pygen_pxnet.py (raises
    pygen.Unsupported when a function left the translated subset / a pinned statement changed; run.py records that as
    a proof problem and searches for a failing input)"""
    import pygen_pxnet
    if pygen_pxnet.extract_net(ctx):
        ctx.notes.append("I2N/Extracted/GenNet.lean / GenNetwork.lean changed: the source of avocado_i2n/vmnet/netconfig.py / network.py "
                         "differs from the one the committed file was generated from (allocate_matches_source, "
                         "hasInterface_matches_source, canAdd_matches_source, addInterface_matches_source, "
                         "translate_matches_source, maskBit_matches_source, validate_matches_source, "
                         "reattach_matches_source, integrateNode_matches_source, init_matches_source are re-checked)")
    ctx.extra["regenerated"] = ("lean/I2N/Extracted/GenNet.lean (VMNetconfig.get_allocatable_address, has_interface, "
                                "can_add_interface, add_interface, translate_address, mask_bit getter, validate), "
                                "lean/I2N/Extracted/GenNetwork.lean (VMNetwork.reattach_interface, integrate_node, __init__) via "
                                "harness/pygen_pxnet.py + harness/pygen.py; obligations validate_matches_source, "
                                "reattach_matches_source, integrateNode_matches_source (place_, findNc_, placeAll_), "
                                "init_matches_source")


MAXV = 3   # violations recorded per key (every occurrence is counted in the distribution)

_scr = None


def scratch():
    global _scr
    if _scr is None or not os.path.isdir(_scr):
        _scr = tempfile.mkdtemp(prefix="i2n-verif-c18-")
    return _scr


def cleanup():
    global _scr
    if _scr and os.path.isdir(_scr):
        os.chdir("/")
        shutil.rmtree(_scr, ignore_errors=True)
    _scr = None


# the real code under test; MODS lets the mutation sanity runs substitute a patched copy of one module
MODS = {}


def impl():
    os.chdir(scratch())
    if not MODS:
        from avocado_i2n.vmnet import network, netconfig, interface
        from avocado.core import exceptions
        from virttest import utils_params
        MODS.update(network=network, netconfig=netconfig, interface=interface, exceptions=exceptions,
                    Params=utils_params.Params)
    return MODS


def ipstr(n):
    # (a broken mask arithmetic can push a computed address out of range: still printable, never a crash of the check)
    return str(ipaddress.IPv4Address(n)) if 0 <= n < 2 ** 32 else f"<out-of-range:{n}>"


def errname(e):
    m = impl()
    if isinstance(e, IndexError):
        return "indexError"
    if isinstance(e, KeyError):
        return "keyError"
    if isinstance(e, m["exceptions"].TestError):
        return "testError"
    if isinstance(e, AssertionError):
        return "assertion"
    if isinstance(e, ValueError):
        return "valueError"
    raise e


# -- building the real VMNetwork the way test_vm_network.py does ---------------------------------

def flat(spec):
    """[(vm, nic, nicdict)] in creation order"""
    out = []
    for vi, nics in enumerate(spec["vms"]):
        for ni, nic in enumerate(nics):
            out.append((f"vm{vi + 1}", f"n{ni + 1}", nic))
    return out


def mkparams(spec):
    p = impl()["Params"]()
    p["vms"] = " ".join(f"vm{vi + 1}" for vi in range(len(spec["vms"])))
    p["mac"] = "00:00:00:00:00:00"
    for vi, nics in enumerate(spec["vms"]):
        p[f"nics_vm{vi + 1}"] = " ".join(f"n{ni + 1}" for ni in range(len(nics)))
    for vm, nic, d in flat(spec):
        p[f"ip_{nic}_{vm}"] = ipstr(d["ip"])
        p[f"netmask_{nic}_{vm}"] = ipstr(d["mask"])
        p[f"netdst_{nic}_{vm}"] = f"br_{nic}_{vm}"
        p[f"range_{nic}_{vm}"] = f"{d['lo']}-{d['hi']}"
        if d.get("host") is not None:
            p[f"host_{nic}_{vm}"] = ipstr(d["host"])
        p[f"role_{nic}"] = nic
    return p


def mknet(spec):
    m = impl()
    params = mkparams(spec)
    vms = {}
    env = mock.MagicMock(name="env")
    env.get_vm = mock.MagicMock(side_effect=lambda name: vms.get(name))

    def create_vm(vm_type, target, vm_name, vm_params, bindir):
        vm = mock.MagicMock(name=vm_name)
        vm.name = vm_name
        vm.params = vm_params
        vms[vm_name] = vm
        return vm
    env.create_vm = mock.MagicMock(side_effect=create_vm)
    net = m["network"].VMNetwork(params, env)
    return net, vms


def impl_dump(net):
    ifs = list(net.interfaces.values())
    idx = {id(i): k for k, i in enumerate(ifs)}
    ncs = []
    for key, nc in net.netconfigs.items():
        taken = ",".join(str(o) for o, t in nc.range.items() if t)
        members = ",".join(f"{int(ipaddress.IPv4Address(ip))}={idx[id(i)]}" for ip, i in nc.interfaces.items())
        ncs.append(f"{int(ipaddress.IPv4Address(key))}:{int(ipaddress.IPv4Address(nc.net_ip))}/"
                   f"{int(ipaddress.IPv4Address(nc.netmask))}/{nc.mask_bit}:{taken}:{members}")
    out = []
    for k, i in enumerate(ifs):
        nc = i.netconfig
        if nc is None:
            out.append(f"{k}:{int(ipaddress.IPv4Address(i.ip))}:none")
            continue
        reg = any(nc is x for x in net.netconfigs.values())
        listed = nc.interfaces.get(i.ip) is i
        out.append(f"{k}:{int(ipaddress.IPv4Address(i.ip))}:{int(ipaddress.IPv4Address(nc.net_ip))}/"
                   f"{int(ipaddress.IPv4Address(nc.netmask))}:{1 if reg else 0}:{1 if listed else 0}")
    return ";".join(ncs) + " | " + ";".join(out)


# -- the spec oracle (independent of the Lean model: object identity + ipaddress) ------------------

def contiguous(mask):
    inv = (~mask) & 0xFFFFFFFF
    return (inv & (inv + 1)) == 0


def inv_problems(net):
    """The registry invariant of the property text, checked on the real objects.
    Returns [(kind, names of the interfaces concerned, text)]."""
    probs = []
    ifs = list(net.interfaces.items())
    for name, i in ifs:
        holders = [nc for nc in net.netconfigs.values() if any(v is i for v in nc.interfaces.values())]
        if len(holders) != 1:
            probs.append(("membership", {name}, f"{name} ({i.ip}) is listed by {len(holders)} registered netconfigs"))
            continue
        nc = holders[0]
        keys = [k for k, v in nc.interfaces.items() if v is i]
        if keys != [i.ip]:
            probs.append(("membership", {name}, f"{name} ({i.ip}) is listed under {keys} in {nc.net_ip}"))
        if i.netconfig is not nc:
            probs.append(("membership", {name}, f"{name}.netconfig is not the netconfig listing it"))
        network = ipaddress.ip_network(f"{nc.net_ip}/{nc.netmask}", strict=False)
        if ipaddress.ip_address(i.ip) not in network:
            probs.append(("subnet", {name}, f"{name} has {i.ip} outside {network}"))
    seen = {}
    for name, i in ifs:
        if i.ip in seen:
            probs.append(("duplicate", {name, seen[i.ip]}, f"{name} and {seen[i.ip]} both have {i.ip}"))
        seen[i.ip] = name
    return probs


def shadowed_inputs(spec):
    """names of the interfaces whose subnet shares its network address with a *later* interface's subnet of a
    different (shorter) prefix: the input class of the nested-subnet finding"""
    fl = flat(spec)
    out = set()
    for a, (vm, nic, d) in enumerate(fl):
        na = ipaddress.ip_network(f"{ipstr(d['ip'])}/{ipstr(d['mask'])}", strict=False)
        for vm2, nic2, d2 in fl[a + 1:]:
            nb = ipaddress.ip_network(f"{ipstr(d2['ip'])}/{ipstr(d2['mask'])}", strict=False)
            if na.network_address == nb.network_address and nb.prefixlen < na.prefixlen:
                out.add(f"{vm}.{nic}")
    return out


def spec_valid(spec):
    """inputs the property speaks about: contiguous masks, pairwise distinct addresses"""
    nics = [d for _, _, d in flat(spec)]
    return all(contiguous(d["mask"]) for d in nics) and len({d["ip"] for d in nics}) == len(nics)


class Judge:
    def __init__(self, ctx):
        self.ctx = ctx
        self.per_key = {}

    def violate(self, key, what, case):
        self.ctx.count("violation." + key)
        self.per_key[key] = self.per_key.get(key, 0) + 1
        if self.per_key[key] <= MAXV:
            self.ctx.violate(key, what, case)


# -- one network case --------------------------------------------------------------------------

def run_net_case(ctx, judge, spec, ops, lines, expect, oracle=True):
    """Runs build + ops on the real code, appends the driver lines and expected answers.
    ops: ('alloc', k) — k-th registry key (mod size) | ('reattach', c, r, p|None) with interface ids."""
    m = impl()
    case = {"kind": "net", "spec": spec, "ops": [list(o) for o in ops]}
    fl = flat(spec)
    lines.append("reset")
    expect.append((case, "reset", "ok"))
    for vm, nic, d in fl:
        host = "-" if d.get("host") is None else d["host"]
        lines.append(f"iface {d['ip']} {d['mask']} {host} {d['lo']} {d['hi']}")
        expect.append((case, "iface", "ok"))
    valid = spec_valid(spec) and oracle
    ctx.count(f"net.vms={len(spec['vms'])}")
    ctx.count(f"net.ifaces={len(fl)}")
    ctx.count("net.input." + ("valid" if spec_valid(spec) else "malformed"))
    lines.append("build")
    try:
        net, vms = mknet(spec)
    except Exception as e:
        en = errname(e)
        ctx.count("build.error." + en)
        expect.append((case, "build", "error:" + en))
        ctx.case(case, nontrivial=len(fl) > 1)
        return
    ctx.count("build.ok")
    ctx.count(f"build.netconfigs={len(net.netconfigs)}")
    expect.append((case, "build", "ok " + impl_dump(net)))
    judged = valid
    if judged:
        probs = inv_problems(net)
        if probs:
            # the nested-subnet finding explains exactly: interfaces of a replaced netconfig are listed nowhere
            orphans = {n for n, i in net.interfaces.items() if not any(i.netconfig is x for x in net.netconfigs.values())}
            shadowed = shadowed_inputs(spec)
            explained = orphans and all(kind == "membership" and names <= orphans for kind, names, _ in probs) \
                and any(o in shadowed for o in orphans)
            key = "build-nested-subnet-overwrites-netconfig" if explained else "build-registry-inconsistent"
            judge.violate(key, "after VMNetwork(params, env): " + "; ".join(w for _, _, w in probs[:3]), case)
            judged = False
    # allocation bookkeeping per netconfig object: expected hand-out order from ipaddress
    handed = {}

    pools = {}
    for nc in net.netconfigs.values():
        pools[id(nc)] = {str(ipaddress.IPv4Address(nc.net_ip) + o) for o in nc.range}
        handed[id(nc)] = []
    ifs = list(net.interfaces.values())

    def note_alloc(nc, addr, where, k, unseen=False):
        """every address of the range once, then exhaustion (the order is compared with the model only)"""
        if id(nc) not in pools:
            return
        got = handed[id(nc)]
        pool = pools[id(nc)]
        if unseen:            # an address was taken from the pool but is not observable (proxy variant)
            got.append(None)
            return
        if addr is None:      # exhaustion reported
            ctx.count("alloc.exhausted")
            if len(got) != len(pool) and valid:
                judge.violate("alloc-exhausted-early", f"{where}: exhaustion after {len(got)} of {len(pool)} addresses",
                              dict(case, upto=k))
            return
        ctx.count("alloc.ok")
        if valid and (addr not in pool or addr in got):
            judge.violate("alloc-not-every-address-once", f"{where}: handed out {addr} "
                          f"({'again' if addr in got else 'not in the range'})", dict(case, upto=k))
        got.append(addr)

    for k, op in enumerate(ops):
        if op[0] == "alloc":
            keys = list(net.netconfigs.keys())
            key = keys[op[1] % len(keys)]
            nc = net.netconfigs[key]
            lines.append(f"alloc {int(ipaddress.IPv4Address(key))}")
            try:
                a = nc.get_allocatable_address()
                expect.append((case, "alloc", str(int(ipaddress.IPv4Address(a)))))
                note_alloc(nc, a, "get_allocatable_address", k)
            except Exception as e:
                en = errname(e)
                expect.append((case, "alloc", "error:" + en))
                if en == "indexError":
                    note_alloc(nc, None, "get_allocatable_address", k)
        else:
            _, c, r, p = op
            c, r = c % len(ifs), r % len(ifs)
            cvm, cnic, _ = fl[c]
            svm, snic, _ = fl[r]
            # the proxy nic is a nic of the server vm; p indexes the server's nics
            snics = [j for j, (vm, _, _) in enumerate(fl) if vm == svm]
            pj = None if p is None else snics[p % len(snics)]
            lines.append(f"reattach {c} {r} {'-' if pj is None else pj}")
            before = {i.ip for j, i in enumerate(ifs) if j != c}
            taken0 = {(id(x), o) for x in net.netconfigs.values() for o, t in x.range.items() if t}
            target = ifs[r].netconfig
            proxy_eff = pj is not None and pj != r
            ctx.count("reattach.proxy" if proxy_eff else "reattach.plain")
            try:
                net.reattach_interface(vms[cvm], vms[svm], client_nic=f"role_{cnic}", server_nic=f"role_{snic}",
                                       proxy_nic="" if pj is None else fl[pj][1])
            except Exception as e:
                en = errname(e)
                ctx.count("reattach.error." + en)
                expect.append((case, "reattach", "error:" + en))
                break     # the real objects are half-updated now; the case ends
            expect.append((case, "reattach", "ok " + impl_dump(net)))
            ctx.count("reattach.ok")
            note_alloc(target, ifs[c].ip, "reattach_interface", k, unseen=proxy_eff)
            if proxy_eff and ifs[pj].netconfig is not None:
                note_alloc(ifs[pj].netconfig, ifs[c].ip, "reattach_interface(proxy)", k)
            if judged:
                probs = inv_problems(net)
                if probs:
                    what = "; ".join(w for _, _, w in probs[:4])
                    names = list(net.interfaces.keys())
                    # addresses handed out in this step that were in use: their previous owners are evicted
                    new_addrs = {str(ipaddress.IPv4Address(x.net_ip) + o) for x in net.netconfigs.values()
                                 for o, t in x.range.items() if t and (id(x), o) not in taken0}
                    evicted = {names[j] for j, x in enumerate(ifs) if j != c and x.ip in new_addrs and x.ip in before}
                    if proxy_eff:
                        # F8 explains exactly: the client is listed nowhere, the reference interface carries the
                        # proxy interface's address (listed under its old key, outside its subnet, duplicate)
                        listed = ifs[c].netconfig.interfaces.get(ifs[c].ip) is ifs[c]
                        mine = {names[c], names[r], names[pj]} | evicted
                        explained = not listed and all(nm <= mine for _, nm, _ in probs)
                        key = "reattach-proxy-nic-outside-registry" if explained else "reattach-proxy-registry-inconsistent"
                    elif evicted:
                        # the allocator handed out an address in use: the previous owner(s) are evicted/duplicated
                        mine = {names[c]} | evicted
                        explained = all(nm <= mine for _, nm, _ in probs)
                        key = "reattach-allocates-address-in-use" if explained else "reattach-registry-inconsistent"
                    else:
                        key = "reattach-registry-inconsistent"
                    judge.violate(key, f"after reattach_interface({cvm}.{cnic} -> {svm}.{snic}"
                                  f"{', proxy_nic=' + fl[pj][1] if pj is not None else ''}): {what}",
                                  dict(case, upto=k))
                    judged = False
                else:
                    ctx.count("reattach.inv-holds")
    ctx.case(case, nontrivial=len(fl) > 1 and len(ops) > 0)


def run_net_cases(ctx, judge, cases, oracle=True):
    lines, expect = [], []
    for spec, ops in cases:
        run_net_case(ctx, judge, spec, ops, lines, expect, oracle)
    out = vlib.driver("drv_net", lines)
    for (case, op, want), got in zip(expect, out):
        if want != got:
            ctx.disagree(f"net:{op}", case, got, want)
            break


# -- pure arithmetic -------------------------------------------------------------------------------

def mk_netconfig(ip, mask, lo, hi):
    m = impl()
    params = m["Params"]({"mac": "00:00:00:00:00:00", "ip": ipstr(ip), "netmask": ipstr(mask), "range": f"{lo}-{hi}"})
    iface = m["interface"].VMInterface("n1", params)
    nc = m["netconfig"].VMNetconfig()
    nc.from_interface(iface)
    return nc


def run_arith(ctx, judge, hosts_per_bits, oracle=True):
    """exhaustive over the 33 prefix lengths x sampled hosts, against ipaddress"""
    m = impl()
    rng = ctx.rng
    lines, expect = [], []

    def add(line, want, case, where):
        lines.append(line)
        expect.append((case, where, want))
    for b in range(33):
        maskobj = ipaddress.ip_network(f"0.0.0.0/{b}").netmask
        mask = int(maskobj)
        case = {"kind": "arith", "bits": b}
        try:
            nc = m["netconfig"].VMNetconfig()
            nc.netmask = str(maskobj)
            got = nc.mask_bit
            nc2 = m["netconfig"].VMNetconfig()
            nc2.net_ip = "0.0.0.0"
            nc2.mask_bit = str(b)
            back = (nc2.netmask, nc2.mask_bit)
        except Exception as e:
            if oracle:
                judge.violate("maskbit-raises", f"mask_bit for /{b} ({maskobj}): {e!r}", case)
            add(f"maskbit {mask}", "error:" + type(e).__name__, case, "maskbit")
            continue
        add(f"maskbit {mask}", got, case, "maskbit")
        if oracle and got != str(b):
            judge.violate("maskbit-wrong", f"netmask {maskobj} -> mask_bit {got}, prefix length is {b}", case)
        add(f"netmask {b}", str(int(ipaddress.IPv4Address(back[0]))), case, "netmask")
        if oracle and back != (str(maskobj), str(b)):
            judge.violate("netmask-maskbit-roundtrip", f"mask_bit={b} -> netmask {back[0]} -> mask_bit {back[1]}", case)
        ctx.count("arith.prefix-lengths")
        size = 1 << (32 - b)
        for _ in range(hosts_per_bits):
            ip = rng.choice([rng.getrandbits(32), rng.getrandbits(32), 0, 0xFFFFFFFF, rng.getrandbits(32) & mask,
                             rng.getrandbits(32) | (size - 1)])
            nat = rng.getrandbits(32)
            case = {"kind": "arith", "bits": b, "ip": ip, "nat": nat}
            try:
                nc = mk_netconfig(ip, mask, 0, 0)
            except Exception as e:
                add(f"netip {ip} {b}", "error:" + errname(e), case, "netip")
                if oracle:
                    judge.violate("from-interface-raises", f"from_interface({ipstr(ip)}/{ipstr(mask)}): {e!r}", case)
                continue
            net_ip = int(ipaddress.IPv4Address(nc.net_ip))
            add(f"netip {ip} {b}", str(net_ip), case, "netip")
            if oracle and net_ip != int(ipaddress.ip_network(f"{ipstr(ip)}/{b}", strict=False).network_address):
                judge.violate("network-ip-wrong", f"network of {ipstr(ip)}/{b} = {nc.net_ip}", case)
            # translate a host of the subnet (and sometimes one outside of it) into the subnet of nat
            src = net_ip + rng.randrange(size) if rng.random() < 0.85 else rng.getrandbits(32)
            case = dict(case, src=src)
            try:
                t = int(ipaddress.IPv4Address(nc.translate_address(ipstr(src), ipstr(nat))))
                add(f"translate {ip} {mask} {src} {nat}", str(t), case, "translate")
                tnet = ipaddress.ip_network(f"{ipstr(nat)}/{b}", strict=False)
                if net_ip <= src < net_ip + size:
                    ctx.count("arith.translate.in-subnet")
                    if oracle and (t - int(tnet.network_address) != src - net_ip or ipaddress.ip_address(t) not in tnet):
                        judge.violate("translate-offset-wrong", f"{ipstr(src)} in {nc.net_ip}/{b} -> {ipstr(t)} "
                                      f"for nat {ipstr(nat)}", case)
                else:
                    ctx.count("arith.translate.outside")
            except Exception as e:
                add(f"translate {ip} {mask} {src} {nat}", "error:" + errname(e), case, "translate")
                ctx.count("arith.translate.error")
                if oracle and net_ip <= src < net_ip + size:
                    judge.violate("translate-raises-for-host", f"{ipstr(src)} in {nc.net_ip}/{b}: {e!r}", case)
            ctx.case(case, nontrivial=True)
        # allocation: every address of the range once, in order, then exhaustion
        for _ in range(max(1, hosts_per_bits // 16)):
            ip = rng.getrandbits(32)
            lo = rng.randrange(0, max(1, min(size, 300)))
            n = rng.randint(0, 12)
            hi = lo + n - 1
            if hi < 0:
                lo, hi = 1, 0
            case = {"kind": "alloc", "bits": b, "ip": ip, "lo": lo, "hi": hi}
            nc = mk_netconfig(ip, mask, lo, hi)
            net_ip = int(ipaddress.IPv4Address(nc.net_ip))
            want = [net_ip + o for o in range(lo, hi + 1)]
            got, last = [], None
            if want and want[-1] >= 2 ** 32:
                continue
            for _k in range(len(want)):
                try:
                    got.append(int(ipaddress.IPv4Address(nc.get_allocatable_address())))
                except Exception as e:
                    last = "error:" + errname(e)
                    break
            if last is None:
                try:
                    last = str(int(ipaddress.IPv4Address(nc.get_allocatable_address())))
                except Exception as e:
                    last = "error:" + errname(e)
            add(f"allocn {ip} {mask} {lo} {hi} {len(want)}", ",".join(map(str, got)) + " then " + last, case, "allocn")
            ctx.count(f"arith.alloc.range-size={min(len(want), 8)}{'+' if len(want) > 8 else ''}")
            if oracle and (sorted(got) != want or last != "error:indexError"):
                judge.violate("alloc-not-every-address-once", f"range {lo}-{hi} of {nc.net_ip}: handed out "
                              f"{[ipstr(a) for a in got]} then {last}", case)
            ctx.case(case, nontrivial=len(want) > 1)
    # arbitrary (also non-contiguous) masks: model vs implementation only
    for _ in range(hosts_per_bits * 4):
        mask = rng.getrandbits(32) if rng.random() < 0.7 else (rng.getrandbits(32) << rng.randrange(32)) & 0xFFFFFFFF
        nc = m["netconfig"].VMNetconfig()
        nc.netmask = ipstr(mask)
        add(f"maskbit {mask}", nc.mask_bit, {"kind": "arith", "mask": mask}, "maskbit")
        ctx.count("arith.maskbit.arbitrary-mask")
    out = vlib.driver("drv_net", lines)
    for (case, where, want), got in zip(expect, out):
        if want != got:
            ctx.disagree(f"arith:{where}", case, got, want)
            break


# -- generators --------------------------------------------------------------------------------

def gen_subnet(rng, wide=False):
    bits = rng.choice([8, 12, 16, 16, 20, 24, 24, 24, 26, 28, 29, 30]) if not wide else rng.randint(1, 31)
    base = rng.getrandbits(32) & (0xFFFFFFFF << (32 - bits)) & 0xFFFFFFFF
    if base >> 24 in (0,):
        base |= 10 << 24
        base &= (0xFFFFFFFF << (32 - bits)) & 0xFFFFFFFF
    return base, bits


def gen_spec(rng, kind):
    """kind: well | pool (static address inside a DHCP range) | nested | dup | badmask | badrange"""
    nv = rng.randint(1, 4)
    subnets = []
    for _ in range(rng.randint(1, 4)):
        base, bits = gen_subnet(rng, wide=rng.random() < 0.1)
        if any(b2 == base or (base >> (32 - min(bits, k2)) == b2 >> (32 - min(bits, k2))) for b2, k2, _, _ in subnets):
            continue
        size = 1 << (32 - bits)
        if size >= 8:
            lo = rng.randrange(2, size - 4)
            hi = min(size - 2, lo + rng.randint(0, 5))
        else:
            lo, hi = 1, max(1, size - 2)
        subnets.append((base, bits, lo, hi))
    if kind == "nested" and subnets:
        base, bits, lo, hi = rng.choice(subnets)
        if bits > 2:
            wider = rng.randint(1, bits - 1)
            wbase = base & (0xFFFFFFFF << (32 - wider)) & 0xFFFFFFFF
            if rng.random() < 0.6:      # same network address, different length
                base2 = wbase
                subnets = [(b, k, l, h) if (b, k) != (base, bits) else (wbase, bits, l, h) for b, k, l, h in subnets]
            subnets.append((wbase, wider, 2, 4))
            rng.shuffle(subnets)
    used = set()
    vms = []
    for _ in range(nv):
        nics = []
        for _ in range(rng.randint(1, 3)):
            base, bits, lo, hi = rng.choice(subnets)
            size = 1 << (32 - bits)
            mask = (0xFFFFFFFF << (32 - bits)) & 0xFFFFFFFF
            for _try in range(20):
                off = rng.randrange(size) if size <= 4 or rng.random() < 0.1 else rng.randrange(1, size - 1)
                if kind == "pool" and rng.random() < 0.5:
                    off = rng.randint(lo, hi)
                elif kind != "pool" and lo <= off <= hi and size > (hi - lo + 4):
                    continue
                if base + off not in used or kind == "dup":
                    break
            ip = base + off
            if kind == "dup" and used and rng.random() < 0.4:
                ip = rng.choice(sorted(used))
            used.add(ip)
            d = {"ip": ip, "mask": mask, "lo": lo, "hi": hi, "host": None}
            if rng.random() < 0.25:
                d["host"] = base + (size - 2 if size > 2 else 0)
            if kind == "badmask":
                r = rng.random()
                if r < 0.4:
                    d["mask"] = rng.getrandbits(32)
                elif r < 0.8:
                    k2 = max(1, min(32, bits + rng.choice([-3, -1, 1, 2])))
                    d["mask"] = (0xFFFFFFFF << (32 - k2)) & 0xFFFFFFFF
            if kind == "badrange":
                r = rng.random()
                if r < 0.3:
                    d["lo"], d["hi"] = hi + 1, lo          # empty range
                elif r < 0.6:
                    d["hi"] = size + rng.randint(0, 3)      # beyond the subnet
                    d["lo"] = max(0, d["hi"] - rng.randint(0, 5))
                elif r < 0.8:
                    d["host"] = rng.getrandbits(32)         # host outside
                else:                                       # beyond the address space
                    d["hi"] = 2 ** 32 - base + rng.randint(0, 3)
                    d["lo"] = d["hi"] - rng.randint(0, 5)
            nics.append(d)
        vms.append(nics)
    return {"vms": vms}


def gen_ops(rng, spec, max_ops=6):
    n = len(flat(spec))
    ops = []
    for _ in range(rng.randint(0, max_ops)):
        r = rng.random()
        if r < 0.4:
            ops.append(("alloc", rng.randrange(8)))
        elif r < 0.85:
            ops.append(("reattach", rng.randrange(n), rng.randrange(n), None))
        else:
            ops.append(("reattach", rng.randrange(n), rng.randrange(n), rng.randrange(3)))
    return ops


KINDS = [("well", 0.62), ("pool", 0.08), ("nested", 0.08), ("dup", 0.06), ("badmask", 0.08), ("badrange", 0.08)]


def pick_kind(rng):
    r = rng.random()
    acc = 0.0
    for k, w in KINDS:
        acc += w
        if r < acc:
            return k
    return "well"


def correspondence(ctx):
    thorough = ctx.tier == "thorough" or ctx.extra.get("drift")
    ctx.rule = ("net cases: 1-4 vms x 1-3 nics over random subnets (prefix lengths 8-30, sometimes 1-31), DHCP ranges "
                "and host addresses; the real VMNetwork is built with a stub env/vm as in test_vm_network.py, then up "
                "to 6 get_allocatable_address/reattach_interface (15% with proxy_nic) calls; after every step the "
                "registry dump is compared with the Lean model and the registry invariant is checked on the real "
                "objects (identity + ipaddress); arithmetic cases: all 33 prefix lengths x sampled hosts for "
                "mask_bit, the mask_bit setter, _get_network_ip, translate_address and range allocation against "
                "ipaddress; non-trivial = more than one interface and at least one operation; distinct by content hash")
    judge = Judge(ctx)
    try:
        corpus = os.path.join(vlib.VERIF, "corpus", "C18")
        if os.path.isdir(corpus):
            import json
            for f in sorted(os.listdir(corpus)):
                replay(ctx, {"case": json.load(open(os.path.join(corpus, f)))})
        run_arith(ctx, judge, 256 if not thorough else 1024)
        ctx.extra["exhaustive"] = "all 33 prefix lengths (mask_bit getter/setter); hosts sampled"
        n = 60000 if thorough else 4000
        cases = []
        for _ in range(n):
            kind = pick_kind(ctx.rng)
            ctx.count("gen." + kind)
            spec = gen_spec(ctx.rng, kind)
            cases.append((spec, gen_ops(ctx.rng, spec)))
        for i in range(0, len(cases), 500):
            run_net_cases(ctx, judge, cases[i:i + 500])
            if ctx.disagreements:
                break
    finally:
        cleanup()


def search(ctx, reason):
    """proof or correspondence broke: hunt on the implementation with the spec oracle only"""
    judge = Judge(ctx)
    try:
        run_arith(ctx, judge, 512)
        for _ in range(40):
            cases = []
            for _ in range(500):
                spec = gen_spec(ctx.rng, ctx.rng.choice(["well", "well", "pool", "nested"]))
                cases.append((spec, gen_ops(ctx.rng, spec, 8)))
            sub_dis = ctx.disagree
            ctx.disagree = lambda *a, **k: None
            try:
                run_net_cases(ctx, judge, cases)
            finally:
                ctx.disagree = sub_dis
            if ctx.violations:
                break
        # shrink the first violation: fewer ops, fewer vms
        if ctx.violations and ctx.violations[0]["case"].get("kind") == "net":
            v = ctx.violations[0]
            c = v["case"]

            def fails_ops(ops):
                sub = vlib.Ctx(ctx.prop, ctx.tier, ctx.seed)
                try:
                    run_net_case(sub, Judge(sub), c["spec"], [tuple(o) for o in ops], [], [])
                except Exception:
                    return False
                return any(x["key"] == v["key"] for x in sub.violations)
            if c["ops"]:
                ops = vlib.shrink_list(c["ops"][: c.get("upto", len(c["ops"])) + 1], fails_ops)
                v["case"] = {"kind": "net", "spec": c["spec"], "ops": ops}
    finally:
        cleanup()


def replay(ctx, payload):
    c = payload["case"]
    judge = Judge(ctx)
    try:
        if c.get("kind") == "net":
            run_net_cases(ctx, judge, [(c["spec"], [tuple(o) for o in c["ops"]])])
        else:
            run_arith(ctx, judge, 64)
    finally:
        if payload.get("kind"):      # called from run.py --replay
            cleanup()
