"""C14 — pool transfers are exact, never destroy data, and exclude each other (engine E3 `pool`, transfer half).

Two halves (DESIGN.md §6 C14):
 (a) the REAL `TransferOps` on real temp dirs vs. the Lean file-system model, all pre-existing states of
     (cache, pool, link target) x all operations, plus random operation sequences; a Python spec oracle judges
     the implementation's own results (source unchanged, destination byte-identical, copy skipped iff equal,
     no real data replaced by a link, no link uploaded);
 (b) REAL child processes (fork) running the real operations on one pool path with the real `image_lock`;
     `fcntl.lockf`, `shutil.copy`, `os.unlink`, `os.symlink`, `compare_*` and `time.sleep` are wrapped (module /
     class attributes of `avocado_i2n.states.pool`) to append ordered events to one O_APPEND log; SIGKILL,
     exceptions and sleeps are injected at every site of the critical section.  The recorded trace is judged by the
     verified Lean monitor `mutexTrace`, and replayed action by action through the Lean protocol machine
     (`stepAct`), whose final file system and process states must equal the real ones.

The driver is run as a script (`lake env lean --run Driver/script/Xfer.lean`): the lakefile has no exe for it.
"""
import ast
import errno
import itertools
import json
import multiprocessing
import os
import shutil
import signal
import subprocess
import sys
import tempfile
import time

import vlib

PROP = "C14"
ENGINE = "pool"
LEVEL = "proof"
TARGETS = ["I2N.Props.C14"]          # imports I2N.Model.Transfer, which the script driver needs built
PROPS_FILE = "I2N/Props/C14.lean"
ANCHORS = {"avocado_i2n/states/pool.py": [
    "image_lock", "TransferOps.compare", "TransferOps.download", "TransferOps.upload", "TransferOps.delete",
    "TransferOps.compare_local", "TransferOps.download_local", "TransferOps.upload_local",
    "TransferOps.delete_local", "TransferOps.compare_link", "TransferOps.download_link",
    "TransferOps.upload_link", "TransferOps.delete_link"]}
TRUSTED = [
    "modelled, not verified (OS): fcntl.lockf gives an exclusive lock among processes that is dropped by LOCK_UN, "
    "close and process death — validated on every run by real multi-process traces judged by the Lean monitor",
    "modelled, not verified (OS): shutil.copy / os.unlink / os.symlink are single atomic steps; a destination torn "
    "by a crash INSIDE shutil.copy (no temp file + rename in the code) cannot be exhibited by the model",
    "modelled, not verified: md5 is collision free on the hashed prefix; directories always exist; symlinks are "
    "followed one level (flat file systems, which is what download_link creates)",
    "event order of the real traces = order of O_APPEND writes to one log file (acquire logged after lockf "
    "returned, release/crash logged before unlocking/dying: a non-overlap in the log is a non-overlap in reality)",
    "the driver runs interpreted (`lean --run`), same definitions as the theorems, no compiled exe",
    "harness/pygen.py (Python AST -> Lean `do` block in the state monad StateT FS (Except Err), fails closed) regenerates "
    "I2N/Extracted/GenTransfer.lean on every run from the source of TransferOps.compare_local, compare_link, "
    "download_local, upload_local, delete_local, download_link, upload_link; compareLocal_matches_source ... "
    "downloadLink_matches_source prove the hand written big-step operations equal to them for all file systems and "
    "paths (resulting file system and raised error).  Trusted: the translator; the atom table _transfer_specs of "
    "harness/pygen.py — the file-system primitives are atoms: os.path.exists = pexists, os.path.islink = islink, "
    "os.path.realpath = resolve (one level), crypto.hash_file(p, n, 'md5') of an existing file = the first n bytes "
    "(md5 collision free on them) and '' = no digest, shutil.copy = copy, os.unlink = unlink, os.symlink = symlink, "
    "each one atomic step; `with image_lock(...)` is translated in place (the lock protocol is the other half of the "
    "model); os.makedirs and logging calls are dropped (directories are not modelled); calls between the functions "
    "(TransferOps.compare_local / compare_link / upload_local) go to the generated counterparts",
    "GenTransfer.lean also holds genDownload / genUpload / genDelete, regenerated from the dispatchers TransferOps.download "
    "/ upload / delete (`hosts, path = pool_path.split(':')` with ValueError for another number of parts, host part -> "
    "remote, ';' in the path -> link mode with the ';' removed, else local mode); download_matches_source, "
    "upload_matches_source, delete_matches_source prove the model's dispatchers equal to them for all location strings. "
    "Trusted in addition: pool_path.split(':') = the model's splitColon on the characters; the *_remote functions are "
    "the error notModelled; `in` / replace on strings are I2N.Rules.isSubstr / the prelude's pyRemoveChar",
]



def extract(ctx):
    """lean/I2N/Extracted/GenTransfer.lean from /repo's AST (second tie, see harness/pygen.py).  Raises
    (pygen.Unsupported) when a function left the translated subset: run.py records that as a proof problem."""
    import pygen
    if pygen.extract_transfer(ctx):
        ctx.notes.append("I2N/Extracted/GenTransfer.lean changed: the source of the TransferOps functions differs from "
                         "the one the committed file was generated from (the *_matches_source theorems are re-checked)")
    ctx.extra["regenerated"] = ("lean/I2N/Extracted/GenTransfer.lean (TransferOps.compare_local/compare_link/"
                                "download_local/upload_local/delete_local/download_link/upload_link/download/upload/delete via harness/pygen.py)")


SYMS = "abcdefghijklmnopqrstuvwxyzABCDEFGHIJKLMNOPQRSTUVWXYZ0123456789"
MIB = 1048576


# ----------------------------------------------------------------------------------------------------------------
# driver (script mode)

def driver_cmd():
    """the compiled exe if the lakefile has one (`drv_xfer`), else the same source run as a script.  The source
    lives in Driver/script/ because setup.sh builds an exe for every Driver/*.lean and the lakefile has none for it."""
    exe = os.path.join(vlib.LEAN, ".lake", "build", "bin", "drv_xfer")
    for rel in ("Driver/Xfer.lean", "Driver/script/Xfer.lean"):
        src = os.path.join(vlib.LEAN, rel)
        if os.path.exists(src):
            if os.path.exists(exe) and os.path.getmtime(exe) >= os.path.getmtime(src):
                return [exe]
            return ["lake", "env", "lean", "--run", rel]
    raise RuntimeError("C14: driver source Driver/script/Xfer.lean not found")


def driver(lines, timeout=900):
    data = "\n".join(lines) + "\n"
    p = subprocess.run(driver_cmd(), cwd=vlib.LEAN, input=data,
                       stdout=subprocess.PIPE, stderr=subprocess.PIPE, text=True, timeout=timeout)
    if p.returncode != 0:
        raise RuntimeError(f"script driver Driver/Xfer.lean failed: {p.stderr[-800:]} {p.stdout[-300:]}")
    out = p.stdout.split("\n")
    if out and out[-1] == "":
        out.pop()
    if len(out) != len(lines):
        raise RuntimeError(f"script driver: {len(lines)} operations but {len(out)} answers")
    bad = [i for i, o in enumerate(out) if o == "bad-op"]
    if bad:
        raise RuntimeError(f"script driver: bad-op for line {lines[bad[0]]!r}")
    return out


# ----------------------------------------------------------------------------------------------------------------
# the real code

_pool = None
_scr = None


def scratch():
    global _scr
    if _scr is None or not os.path.isdir(_scr):
        _scr = os.path.realpath(tempfile.mkdtemp(prefix="i2n-verif-c14-"))
    return _scr


def cleanup_scratch():
    global _scr
    if _scr and os.path.isdir(_scr):
        shutil.rmtree(_scr, ignore_errors=True)
    _scr = None


def impl():
    global _pool
    os.chdir(scratch())
    if _pool is None:
        alt = os.environ.get("I2N_C14_POOL")        # mutation sanity only: a modified copy of pool.py
        if alt:
            import importlib.util
            import avocado_i2n.states   # noqa: the package of the relative imports
            spec = importlib.util.spec_from_file_location("avocado_i2n.states.pool", alt)
            pool = importlib.util.module_from_spec(spec)
            sys.modules["avocado_i2n.states.pool"] = pool
            spec.loader.exec_module(pool)
        else:
            from avocado_i2n.states import pool
        _pool = pool
    return _pool


def pool_source():
    return os.environ.get("I2N_C14_POOL") or os.path.join(vlib.REPO, "avocado_i2n/states/pool.py")


def mkparams(timeout=30):
    from virttest.utils_params import Params
    return Params({"update_pool_timeout": str(timeout)})


def hash_limit():
    """the `size` argument of crypto.hash_file in compare_local, from /repo's AST (None = whole file)"""
    tree = ast.parse(open(pool_source()).read())
    sizes = set()
    for node in ast.walk(tree):
        if isinstance(node, ast.FunctionDef) and node.name == "compare_local":
            for c in ast.walk(node):
                if isinstance(c, ast.Call) and isinstance(c.func, ast.Attribute) and c.func.attr == "hash_file":
                    size = None
                    if len(c.args) >= 2:
                        size = c.args[1]
                    for kw in c.keywords:
                        if kw.arg == "size":
                            size = kw.value
                    if size is None or (isinstance(size, ast.Constant) and size.value is None):
                        sizes.add(None)
                    elif isinstance(size, ast.Constant) and isinstance(size.value, int):
                        sizes.add(size.value)
                    else:
                        raise RuntimeError("C14 extract: size argument of hash_file is no longer a literal")
    if len(sizes) != 1:
        raise RuntimeError(f"C14 extract: expected one hash size in compare_local, found {sizes}")
    return sizes.pop()


class Proxy:
    """a module with some attributes replaced (the seam: `pool.shutil`, `pool.os`, `pool.fcntl`, `pool.time`)"""

    def __init__(self, real, **over):
        self.__dict__["_real"] = real
        self.__dict__.update(over)

    def __getattr__(self, name):
        return getattr(self._real, name)


ERRMAP = {"FileNotFoundError": "fileNotFound", "FileExistsError": "fileExists", "SameFileError": "sameFile",
          "RuntimeError": "runtimeError", "ValueError": "valueError", "Injected": "injected"}


def errname(exc):
    return ERRMAP.get(type(exc).__name__, "other:" + type(exc).__name__)


# ----------------------------------------------------------------------------------------------------------------
# file-system snapshots: model paths are "/x/y", real paths are root + "/x/y"

def enc(content, unit):
    return b"".join(bytes([ord(ch)]) * unit for ch in content)


def dec(data, unit):
    if unit == 1:
        s = data.decode("latin1")
        return s if all(ch in SYMS for ch in s) else "?" + data[:16].hex()
    if len(data) % unit:
        return "?torn%d" % len(data)
    out = []
    for i in range(0, len(data), unit):
        blk = data[i:i + unit]
        if blk != blk[:1] * unit:
            return "?mixed"
        out.append(chr(blk[0]))
    return "".join(out)


def put(root, path, node, unit):
    real = root + path
    os.makedirs(os.path.dirname(real), exist_ok=True)
    if os.path.lexists(real):
        os.unlink(real)
    if node == "absent":
        return
    kind, _, arg = node.partition(":")
    if kind == "file":
        with open(real, "wb") as fh:
            fh.write(enc(arg, unit))
    else:
        os.symlink(root + arg, real)


def snap(root, paths, unit):
    out = {}
    for p in paths:
        real = root + p
        if os.path.islink(real):
            t = os.readlink(real)
            out[p] = "link:" + (t[len(root):] if t.startswith(root + "/") else "?" + t)
        elif os.path.isfile(real):
            with open(real, "rb") as fh:
                out[p] = "file:" + dec(fh.read(), unit)
        elif os.path.lexists(real):
            out[p] = "?other"
        else:
            out[p] = "absent"
    return out


def strays(root, paths):
    """files the operation created outside the tracked paths (lock files excepted)"""
    found = []
    for d, _dirs, files in os.walk(root):
        for f in files:
            p = os.path.join(d, f)[len(root):]
            if p not in paths and not p.endswith(".lock"):
                found.append(p)
    return sorted(found)


def show_line(paths):
    return "show " + " ".join(paths)


def fmt_snap(s, paths):
    return " ".join(f"{p}={s[p]}" for p in paths)


def read_through(s, p):
    """content seen through one level of link in a snapshot; None = does not exist"""
    n = s[p]
    if n.startswith("link:"):
        n = s.get(n[5:], "absent")
    return n[5:] if n.startswith("file:") else None


# ----------------------------------------------------------------------------------------------------------------
# half (a): sequential operations

OPS = ["dl", "ul", "dll", "ull", "del", "download", "upload", "delete", "download;", "upload;", "delete;"]


def call_op(pool, op, root, cache, poolp, params):
    """run one real operation; returns 'ok' | 'error:<cls>'"""
    T = pool.TransferOps
    rc, rp = root + cache, root + poolp
    semi = rp[:len(root) + 2] + ";" + rp[len(root) + 2:]      # ';' somewhere inside the path = link mode
    try:
        if op == "dl":
            T.download_local(rc, rp, params)
        elif op == "ul":
            T.upload_local(rc, rp, params)
        elif op == "dll":
            T.download_link(rc, rp, params)
        elif op == "ull":
            T.upload_link(rc, rp, params)
        elif op == "del":
            T.delete_local(rp, params)
        elif op == "download":
            T.download(rc, ":" + rp, params)
        elif op == "upload":
            T.upload(rc, ":" + rp, params)
        elif op == "delete":
            T.delete(":" + rp, params)
        elif op == "download;":
            T.download(rc, ":" + semi, params)
        elif op == "upload;":
            T.upload(rc, ":" + semi, params)
        elif op == "delete;":
            T.delete(":" + semi, params)
        else:
            raise AssertionError(op)
    except Exception as e:      # noqa: the class is the observable
        return "error:" + errname(e)
    return "ok"


def model_op_line(op, cache, poolp):
    semi = poolp[:2] + ";" + poolp[2:]
    return {"dl": f"dl {cache} {poolp}", "ul": f"ul {cache} {poolp}", "dll": f"dll {cache} {poolp}",
            "ull": f"ull {cache} {poolp}", "del": f"del {poolp}",
            "download": f"download {cache} :{poolp}", "upload": f"upload {cache} :{poolp}",
            "delete": f"delete :{poolp}", "download;": f"download {cache} :{semi}",
            "upload;": f"upload {cache} :{semi}", "delete;": f"delete :{semi}"}[op]


def op_kind(op):
    """(direction, link mode)"""
    d = {"dl": "down", "download": "down", "dll": "down", "download;": "down",
         "ul": "up", "upload": "up", "ull": "up", "upload;": "up"}.get(op, "del")
    return d, op in ("dll", "ull", "download;", "upload;", "delete;")


def oracle(ctx, case, op, cache, poolp, before, after, res, copies, limit_syms):
    """the property itself on the implementation's own result (independent of the Lean model)"""
    direction, linkmode = op_kind(op)
    src, dst = (poolp, cache) if direction == "down" else (cache, poolp)
    c0, p0 = read_through(before, cache), read_through(before, poolp)
    if direction != "del":
        s0, s1 = read_through(before, src), read_through(after, src)
        d1 = read_through(after, dst)
        if before[src] != after[src] or s0 != s1:
            ctx.violate("source-changed", f"{op}: source {src} was {before[src]} and is {after[src]}", case)
        if res == "ok" and s0 is not None:
            if d1 != s0:
                same_prefix = c0 is not None and p0 is not None and c0[:limit_syms] == p0[:limit_syms]
                if same_prefix and copies == 0:
                    ctx.violate("skip-on-equal-prefix",
                                f"{op}: cache and pool differ beyond the hashed prefix ({limit_syms} symbols), "
                                f"the copy was skipped and the destination is not identical to the source", case)
                else:
                    ctx.violate("transfer-not-exact", f"{op}: destination reads {d1!r}, source {s0!r}", case)
        if c0 is not None and c0 == p0 and copies:
            ctx.violate("copy-not-skipped", f"{op}: cache and pool already match but {copies} copy was made", case)
        if res == "ok" and c0 != p0 and copies == 0 and not linkmode:
            same_prefix = c0 is not None and p0 is not None and c0[:limit_syms] == p0[:limit_syms]
            if not same_prefix:
                ctx.violate("skipped-though-different", f"{op}: contents differ, no copy, no error", case)
    if linkmode:
        for p, n in before.items():
            if n.startswith("file:") and after[p] != n and not (direction == "up" and p == poolp) \
                    and not (direction == "del" and p == poolp):
                ctx.violate("link-clobbered-data", f"{op}: real data {p} = {n} became {after[p]}", case)
        if direction == "up":
            if before[cache].startswith("link:") and (res == "ok" or after[poolp] != before[poolp]):
                ctx.violate("uploaded-a-link", f"{op}: the cache is a link, result {res}, pool {after[poolp]}", case)
            if after[poolp].startswith("link:") and not before[poolp].startswith("link:"):
                ctx.violate("uploaded-a-link", f"{op}: the pool entry became a link", case)
    if direction == "del" and res == "ok" and after[poolp] != "absent":
        ctx.violate("delete-left-file", f"{op}: pool entry still {after[poolp]}", case)
    # observation, not part of the property text: a plain download into a cache that is a link writes through it
    if not linkmode and direction == "down" and before[cache].startswith("link:") and copies:
        ctx.count("observed.download_local-wrote-through-link")


def run_seq_cases(ctx, cases, limit, check=True):
    """cases: list of dict(unit, init={path: node}, ops=[(op, cache, pool)]).  Real code vs. model after every op."""
    pool = impl()
    params = mkparams(5)
    copies = [0]
    real_shutil = pool.shutil

    def counted_copy(*a, **k):
        copies[0] += 1
        return shutil.copy(*a, **k)
    pool.shutil = Proxy(shutil, copy=counted_copy)
    lines, expect = [], []
    try:
        for ci, case in enumerate(cases):
            unit = case["unit"]
            paths = sorted(case["init"])
            lim = (2 ** 62 if limit is None else limit // unit)
            root = tempfile.mkdtemp(prefix="seq-", dir=scratch())
            lines.append(f"limit {lim}")
            expect.append((ci, "limit", "ok"))
            lines.append("reset")
            expect.append((ci, "reset", "ok"))
            for p in paths:
                put(root, p, case["init"][p], unit)
                lines.append(f"fs {p} {case['init'][p]}")
                expect.append((ci, "fs", "ok"))
            before = snap(root, paths, unit)
            for (op, cache, poolp) in case["ops"]:
                copies[0] = 0
                res = call_op(pool, op, root, cache, poolp, params)
                after = snap(root, paths, unit)
                extra = strays(root, paths)
                lines.append(model_op_line(op, cache, poolp))
                expect.append((ci, op, res))
                lines.append(show_line(paths))
                expect.append((ci, op + ":fs", fmt_snap(after, paths) + ("" if not extra else " STRAY " + ",".join(extra))))
                ctx.count("op." + op)
                ctx.count("res." + res)
                ctx.count(f"pre.cache={before[cache].split(':')[0]},pool={before[poolp].split(':')[0]}")
                if unit > 1:
                    ctx.count("content.block-scaled")
                if check:
                    oracle(ctx, {"kind": "seq", "unit": unit, "init": before, "ops": [[op, cache, poolp]]},
                           op, cache, poolp, before, after, res, copies[0], lim)
                before = after
            shutil.rmtree(root, ignore_errors=True)
            ctx.case({"kind": "seq", "unit": unit, "init": case["init"], "ops": [list(o) for o in case["ops"]]},
                     nontrivial=any(v != "absent" for v in case["init"].values()))
    finally:
        pool.shutil = real_shutil
    out = driver(lines)
    seen = set()
    for (ci, what, want), got in zip(expect, out):
        if want != got and ci not in seen:
            seen.add(ci)
            ctx.disagree(f"seq:{what}", {"kind": "seq", **cases[ci]}, got, want)
            if len(seen) >= 5:
                break


C, P, X, D = "/c/img", "/p/img", "/p/other", "/c/nowhere"


def exhaustive_states():
    """all pre-existing states of (cache, pool, link target) with content variants"""
    cases = []
    contents = [  # (unit, pool content, equal content, different contents for the cache)
        (1, "poolA", ["cacheB", "", "poolAx", "poo"]),
        (MIB // 4, "aaaab", ["aaaac", "aaaa", "aaaabb", "baaab", "aaa"]),     # differ beyond / inside the hashed MiB
        (MIB, "ab", ["ac", "a", "bb"]),
    ]
    for unit, pc, diffs in contents:
        pool_states = ["absent", "file:" + pc] + (["file:"] if unit == 1 else [])
        for pstate in pool_states:
            cache_states = ["absent", "file:" + pc, "link:" + P, "link:" + X, "link:" + D] + ["file:" + d for d in diffs]
            for cstate in cache_states:
                xs = ["absent"]
                if cstate == "link:" + X:
                    xs = ["file:" + pc, "file:" + diffs[0], "file:" + diffs[1]]
                for xstate in xs:
                    if unit > 1 and not (cstate.startswith("file:") or cstate == "link:" + X):
                        continue        # big contents only where two contents are compared
                    for op in OPS:
                        cases.append({"unit": unit, "init": {C: cstate, P: pstate, X: xstate, D: "absent"},
                                      "ops": [(op, C, P)]})
    return cases


def gen_seq_case(rng):
    unit = 1 if rng.random() < 0.85 else MIB // 2
    caches, pools = ["/c/img", "/c2/img"], ["/p/img", "/q/img"]
    others = ["/p/other", "/c/nowhere"]

    def content():
        if unit == 1:
            return "".join(rng.choice("abc") for _ in range(rng.randint(0, 4)))
        return rng.choice(["aa", "aab", "aac", "ba", "a", "aabb"])
    init = {}
    for p in pools:
        init[p] = rng.choice(["absent", "file:" + content(), "file:" + content()])
    init["/p/other"] = rng.choice(["absent", "file:" + content()])
    init["/c/nowhere"] = "absent"
    for c in caches:
        r = rng.random()
        if r < 0.25:
            init[c] = "absent"
        elif r < 0.6:
            init[c] = "file:" + content()
        elif r < 0.75 and init[pools[0]].startswith("file:"):
            init[c] = init[pools[0]]
        else:
            init[c] = "link:" + rng.choice(pools + others)
    ops = [(rng.choice(OPS), rng.choice(caches), rng.choice(pools)) for _ in range(rng.randint(2, 8))]
    return {"unit": unit, "init": init, "ops": ops}


# ----------------------------------------------------------------------------------------------------------------
# half (b): real processes

class Injected(Exception):
    pass


HOOK_INDEX = {("dl", "cmp"): 0, ("dl", "copy"): 1, ("ul", "cmp"): 0, ("ul", "copy"): 1, ("ull", "cmp"): 0,
              ("ull", "copy"): 1, ("del", "unlink"): 0, ("dll", "cmp"): 0, ("dll", "unlink"): 2, ("dll", "symlink"): 3}
MODEL_OP = {"download": "dl", "upload": "ul", "delete": "del", "download;": "dll", "upload;": "ull", "delete;": "del"}


def child_main(idx, plan, root, logpath, t_start):
    """runs in a forked child: install the hooks, wait for the start time, run ONE real operation"""
    pool = _pool
    fd = os.open(logpath, os.O_WRONLY | os.O_APPEND)

    def log(*words):
        os.write(fd, (" ".join([str(idx)] + [str(w) for w in words]) + "\n").encode())
    st = {"site": 0, "in_cs": False, "nest": 0}
    inj = plan.get("inject") or {}

    def site():
        """an injection site inside the critical section"""
        s = st["site"]
        st["site"] += 1
        if inj and inj["site"] == s:
            if inj["kind"] == "kill":
                log("crash")
                os.kill(os.getpid(), signal.SIGKILL)
                time.sleep(60)
            elif inj["kind"] == "sleep":
                time.sleep(inj["secs"])
            elif inj["kind"] == "raise" and s > 0:
                log("inject")
                raise Injected("injected at site %d" % s)

    def hooked(name, real):
        def w(*a, **k):
            if st["nest"]:
                return real(*a, **k)
            st["nest"] += 1
            try:
                log("enter", name)          # also outside the lock: the monitor must see an unlocked access
                if st["in_cs"]:
                    site()
                try:
                    r = real(*a, **k)
                except Exception as e:
                    log("fail", name, errname(e))
                    raise
                log("exit", name)
                if st["in_cs"]:
                    site()
                return r
            finally:
                st["nest"] -= 1
        return w

    import fcntl as real_fcntl

    def w_lockf(f, flags, *a):
        if flags & real_fcntl.LOCK_UN:
            if inj and inj.get("site") == "rel" and inj["kind"] == "kill":
                log("crash")
                os.kill(os.getpid(), signal.SIGKILL)
                time.sleep(60)
            log("rel")
            st["in_cs"] = False
            r = real_fcntl.lockf(f, flags, *a)
            log("unlocked")
            return r
        log("try")
        try:
            r = real_fcntl.lockf(f, flags, *a)
        except OSError as e:
            log("busy" if e.errno in (errno.EACCES, errno.EAGAIN) else "lockerr")
            raise
        log("acq")
        st["in_cs"] = True
        site()
        return r

    scale = plan.get("sleep_scale", 1.0)
    pool.fcntl = Proxy(real_fcntl, lockf=w_lockf)
    pool.time = Proxy(time, sleep=lambda s: time.sleep(s * scale))
    pool.shutil = Proxy(shutil, copy=hooked("copy", shutil.copy))
    pool.os = Proxy(os, unlink=hooked("unlink", os.unlink), symlink=hooked("symlink", os.symlink))
    T = pool.TransferOps
    T.compare_local = staticmethod(hooked("cmp", T.compare_local))
    T.compare_link = staticmethod(hooked("cmp", T.compare_link))
    params = mkparams(plan["timeout"])
    os.chdir(root)
    now = time.monotonic()
    if t_start + plan.get("delay", 0.0) > now:
        time.sleep(t_start + plan.get("delay", 0.0) - now)
    log("begin")
    res = call_op(pool, plan["op"], root, plan["cache"], plan["pool"], params)
    log("end", res)
    os.close(fd)
    os._exit(0)


def start_run(run, t_start):
    """fork the children of one run; returns the bookkeeping needed by finish_run"""
    root = tempfile.mkdtemp(prefix="lock-", dir=scratch())
    tree = os.path.join(root, "t")
    os.makedirs(tree)
    logpath = os.path.join(root, "events.log")
    open(logpath, "w").close()
    for p, n in run["init"].items():
        put(tree, p, n, 1)
    mp = multiprocessing.get_context("fork")
    procs = []
    for i, plan in enumerate(run["procs"]):
        pr = mp.Process(target=child_main, args=(i, plan, tree, logpath, t_start), daemon=True)
        pr.start()
        procs.append(pr)
    return {"root": root, "tree": tree, "log": logpath, "procs": procs, "run": run}


def finish_run(ctx, h, deadline):
    run = h["run"]
    for pr in h["procs"]:
        pr.join(max(0.1, deadline - time.monotonic()))
        if pr.is_alive():
            for q in h["procs"]:
                if q.is_alive():
                    q.kill()
            raise RuntimeError(f"C14 lock run did not finish in time: {json.dumps(run)[:600]}")
    entries = []
    for line in open(h["log"]).read().splitlines():
        w = line.split()
        entries.append((int(w[0]), w[1], w[2:]))
    paths = sorted(run["init"])
    final = snap(h["tree"], paths, 1)
    extra = strays(h["tree"], paths)
    exitcodes = [pr.exitcode for pr in h["procs"]]
    shutil.rmtree(h["root"], ignore_errors=True)
    return entries, final, extra, exitcodes


def trace_of(run, entries):
    """the monitor's events, chronological"""
    ev, acquired, holding = [], set(), set()
    has_rel = {i for (i, w, a) in entries if w == "rel"}
    for (i, what, args) in entries:
        path = run["procs"][i]["pool"]
        if what in ("fail", "inject") and i in holding and i not in has_rel:
            # an exception leaves the block and LOCK_UN is never called (not the current code): the lock
            # file is closed while the exception propagates, somewhere between here and `end`
            ev.append(f"f,{i},{path}")
            ev.append(f"r,{i},{path}")
            holding.discard(i)
            continue
        if what == "acq":
            acquired.add(i)
            holding.add(i)
            ev.append(f"a,{i},{path}")
        elif what == "rel":
            holding.discard(i)
            ev.append(f"r,{i},{path}")
        elif what == "end" and i in holding:
            # the operation returned without LOCK_UN: the lock file was closed on the way out (`with open`)
            holding.discard(i)
            ev.append(f"r,{i},{path}")
        elif what in ("enter", "exit", "fail"):
            ev.append(f"f,{i},{path}")
        elif what == "crash":
            ev.append(f"c,{i}")
        elif what == "end" and args[0] == "error:runtimeError" and i not in acquired:
            ev.append(f"t,{i}")
    return ev


def py_monitor(ev):
    """independent re-implementation of the interval check (cross-check of the harness, not the judge)"""
    held = {}
    for e in ev:
        w = e.split(",")
        if w[0] == "a":
            if w[2] in held:
                return False
            held[w[2]] = w[1]
        elif w[0] in ("r", "f"):
            if held.get(w[2]) != w[1]:
                return False
            if w[0] == "r":
                del held[w[2]]
        elif w[0] == "c":
            held = {k: v for k, v in held.items() if v != w[1]}
        elif w[0] == "t":
            if w[1] in held.values():
                return False
    return True


def model_script(run, entries):
    """translate the recorded events into actions of the Lean protocol machine; returns (lines, expected answer
    prefixes).  A release (unlock / exception / death) is logged BEFORE it takes effect in the real process, so
    the model's release action is deferred until just before the next acquisition of that lock (or the end)."""
    lines, exp = ["limit %d" % (2 ** 62), "reset"], [None, None]
    for p in sorted(run["init"]):
        lines.append(f"fs {p} {run['init'][p]}")
        exp.append(None)
    for i, plan in enumerate(run["procs"]):
        lines.append(f"job {i} {MODEL_OP[plan['op']]} {plan['cache']} {plan['pool']} {plan['timeout']}")
        exp.append(None)
    lines.append("init")
    exp.append(None)
    status = {i: a[0] for (i, w, a) in entries if w == "end"}
    acquired = {i for (i, w, a) in entries if w == "acq"}
    tried = {i for (i, w, a) in entries if w == "try"}
    pending = {}               # pool path -> deferred release actions [(line, expected prefix)]
    finished = set()

    def emit(line, want):
        lines.append(line)
        exp.append(want)

    def flush(path):
        for (line, want) in pending.pop(path, []):
            emit(line, want)

    for (i, what, args) in entries:
        plan = run["procs"][i]
        mop, path = MODEL_OP[plan["op"]], plan["pool"]
        if what == "begin":
            if i not in tried and status.get(i) == "error:valueError":
                emit(f"act {i} start", "ok pc=failed:valueError")
            else:
                emit(f"act {i} start", "ok pc=trying:0")
        elif what == "busy":
            emit(f"act {i} tryLock", "ok pc=trying:")
        elif what == "acq":
            flush(path)
            emit(f"act {i} tryLock", f"ok pc=inCS:0 owner={i}")
        elif what == "exit":
            emit(f"actto {i} {HOOK_INDEX[(mop, args[0])]}", "ok pc=inCS:")
        elif what == "fail":
            pending.setdefault(path, []).append((f"actto {i} {HOOK_INDEX[(mop, args[0])]}", f"ok pc=failed:{args[1]} "))
            finished.add(i)
        elif what == "inject":
            pending.setdefault(path, []).append((f"act {i} raise", "ok pc=failed:injected "))
            finished.add(i)
        elif what == "crash":
            # killed in the `finally` while an exception was propagating: the model's failing step would already
            # have released the lock, so the death replaces it (a failing call has no effect on the files)
            pending[path] = [x for x in pending.get(path, []) if not x[0].endswith(f" {i}") and f" {i} " not in x[0]]
            pending.setdefault(path, []).append((f"act {i} crash", "ok pc=dead "))
            finished.add(i)
        elif (what == "rel" or (what == "end" and i in acquired)) and i not in finished:
            # (`end` without a logged LOCK_UN: the lock file was closed on the way out, which also unlocks)
            st = status.get(i, "")
            if st == "ok":
                pending.setdefault(path, []).append((f"act {i} unlock", "ok pc=done "))
            else:       # an exception of the body itself that is not one of the wrapped calls
                pending.setdefault(path, []).append((f"untilfail {i}", "ok pc=failed:" + st.split(":", 1)[-1] + " "))
            finished.add(i)
        elif what == "end":
            if args[0] == "error:runtimeError" and i not in acquired:
                emit(f"act {i} tryLock", "ok pc=failed:runtimeError ")
    for path in list(pending):
        flush(path)
    return lines, exp


def check_answers(exp, out):
    """first mismatch between what the model answered and what the real trace needs, or None"""
    for k, (want, got) in enumerate(zip(exp, out)):
        if want is not None and not got.startswith(want):
            return k, want, got
    return None


def gen_lock_run(rng, mode, nprocs=None):
    """one run: 2..8 processes on the same pool path (sometimes one on a second path)"""
    n = nprocs or rng.randint(2, 8)
    fast = mode != "real"
    init = {"/p/img": rng.choice(["file:pool" + rng.choice("xyz"), "file:pool" + rng.choice("xyz"), "absent"]),
            "/q/img": "file:second", "/p/other": "file:other"}
    procs = []
    for i in range(n):
        cache = f"/c{i}/img"
        op = rng.choice(["download", "download", "upload", "upload", "delete", "download;", "upload;", "delete;"])
        ppath = "/p/img" if (i < 2 or rng.random() < 0.85) else "/q/img"
        r = rng.random()
        if r < 0.2:
            init[cache] = "absent"
        elif r < 0.8 or not op.startswith("download"):
            init[cache] = "file:" + rng.choice(["cache%d" % i, "poolx", "pooly"])
        else:
            # (a link target is written through by download_local: keep it private or under the same lock)
            init[cache] = "link:" + rng.choice([ppath, f"/c{i}/other", f"/c{i}/gone"])
            init[f"/c{i}/other"] = "file:other%d" % i
        init.setdefault(f"/c{i}/gone", "absent")
        plan = {"op": op, "cache": cache, "pool": ppath,
                "timeout": 400 if fast else 30, "delay": rng.choice([0.0, 0.0, 0.0, 0.01, 0.03]),
                "sleep_scale": rng.choice([0.004, 0.01, 0.02]) if fast else 1.0}
        procs.append(plan)
    run = {"mode": mode, "init": init, "procs": procs}
    if mode == "plain":
        # a short sleep inside some critical sections makes contention certain
        for plan in procs:
            if rng.random() < 0.5:
                plan["inject"] = {"site": rng.randint(0, 3), "kind": "sleep", "secs": rng.choice([0.005, 0.02, 0.05])}
    elif mode in ("fault", "real"):
        k = rng.randint(1, max(1, n // 2))
        for plan in rng.sample(procs, k):
            kind = rng.choice(["kill", "kill", "raise"])
            site = rng.choice([0, 1, 2, 3, 4, "rel"] if kind == "kill" else [1, 2, 3, 4])
            plan["inject"] = {"site": site, "kind": kind}
        for plan in procs:
            if "inject" not in plan and rng.random() < 0.4:
                plan["inject"] = {"site": rng.randint(0, 2), "kind": "sleep",
                                  "secs": rng.choice([0.01, 0.03]) if fast else rng.choice([0.3, 1.2])}
    elif mode in ("timeout", "timeout-real"):
        # process 0 holds the lock longer than the others are prepared to wait
        real = mode == "timeout-real"
        hold = 3.6 if real else 0.8
        procs[0].update({"delay": 0.0, "inject": {"site": 0, "kind": "sleep", "secs": hold}, "pool": "/p/img"})
        if procs[0]["op"] == "upload;":
            init[procs[0]["cache"]] = "file:cachez"
        for plan in procs[1:]:
            plan.update({"delay": 0.25, "pool": "/p/img", "timeout": rng.choice([0, 1, 2]) if real else rng.choice([0, 1, 3, 5]),
                         "sleep_scale": 1.0 if real else 0.05})
            plan.pop("inject", None)
            if plan["op"] == "upload;":
                init[plan["cache"]] = "file:cachez"       # let it reach the lock
    return run


def all_sites_runs(rng):
    """a kill and an exception at EVERY site of the critical section of every operation (2 processes + 1 waiter)"""
    runs = []
    for op, nsites in (("download", 5), ("upload", 5), ("delete", 3), ("download;", 7)):
        for site in list(range(nsites)) + ["rel"]:
            for kind in ("kill", "raise"):
                if kind == "raise" and site in (0, "rel"):
                    continue
                init = {"/p/img": "file:poolx", "/p/other": "file:other", "/c0/img": "file:cache0",
                        "/c1/img": "file:cache1", "/c2/img": "absent", "/c0/gone": "absent"}
                if op == "download;":
                    init["/c0/img"] = "link:/p/other"      # so that the unlink and the symlink are reached
                procs = [{"op": op, "cache": "/c0/img", "pool": "/p/img", "timeout": 400, "delay": 0.0,
                          "sleep_scale": 0.01, "inject": {"site": site, "kind": kind}},
                         {"op": rng.choice(["upload", "download", "delete"]), "cache": "/c1/img", "pool": "/p/img",
                          "timeout": 400, "delay": 0.02, "sleep_scale": 0.01},
                         {"op": "download", "cache": "/c2/img", "pool": "/p/img", "timeout": 400, "delay": 0.03,
                          "sleep_scale": 0.01}]
                runs.append({"mode": "site", "init": init, "procs": procs})
    return runs


def judge_run(ctx, run, entries, final, extra, exitcodes):
    """spec oracles on one recorded run; returns (trace line, model script) for the batched driver call"""
    case = {"kind": "lock", "run": run}
    ev = trace_of(run, entries)
    n = len(run["procs"])
    ctx.count(f"lock.mode.{run['mode']}")
    ctx.count(f"lock.procs={n}")
    status = {i: a[0] for (i, w, a) in entries if w == "end"}
    acquired = {i for (i, w, a) in entries if w == "acq"}
    crashed = {i for (i, w, a) in entries if w == "crash"}
    busy = sum(1 for (i, w, a) in entries if w == "busy")
    ctx.count("lock.busy-attempts", busy)
    ctx.count("lock.contended-runs" if busy else "lock.uncontended-runs")
    for (i, w, a) in entries:
        if w == "crash":
            ctx.count("lock.crash-in-cs")
        elif w == "inject":
            ctx.count("lock.exception-in-cs")
        elif w == "fail":
            ctx.count("lock.genuine-error-in-cs." + a[1])
    for i, plan in enumerate(run["procs"]):
        inj = plan.get("inject") or {}
        if i in crashed:
            if exitcodes[i] != -signal.SIGKILL:
                raise RuntimeError(f"C14: child {i} logged a crash but exited with {exitcodes[i]}")
            continue
        if i not in status:
            raise RuntimeError(f"C14: child {i} neither ended nor crashed (exit {exitcodes[i]}): {entries}")
        timed_out = status[i] == "error:runtimeError" and i not in acquired
        if timed_out:
            ctx.count("lock.timeout-raised")
            if any(j == i and w in ("enter", "exit") for (j, w, a) in entries):
                ctx.violate("proceeded-unlocked", f"process {i} timed out but touched the files", case)
            tries = sum(1 for (j, w, a) in entries if j == i and w == "busy")
            ctx.count("lock.timeout-after-attempts=%d" % tries)
            if tries < plan["timeout"]:
                ctx.violate("gave-up-early", f"process {i} raised after {tries} attempts, timeout={plan['timeout']}", case)
            if run["mode"] not in ("timeout", "timeout-real"):
                ctx.violate("lock-stuck", f"process {i} could not obtain the lock within {plan['timeout']} attempts "
                            f"although every holder finished, raised or died", case)
        if run["mode"] in ("timeout", "timeout-real") and i > 0 and not timed_out and status[i] != "error:valueError":
            # legitimate only if the holder had not yet taken the lock or had already left it
            ctx.count("lock.timeout-run-waiter-got-lock")
    # after every run the lock must be obtainable: checked by the parent itself with the real image_lock
    return ev


def run_lock_batch(ctx, runs, width=6, budget=240):
    """execute runs in groups of `width` concurrent runs; judge; one driver call for monitor + model replay"""
    impl()
    records = []
    for k in range(0, len(runs), width):
        group = runs[k:k + width]
        t_start = time.monotonic() + 0.15
        handles = [start_run(r, t_start) for r in group]
        deadline = time.monotonic() + budget
        for h in handles:
            # the lock must still be obtainable by a fresh process after everybody finished / died
            entries, final, extra, codes = finish_run(ctx, h, deadline)
            records.append((h["run"], entries, final, extra, codes))
    lines, slots = [], []
    for (run, entries, final, extra, codes) in records:
        ev = judge_run(ctx, run, entries, final, extra, codes)
        a = len(lines)
        lines.append("trace " + " ".join(ev))
        ml, mexp = model_script(run, entries)
        b = len(lines)
        lines.extend(ml)
        paths = sorted(run["init"])
        lines.append(show_line(paths))
        slots.append((run, ev, a, b, mexp, paths, final, extra, entries))
    out = driver(lines)
    for (run, ev, a, b, mexp, paths, final, extra, entries) in slots:
        case = {"kind": "lock", "run": run}
        verdict = out[a]
        mine = py_monitor(ev)
        if verdict not in ("true", "false") or (verdict == "true") != mine:
            raise RuntimeError(f"C14: Lean monitor says {verdict}, python cross-check says {mine}: {ev}")
        if verdict != "true":
            ctx.violate("lock-overlap", "critical sections on one pool path overlap or a file was touched without "
                        "the lock: trace " + " ".join(ev), case)
        bad = check_answers(mexp, out[b:b + len(mexp)])
        if bad:
            k, want, got = bad
            ctx.disagree("lock:replay", {**case, "events": [list(map(str, e)) for e in entries][:80]},
                         f"{lines[b + k]} -> {got}", f"needs {want}")
        else:
            got_fs = out[b + len(mexp)]
            want_fs = fmt_snap(final, paths)
            if got_fs != want_fs or extra:
                ctx.disagree("lock:final-fs", case, got_fs, want_fs + (" STRAY " + ",".join(extra) if extra else ""))
        ctx.case({"kind": "lock", "mode": run["mode"], "procs": [[p["op"], p["pool"], p.get("inject")] for p in run["procs"]],
                  "events": len(entries)}, nontrivial=len(entries) > 8)


def check_lock_reusable(ctx):
    """after a SIGKILLed holder the very same lock file must be obtainable at once, by the real image_lock"""
    pool = impl()
    root = tempfile.mkdtemp(prefix="reuse-", dir=scratch())
    target = os.path.join(root, "p", "img")
    mp = multiprocessing.get_context("fork")

    def holder():
        with pool.image_lock(target, 5):
            open(os.path.join(root, "held"), "w").close()
            time.sleep(30)
    pr = mp.Process(target=holder, daemon=True)
    pr.start()
    t0 = time.monotonic()
    while not os.path.exists(os.path.join(root, "held")):
        if time.monotonic() - t0 > 20:
            pr.kill()
            raise RuntimeError("C14: holder never took the lock")
        time.sleep(0.01)
    case = {"kind": "reuse"}
    real_time = pool.time
    pool.time = Proxy(time, sleep=lambda s: time.sleep(0.01))
    try:
        try:
            with pool.image_lock(target, 2):
                ctx.violate("lock-overlap", "image_lock was granted while a live process holds it", case)
        except RuntimeError:
            ctx.count("reuse.refused-while-held")
        os.kill(pr.pid, signal.SIGKILL)
        pr.join(10)
        try:
            with pool.image_lock(target, 50):
                ctx.count("reuse.granted-after-death")
        except RuntimeError:
            ctx.violate("lock-stuck", "the lock of a SIGKILLed process was not obtainable", case)
    finally:
        pool.time = real_time
    ctx.case(case, nontrivial=True)
    shutil.rmtree(root, ignore_errors=True)


# ----------------------------------------------------------------------------------------------------------------

def correspondence(ctx):
    rng = ctx.rng
    thorough = ctx.tier == "thorough" or bool(ctx.extra.get("drift"))
    limit = hash_limit()
    ctx.extra["extracted_hash_limit_bytes"] = limit
    ctx.assumptions = list(TRUSTED)
    ctx.rule = ("seq cases: a pre-existing state of cache / pool / link-target paths in a real temp dir, one or more real "
                "TransferOps calls, the whole tracked file system compared with the Lean model after every call; lock cases: "
                "2..8 real processes on one pool path, the recorded event trace judged by the Lean monitor and replayed "
                "through the Lean protocol machine; non-trivial = some path pre-exists / more than 8 events")
    try:
        ex = exhaustive_states()
        ctx.extra["exhaustive"] = {"pre-existing states x ops (single call)": len(ex)}
        for i in range(0, len(ex), 800):
            run_seq_cases(ctx, ex[i:i + 800], limit)
        nseq = 30000 if thorough else 1500
        seq = [gen_seq_case(rng) for _ in range(nseq)]
        for i in range(0, len(seq), 1000):
            run_seq_cases(ctx, seq[i:i + 1000], limit)
        # real processes
        check_lock_reusable(ctx)
        sites = all_sites_runs(rng)
        ctx.extra["exhaustive"]["kill/raise at every site of every critical section"] = len(sites)
        if thorough:
            runs = sites + sites + [gen_lock_run(rng, "plain") for _ in range(500)] \
                + [gen_lock_run(rng, "fault") for _ in range(800)] \
                + [gen_lock_run(rng, "timeout", rng.randint(2, 5)) for _ in range(100)]
            slow = [gen_lock_run(rng, "real", rng.randint(2, 4)) for _ in range(64)] \
                + [gen_lock_run(rng, "timeout-real", rng.randint(2, 3)) for _ in range(16)]
        else:
            runs = sites + [gen_lock_run(rng, "plain") for _ in range(30)] + [gen_lock_run(rng, "fault") for _ in range(60)] \
                + [gen_lock_run(rng, "timeout", rng.randint(2, 4)) for _ in range(8)]
            slow = [gen_lock_run(rng, "real", rng.randint(2, 3)) for _ in range(6)] \
                + [gen_lock_run(rng, "timeout-real", 2) for _ in range(2)]
        run_lock_batch(ctx, runs, width=4)
        run_lock_batch(ctx, slow, width=8)
        ctx.extra["lock_runs"] = len(runs) + len(slow)
    finally:
        cleanup_scratch()


def search(ctx, reason):
    """proof or correspondence broke: bigger sample on the implementation, judged by the spec oracles only"""
    rng = ctx.rng
    limit = hash_limit()
    try:
        real_disagree = ctx.disagree
        ctx.disagree = lambda *a, **k: None
        try:
            run_seq_cases(ctx, exhaustive_states(), limit)
            if not ctx.violations:
                seq = [gen_seq_case(rng) for _ in range(4000)]
                for i in range(0, len(seq), 1000):
                    run_seq_cases(ctx, seq[i:i + 1000], limit)
                    if ctx.violations:
                        break
            if not ctx.violations:
                check_lock_reusable(ctx)
                run_lock_batch(ctx, all_sites_runs(rng) + [gen_lock_run(rng, "fault") for _ in range(60)]
                               + [gen_lock_run(rng, "timeout", 3) for _ in range(10)], width=4)
        finally:
            ctx.disagree = real_disagree
        if ctx.violations and ctx.violations[0]["case"].get("kind") == "seq":
            v = ctx.violations[0]
            c = v["case"]

            def fails(ops):
                sub = vlib.Ctx(ctx.prop, ctx.tier, ctx.seed)
                sub.disagree = lambda *a, **k: None
                try:
                    run_seq_cases(sub, [{"unit": c["unit"], "init": c["init"], "ops": [tuple(o) for o in ops]}], limit)
                except Exception:
                    return False
                return any(x["key"] == v["key"] for x in sub.violations)
            if len(c["ops"]) > 1:
                c["ops"] = vlib.shrink_list(c["ops"], fails)
    finally:
        cleanup_scratch()


def replay(ctx, payload):
    c = payload["case"]
    limit = hash_limit()
    try:
        if c.get("kind") == "seq":
            run_seq_cases(ctx, [{"unit": c["unit"], "init": c["init"], "ops": [tuple(o) for o in c["ops"]]}], limit)
        elif c.get("kind") == "lock":
            run_lock_batch(ctx, [c["run"]] * 5, width=1)
        elif c.get("kind") == "reuse":
            check_lock_reusable(ctx)
    finally:
        cleanup_scratch()
