"""C10 — retry, stop, replay and verdict rules are followed exactly (engine `rules`, rule level).

Correspondence parts (all drive the REAL /repo code in-process and the compiled Lean driver `drv_rules`):
  (h) string helpers of the model vs Python (`str.split`, `int`, `in`, `lower`)
  (a) `TestNode.should_rerun` / `TestNode.default_run_decision` on real `TestNode` objects
  (b) `TestRunner.run_test_node` on classes of bridged real `TestNode`s, arbitrary interleavings of
      executions (coroutines stepped by hand), late / never reported results, replay step, creation pre-step
  (c) `TestRunner.all_results_ok` and the verdict part of the real `TestRunner.run_suite`
A spec oracle judges the implementation's own answers by the sentence of the property.
"""
import ast
import asyncio
import itertools
import json
import logging
import os
import re
import shutil
import tempfile
import types
from unittest import mock

import vlib

PROP = "C10"
ENGINE = "rules"
TARGETS = ["I2N.Props.C10", "drv_rules"]
PROPS_FILE = "I2N/Props/C10.lean"
ANCHORS = {
    "avocado_i2n/cartgraph/node.py": ["TestNode.should_rerun", "TestNode.default_run_decision",
                                      "TestNode.shared_results", "TestNode.shared_filtered_results"],
    "avocado_i2n/plugins/runner.py": ["TestRunner.run_test_node", "TestRunner.all_results_ok", "TestRunner.run_suite"],
    "avocado_i2n/cartgraph/graph.py": ["TestGraph.traverse_node", "TestGraph.traverse_terminal_node"],
}
TRUSTED = [
    "modelled, not verified: Python str.split/int()/lower()/`in` are re-implemented for ASCII in the model and "
    "cross-checked on every run; regular expression matching of the bridged form (previous results arrive pre-filtered); "
    "avocado: a started task reports under its own (name, uid) or not at all; avocado.core.job maps the suite summary "
    "to the exit code (failure iff INTERRUPTED/FAIL/ERROR in the summary); STATUSES_MAPPING is read from the installed avocado",
    "scope of this check is the rule level (one node class); runs of the whole traversal are covered by the E6 monitors",
    "harness/pygen.py (Python AST -> Lean `do` block, fails closed) regenerates I2N/Extracted/GenRules.lean on every run "
    "from the source of TestNode.should_rerun and TestNode.shared_filtered_results; shouldRerun_matches_source / "
    "filteredResults_matches_source prove the hand written shouldRerun / filteredResults equal to it for all "
    "configurations, workers and result lists (value and raised error).  Trusted: the translator (loop over a literal "
    "list unrolled; {*a} - {*b} and {*a} & {*b} as List.filter with only their emptiness observed; accumulation loop as "
    "List.foldl; raise as throw chosen by exception class and message prefix; calls of logging.* and locals read only by "
    "log / exception messages dropped); the atom table RERUN_SPEC / FILTERED_SPEC of harness/pygen.py (parameters are "
    "the fields of Cfg: self.params.get('dry_run', 'no'), self.is_flat(), len(self.cloned_nodes) > 0, "
    "self.params['name'], truthiness of self.params.get('replay'), the three get_list calls as getListChar / getListWs, "
    "get_numeric('max_tries', d) = int(params.get(key, d)) with ValueError as Err.badTries, "
    "len(self.get_stateful_objects()) == 0, self.shared_results, 'swarm' / 'cluster' in self.params['pool_scope'], "
    "self.params.get('nets_spawner'); a result dictionary is the structure Result: r['status'], r['name'] are total; "
    "`worker` / `self.started_worker` stand for their truthiness and worker.id / .swarm_id are read only behind it); the "
    "pinned body of the stateful branch of should_rerun (it sets self.started_worker to `old or worker`, reads "
    "shared_filtered_results and restores the attribute: its net effect is test_statuses := statuses of "
    "genFilteredResults c (c.startedWorker <|> w) shared — mirrored by hand, tied by the correspondence run)",
    "GenRules.lean also holds genDefaultRunDecision (TestNode.default_run_decision, in the state monad StateT Bool "
    "(Except Err): the state is whether the instance attribute should_rerun was replaced by `lambda _: False` — that "
    "assignment is a pinned statement standing for `set true`; self.should_rerun(worker) is the action rerunM = the "
    "generated genShouldRerun unless disabled; self.is_finished(worker, 1) and self.scan_states() are the inputs "
    "`finished` / `scanRun`; `a or <action>` is printed as statements so that the action runs only when Python runs "
    "it); defaultRunDecision_matches_source proves the hand written defaultRunDecision equal to it for all inputs",
    "harness/pygen_pxrunner.py regenerates I2N/Extracted/GenRunner.lean from TestRunner.run_test_node (cut at its two "
    "awaits into straight-line segments) and TestRunner.all_results_ok.  Trusted: the cut (segments between the awaits; "
    "the final `return <frame>` of the locals that live across a suspension; the generator of next(...) read as a list "
    "whose first element next returns), the loop skeletons genPoll / genPolls / genRunTestNode / genAllOkLoop written in "
    "Lean and matched structurally against the source, the atom table (node.id_test.uid = the current node.prefix; only "
    "the length of node.shared_results is read; result dictionaries as Result / JobRes; float(time_elapsed) as a natural "
    "number; STATUSES_MAPPING[s] as the extracted mapping with KeyError), the pinned statements (retry prefix f-string, "
    "placeholder dictionary and its append, max(..., default=duration), the PASS->WARN rule with 1.25 written as 5/4 and "
    "the in-place change of the job record as warnFirst, the copy of the job record into node.results, the restore of "
    "the prefix, two log statements), and the translator addition any/all over a raising Boolean atom = List.anyM/allM",
]

# the property's eight statuses and the acceptable ones -- deliberately NOT taken from /repo or the model
STAT8 = ["fail", "error", "pass", "warn", "skip", "cancel", "interrupted", "unknown"]
ACCEPTABLE = {"PASS", "WARN", "SKIP", "CANCEL"}
REPORTED7 = ["PASS", "FAIL", "ERROR", "WARN", "SKIP", "CANCEL", "INTERRUPTED"]

EXTRACTED = os.path.join(vlib.LEAN, "I2N", "Extracted", "Rules.lean")


# ---------------------------------------------------------------------------------------------
# extraction (fail closed)
# ---------------------------------------------------------------------------------------------

class ExtractError(RuntimeError):
    pass


def _find(tree, qual):
    body = tree.body
    node = None
    for part in qual.split("."):
        node = next((n for n in body if isinstance(n, (ast.FunctionDef, ast.AsyncFunctionDef, ast.ClassDef))
                     and n.name == part), None)
        if node is None:
            raise ExtractError(f"cannot find {qual}")
        body = node.body
    return node


def _const(n, typ):
    if not (isinstance(n, ast.Constant) and isinstance(n.value, typ)):
        raise ExtractError(f"expected a {typ} literal, found {ast.dump(n)[:80]}")
    return n.value


def _calls(fn, attr, first):
    for n in ast.walk(fn):
        if (isinstance(n, ast.Call) and isinstance(n.func, ast.Attribute) and n.func.attr == attr and n.args
                and isinstance(n.args[0], ast.Constant) and n.args[0].value == first):
            yield n


def _one(it, what):
    lst = list(it)
    if len(lst) != 1:
        raise ExtractError(f"{what}: expected exactly one occurrence, found {len(lst)}")
    return lst[0]


def extract_values():
    node_py = ast.parse(open(os.path.join(vlib.REPO, "avocado_i2n/cartgraph/node.py")).read())
    runner_py = ast.parse(open(os.path.join(vlib.REPO, "avocado_i2n/plugins/runner.py")).read())
    graph_py = ast.parse(open(os.path.join(vlib.REPO, "avocado_i2n/cartgraph/graph.py")).read())
    v = {}
    sr = _find(node_py, "TestNode.should_rerun")
    asg = _one((n for n in ast.walk(sr) if isinstance(n, ast.Assign) and isinstance(n.targets[0], ast.Name)
                and n.targets[0].id == "all_statuses"), "all_statuses")
    if not isinstance(asg.value, ast.List):
        raise ExtractError("all_statuses is not a list literal")
    v["allStatuses"] = [_const(e, str) for e in asg.value.elts]
    # self.params.get("dry_run", "no") == "yes"
    cmp_ = _one((n for n in ast.walk(sr) if isinstance(n, ast.Compare) and isinstance(n.left, ast.Call)
                 and isinstance(n.left.func, ast.Attribute) and n.left.func.attr == "get" and n.left.args
                 and isinstance(n.left.args[0], ast.Constant) and n.left.args[0].value == "dry_run"), "dry_run test")
    if not isinstance(cmp_.ops[0], ast.Eq):
        raise ExtractError("dry_run comparison is not ==")
    v["dryRunDefault"] = _const(cmp_.left.args[1], str)
    v["dryRunYes"] = _const(cmp_.comparators[0], str)
    gl = [c for c in _calls(sr, "get_list", "rerun_status")]
    with_delim = [c for c in gl if c.keywords]
    if len(gl) != 2 or len(with_delim) != 1:
        raise ExtractError("rerun_status get_list calls moved")
    v["replayRerunDefault"] = _const(with_delim[0].args[1], str)
    kw = with_delim[0].keywords[0]
    if kw.arg != "delimiter" or len(_const(kw.value, str)) != 1:
        raise ExtractError("rerun_status delimiter moved")
    v["replayRerunDelimiter"] = kw.value.value
    gn = _one(_calls(sr, "get_numeric", "max_tries"), "max_tries get_numeric")
    if not isinstance(gn.args[1], ast.IfExp):
        raise ExtractError("max_tries default is no conditional expression")
    v["maxTriesReplayDefault"] = _const(gn.args[1].body, int)
    v["maxTriesDefault"] = _const(gn.args[1].orelse, int)
    rl = _one((n for n in ast.walk(sr) if isinstance(n, ast.Assign) and isinstance(n.targets[0], ast.Name)
               and n.targets[0].id == "reruns_left"), "reruns_left")
    if not (isinstance(rl.value, ast.IfExp) and isinstance(rl.value.test, ast.Compare)
            and isinstance(rl.value.test.ops[0], ast.Eq) and _const(rl.value.body, int) == 0):
        raise ExtractError("reruns_left expression moved")
    v["maxTriesNoRerun"] = _const(rl.value.test.comparators[0], int)
    sf = _find(node_py, "TestNode.shared_filtered_results")
    consts = [n.value for n in ast.walk(sf) if isinstance(n, ast.Constant) and isinstance(n.value, str)]
    for key, word in (("scopeSwarm", "swarm"), ("scopeCluster", "cluster"), ("spawnerLxc", "lxc"), ("spawnerRemote", "remote")):
        if consts.count(word) != 1:
            raise ExtractError(f"shared_filtered_results: literal {word!r} moved")
        v[key] = word
    rn = _find(runner_py, "TestRunner.run_test_node")
    args = rn.args
    if [a.arg for a in args.args][-1] != "status_timeout":
        raise ExtractError("status_timeout argument moved")
    v["statusTimeout"] = _const(args.defaults[-1], int)
    js = _one((n for n in ast.walk(rn) if isinstance(n, ast.JoinedStr) and len(n.values) == 2
               and isinstance(n.values[0], ast.Constant) and isinstance(n.values[1], ast.FormattedValue)
               and isinstance(n.values[1].value, ast.Name) and n.values[1].value.id == "run_times"), "retry suffix")
    v["retryInfix"] = js.values[0].value
    nr = _one((n for n in ast.walk(rn) if isinstance(n, ast.Assign) and isinstance(n.targets[0], ast.Name)
               and n.targets[0].id == "node_result"), "node_result placeholder")
    d = {_const(k, str): _const(val, str) for k, val in zip(nr.value.keys, nr.value.values) if isinstance(val, ast.Constant)}
    if set(d) != {"status"}:
        raise ExtractError("placeholder dictionary changed shape")
    v["unknownStatus"] = d["status"]
    factor = _one((n for n in ast.walk(rn) if isinstance(n, ast.Constant) and isinstance(n.value, float)), "duration factor")
    num, den = factor.value.as_integer_ratio()
    v["durationFactorNum"], v["durationFactorDen"] = num, den
    strs = [n.value for n in ast.walk(rn) if isinstance(n, ast.Constant) and isinstance(n.value, str)]
    if strs.count("PASS") != 2 or strs.count("WARN") != 1:
        raise ExtractError("PASS/WARN literals of the duration rule moved")
    v["passStatus"], v["warnStatus"] = "PASS", "WARN"
    fl = _one((n for n in ast.walk(rn) if isinstance(n, ast.Compare) and isinstance(n.ops[0], ast.In)
               and isinstance(n.left, ast.Name) and n.left.id == "test_status"), "failing statuses")
    v["failingStatuses"] = [_const(e, str) for e in fl.comparators[0].elts]
    rs = _find(runner_py, "TestRunner.run_suite")
    adds = [n for n in ast.walk(rs) if isinstance(n, ast.Call) and isinstance(n.func, ast.Attribute)
            and n.func.attr == "add" and isinstance(n.func.value, ast.Name) and n.func.value.id == "summary"]
    words = sorted(_const(a.args[0], str) for a in adds)
    if words != ["FAIL", "INTERRUPTED"]:
        raise ExtractError(f"run_suite summary words changed: {words}")
    v["suiteFailWord"] = "FAIL"
    tt = _find(graph_py, "TestGraph.traverse_terminal_node")
    pc = _one((n for n in ast.walk(tt) if isinstance(n, ast.Call) and isinstance(n.func, ast.Attribute)
               and n.func.attr == "parse_node_from_object"), "pre-node construction")
    pk = [k for k in pc.keywords if k.arg == "prefix"]
    if len(pk) != 1:
        raise ExtractError("pre-node prefix moved")
    v["prePrefix"] = _const(pk[0].value, str)
    from avocado.core.teststatus import STATUSES_MAPPING
    v["statusesMapping"] = [(k, bool(b)) for k, b in STATUSES_MAPPING.items()]
    return v


def _ls(s):
    return json.dumps(s)


def render_extracted(v):
    def lst(xs):
        return "[" + ", ".join(_ls(x) for x in xs) + "]"
    mapping = "[" + ", ".join(f"({_ls(k)}, {'true' if b else 'false'})" for k, b in v["statusesMapping"]) + "]"
    delim = v["replayRerunDelimiter"]
    return f"""/- GENERATED on every run by harness/props/c10.py:extract from the AST of /repo
   (avocado_i2n/cartgraph/node.py, avocado_i2n/plugins/runner.py, avocado_i2n/cartgraph/graph.py) and from
   avocado.core.teststatus.STATUSES_MAPPING.  Do not edit. -/
namespace I2N.Extracted.Rules
def allStatuses : List String := {lst(v['allStatuses'])}
def dryRunDefault : String := {_ls(v['dryRunDefault'])}
def dryRunYes : String := {_ls(v['dryRunYes'])}
def replayRerunDefault : String := {_ls(v['replayRerunDefault'])}
def replayRerunDelimiter : Char := '{delim}'
def maxTriesDefault : Int := {v['maxTriesDefault']}
def maxTriesReplayDefault : Int := {v['maxTriesReplayDefault']}
def maxTriesNoRerun : Int := {v['maxTriesNoRerun']}
def scopeSwarm : String := {_ls(v['scopeSwarm'])}
def scopeCluster : String := {_ls(v['scopeCluster'])}
def spawnerLxc : String := {_ls(v['spawnerLxc'])}
def spawnerRemote : String := {_ls(v['spawnerRemote'])}
def unknownStatus : String := {_ls(v['unknownStatus'])}
def retryInfix : String := {_ls(v['retryInfix'])}
def statusTimeout : Nat := {v['statusTimeout']}
def durationFactorNum : Nat := {v['durationFactorNum']}
def durationFactorDen : Nat := {v['durationFactorDen']}
def passStatus : String := {_ls(v['passStatus'])}
def warnStatus : String := {_ls(v['warnStatus'])}
def failingStatuses : List String := {lst(v['failingStatuses'])}
def suiteFailWord : String := {_ls(v['suiteFailWord'])}
def prePrefix : String := {_ls(v['prePrefix'])}
def statusesMapping : List (String × Bool) := {mapping}
end I2N.Extracted.Rules
"""


def extract(ctx):
    v = extract_values()            # raises (exit 2) when a literal is no longer where it was
    text = render_extracted(v)
    old = open(EXTRACTED).read() if os.path.exists(EXTRACTED) else None
    if old != text:
        os.makedirs(os.path.dirname(EXTRACTED), exist_ok=True)
        with open(EXTRACTED, "w") as fh:
            fh.write(text)
        ctx.notes.append("Extracted/Rules.lean was regenerated with changed content")
    ctx.extra["extracted"] = {k: v[k] for k in ("allStatuses", "replayRerunDefault", "maxTriesDefault",
                                                "maxTriesReplayDefault", "statusTimeout", "retryInfix")}
    global _EXTRACTED_VALUES
    _EXTRACTED_VALUES = v
    _extract_gen(ctx)


def _extract_gen(ctx):
    """second tie: the control flow of should_rerun / shared_filtered_results translated to Lean (raises
    pygen.Unsupported when a function left the translated subset; run.py records that as a proof problem)"""
    import pygen
    if pygen.extract_rules(ctx):
        ctx.notes.append("I2N/Extracted/GenRules.lean changed: the source of TestNode.should_rerun / "
                         "shared_filtered_results differs from the one the committed file was generated from "
                         "(shouldRerun_matches_source / filteredResults_matches_source are re-checked)")
    import pygen_pxrunner
    if pygen_pxrunner.extract_runner(ctx):
        ctx.notes.append("I2N/Extracted/GenRunner.lean changed: the source of TestRunner.run_test_node / all_results_ok "
                         "differs from the one the committed file was generated from (runBefore_/pollFound_/poll_/"
                         "runAfter_/allResultsOk_matches_source are re-checked)")
    ctx.extra["regenerated"] = ("lean/I2N/Extracted/GenRules.lean (TestNode.should_rerun, shared_filtered_results, "
                                "default_run_decision via harness/pygen.py); lean/I2N/Extracted/GenRunner.lean "
                                "(TestRunner.run_test_node cut at its two awaits into the segments genRunBefore, genLookup, "
                                "genPollFound, genPollMiss, genRunAfter, and the any(...) of TestRunner.all_results_ok, via "
                                "harness/pygen_pxrunner.py); obligations: allResultsOk_matches_source, "
                                "runBefore_matches_source, pollFound_matches_source, poll_matches_source, "
                                "pollMiss_matches_source, statusTimeout_matches_source, runAfter_matches_source, "
                                "beginExec_matches_source, placeholder_stays_when_unreported")


_EXTRACTED_VALUES = None


def status_timeout():
    v = _EXTRACTED_VALUES or extract_values()
    return v["statusTimeout"]


# ---------------------------------------------------------------------------------------------
# the real code
# ---------------------------------------------------------------------------------------------

class W:
    """worker stub (hashable, unlike SimpleNamespace): what the anchored code reads of a TestWorker"""

    def __init__(self, swarm_id, id_):
        self.swarm_id, self.id = swarm_id, id_
        self.spawner = object()
        self.restrs = {}

    def get_session(self):
        return None

    def __repr__(self):
        return f"W({self.swarm_id}/{self.id})"


class Door:
    """stub of avocado_i2n.cartgraph.node.door (the seam the selftests replace): the state scan outcome"""
    scan_run = False

    @staticmethod
    def set_subcontrol_parameter(path, key, value):
        return path

    @staticmethod
    def set_subcontrol_parameter_dict(path, key, value):
        return path

    @staticmethod
    def run_subcontrol(session, path):
        if Door.scan_run:
            from aexpect.exceptions import ShellCmdError
            raise ShellCmdError(1, "check", "AssertionError")


_impl = None
_scr = None


def impl():
    global _impl, _scr
    if _impl is None:
        _scr = tempfile.mkdtemp(prefix="i2n-verif-c10-")
        os.chdir(_scr)
        from avocado_i2n.cartgraph import node as node_mod
        from avocado_i2n.cartgraph.node import TestNode
        from avocado_i2n.cartgraph.graph import TestGraph
        from avocado_i2n.cartgraph.worker import TestSwarm
        from avocado_i2n.plugins.runner import TestRunner
        from avocado_i2n import params_parser as param
        from avocado.core.test_id import TestID
        from virttest.utils_params import Params
        _impl = types.SimpleNamespace(node_mod=node_mod, TestNode=TestNode, TestGraph=TestGraph, TestSwarm=TestSwarm,
                                      TestRunner=TestRunner, param=param, TestID=TestID, Params=Params)
    return _impl


def cleanup_impl():
    global _scr
    if _scr and os.path.isdir(_scr):
        os.chdir("/")
        shutil.rmtree(_scr, ignore_errors=True)
    _scr = None


def node_name(test, swarm, wid, setv="normal"):
    last = wid.split(".")[-1]
    return f"{setv}.nongui.{test}.vm1.virtio_blk.CentOS.8.nets.{swarm}.{last}"


def mk_node(I, prefix, name, swarm, wid, params, stateful, flat=False):
    n = I.TestNode(prefix, I.param.Reparsable())
    last = wid.split(".")[-1]
    d = {"name": name, "shortname": name, "nets": last, "vms": "vm1", "images": "image1",
         "main_restrictions": "normal minimal all leaves", "vms_base_dir": "/nonexistent", "suite_path": "/nonexistent",
         "shared_pool": "/nonexistent/shared", "nets_host": "", "nets_gateway": "",
         "_name_map_file": {"nets.cfg": f"nets.{swarm}.{last}"}}
    d.update(params)
    n._params_cache = I.Params(d)
    st = {"set_state": "ready", "shared_pool": "/nonexistent/shared"} if stateful else {}
    obj = types.SimpleNamespace(object_typed_params=lambda p, st=st: I.Params(st), key="images", long_suffix="image1_vm1",
                                suffix="image1", id="image1_vm1", is_permanent=lambda: False, current_state=None)
    n.objects = [] if flat else [obj]
    return n


def canon_exc(e):
    msg = str(e)
    if isinstance(e, RuntimeError):
        return "error:runtimeError"
    if isinstance(e, ValueError):
        if msg.startswith("Value of rerun status must be a valid test status"):
            return "error:badRerunStatus"
        if msg.startswith("Value of stop status must be a valid test status"):
            return "error:badStopStatus"
        if msg.startswith("Number of max_tries cannot be less than zero"):
            return "error:negativeTries"
        if msg.startswith("invalid literal for int()"):
            return "error:badTries"
        if "not in list" in msg:
            return "error:removeMissing"
    if isinstance(e, KeyError):
        return "error:keyError"
    return f"error:{type(e).__name__}:{msg[:60]}"


# ---------------------------------------------------------------------------------------------
# (h) helper cross-checks
# ---------------------------------------------------------------------------------------------

def run_helper_cases(ctx, n):
    rng = ctx.rng
    alpha = list("ab1 \t,_-+.") + ["fail", "pass", "net1", "net11", "3", "10", "F"]
    lines, expect, cases = [], [], []

    def word(k):
        return "".join(rng.choice(alpha) for _ in range(rng.randint(0, k)))
    fixed_int = ["", " ", "3", " 3 ", "+3", "-3", "-0", "03", "1_0", "1__0", "_1", "1_", "3.5", "x", "- 3", "+-3", "1 0",
                 "\t7\n".replace("\n", ""), "12345678901234567890"]
    for i in range(n):
        s = word(6)
        if ";" in s or "\n" in s:
            continue
        k = rng.randrange(5)
        if k == 0:
            lines.append("splitws;" + s)
            expect.append("|".join(s.split()))
        elif k == 1:
            lines.append("splitcomma;" + s)
            expect.append("|".join(s.split(",")))
        elif k == 2:
            s2 = fixed_int[i % len(fixed_int)] if i < 4 * len(fixed_int) else s
            lines.append("int;" + s2)
            try:
                expect.append(str(int(s2)))
            except ValueError:
                expect.append("error")
            s = s2
        elif k == 3:
            a = word(3)
            if ";" in a:
                continue
            lines.append(f"substr;{a};{s}")
            expect.append("true" if a in s else "false")
            s = [a, s]
        else:
            lines.append("lower;" + s)
            expect.append(s.lower())
        cases.append(s)
        ctx.count("helper." + lines[-1].split(";")[0])
    out = vlib.driver("drv_rules", lines)
    for ln, want, got in zip(lines, expect, out):
        ctx.case({"kind": "helper", "line": ln}, nontrivial=False)
        if want != got:
            ctx.disagree("helper:" + ln.split(";")[0], {"kind": "helper", "line": ln}, got, want)
            break


# ---------------------------------------------------------------------------------------------
# (a) should_rerun / default_run_decision
# ---------------------------------------------------------------------------------------------

WORKERS = [("localhost", "net1"), ("localhost", "net2"), ("cluster1", "cluster1.net6"), ("cluster2", "cluster2.net6")]
CONFUSABLE = [("localhost", "net1"), ("localhost", "net11")]
POOLS = ["own swarm cluster shared", "own", "own swarm", "own cluster shared", "swarm cluster shared", ""]


def opt(x):
    return "~" if x is None else x


def b01(b):
    return "1" if b else "0"


def enc_worker(w):
    return "~" if w is None else f"{w[0]}/{w[1]}"


def enc_results(rs):
    return "|".join(f"{n}:{s}:{'~' if t is None else t}" for n, s, t in rs)


def rule_line(c):
    cfg = [c["name"], opt(c["dry"]), b01(c["flat"]), b01(c["clone"]), opt(c["replay"]), opt(c["rerun"]), opt(c["stop"]),
           opt(c["max"]), b01(c["stateful"]), c["pool"], opt(c["spawner"]), enc_worker(c["started"])]
    tail = [enc_worker(c["worker"]), enc_results(c["results"])]
    if c["op"] == "decide":
        tail += [b01(c["finished"]), b01(c["scan"]), b01(c["disabled"])]
    line = ";".join([c["op"]] + cfg + tail)
    assert "\n" not in line and line.count(";") == len(cfg) + len(tail), line
    return line


def run_rule_impl(I, c, wobjs):
    """Build the real TestNode for the case and ask the real decision function."""
    wk = lambda w: None if w is None else wobjs.setdefault(tuple(w), W(*w))
    own = c["own"]
    params = {"pool_scope": c["pool"]}
    for key, field in (("dry_run", "dry"), ("replay", "replay"), ("rerun_status", "rerun"), ("stop_status", "stop"),
                       ("max_tries", "max"), ("nets_spawner", "spawner")):
        if c[field] is not None:
            params[key] = c[field]
    n = mk_node(I, "1", c["name"], own[0], own[1], params, c["stateful"], flat=c["flat"])
    if c["clone"]:
        n._cloned_nodes = [object()]
    # shared results = own results ++ results of one bridged node
    k = c.get("own_results", len(c["results"]))
    as_dict = lambda r: ({"name": r[0], "status": r[1]} if r[2] is None
                         else {"name": r[0], "status": r[1], "time_elapsed": r[2]})
    n.results = [as_dict(r) for r in c["results"][:k]]
    if k < len(c["results"]):
        other = next(w for w in WORKERS if tuple(w) != tuple(own))
        m = mk_node(I, "1", node_name("tutorial1", other[0], other[1]), other[0], other[1], {"pool_scope": c["pool"]},
                    c["stateful"])
        m.results = [as_dict(r) for r in c["results"][k:]]
        n._bridged_nodes.append(m)
        m._bridged_nodes.append(n)
    n.started_worker = wk(c["started"])
    worker = wk(c["worker"])
    try:
        if c["op"] == "rerun":
            return "true" if n.should_rerun(worker) else "false"
        n.finished_worker = worker if c["finished"] else None
        if c["disabled"]:
            n.should_rerun = lambda _: False
        Door.scan_run = c["scan"]
        with mock.patch.object(I.node_mod, "door", Door):
            res = n.default_run_decision(worker)
        return ("true" if res else "false") + " " + ("true" if "should_rerun" in n.__dict__ else "false")
    except Exception as e:        # noqa
        return canon_exc(e)


def scope_statuses(c, w="default", fallback=True):
    """ORACLE: the statuses 'so far' that count for the deciding worker, from the generator's own knowledge of which
    worker produced which result (not by substring tests)."""
    rs = c["results"]
    if not c["stateful"] and fallback:
        return [s.lower() for _, s, _ in rs]
    if w == "default":
        w = c["started"] or c["worker"]
    prods = c["producers"]
    if w is None:
        return [s.lower() for _, s, _ in rs]
    words = c["pool"].split()
    if c["spawner"] == "lxc" and "swarm" not in words:
        return [s.lower() for (_, s, _), p in zip(rs, prods) if tuple(p) == tuple(w)]
    if c["spawner"] == "remote" and "cluster" not in words:
        return [s.lower() for (_, s, _), p in zip(rs, prods) if p[0] == w[0]]
    return [s.lower() for _, s, _ in rs]


def judge_rule(ctx, c, got):
    """ORACLE for one rule case, by the sentence of the property, on the implementation's answer `got`."""
    it = c["intent"]
    if not it.get("judge", True):
        return
    wrong_worker = c["worker"] is not None and tuple(c["worker"]) != tuple(c["own"])
    gated = c["dry"] == "yes" or c["flat"] or c["clone"]
    if gated:
        want = "false" if c["op"] == "rerun" else "false"
        if got.split()[0] != want:
            ctx.violate("not-runnable-node-run", f"dry-run / flat / clone-source node got decision {got}", c)
        return
    if wrong_worker:
        if got != "error:runtimeError":
            ctx.violate("wrong-worker-accepted", f"decision for a foreign worker returned {got}", c)
        return
    sts = scope_statuses(c)
    R = it["R"]
    if R is None or (R == [] and not c["replay"]):
        R = ["fail", "error", "warn"] if c["replay"] else STAT8
    S = it["S"] or []
    M = it["M"] if it["M"] is not None else (2 if c["replay"] else 1)
    again = len(sts) < M and set(sts) <= set(R) and not (set(sts) & set(S))
    # does the decision get as far as looking at the retry settings, and what should it be?
    reaches_rule, want_run = True, None
    if c["op"] == "rerun":
        want_run = again if len(sts) >= 1 else None
    elif not c["stateful"]:
        if len(c["results"]) == 0:
            reaches_rule, want_run = False, True          # first execution
        else:
            want_run = again
    else:
        if (not c["finished"]) and c["scan"]:
            reaches_rule, want_run = False, True          # "unless a state it produces is missing"
        elif c["disabled"] or len(scope_statuses(c, c["started"], fallback=False)) == 0:
            reaches_rule = False                           # never executed in this scope: the sentence is silent
        else:
            want_run = again if len(sts) >= 1 else None
    if not it["valid"]:
        if reaches_rule:
            if not got.startswith("error:") or got == "error:runtimeError":
                ctx.violate("invalid-setting-ignored",
                            f"invalid retry setting ({it['why']}) was not rejected: decision {got}", c)
        return
    if got.startswith("error:"):
        ctx.violate("valid-setting-rejected", f"valid retry settings raised {got}", c)
        return
    if want_run is None:
        ctx.count("oracle.silent")
        return
    ctx.count("oracle.judged." + ("run" if want_run else "skip"))
    if (got.split()[0] == "true") != want_run:
        key = "replay-rule" if c["replay"] else "retry-rule"
        ctx.violate(key, f"decision {got.split()[0]} but the rule (tries remain={len(sts) < M}, statuses {sorted(set(sts))} "
                         f"within rerun set={set(sts) <= set(R)}, stop hit={bool(set(sts) & set(S))}) says {want_run}", c)


def render_set(rng, words, replay, noise):
    """-> (string, valid, why).  The right delimiter is ',' when replaying, whitespace otherwise."""
    right = "," if replay else " "
    wrong = " " if replay else ","
    if noise == "wrongdelim":
        s = wrong.join(words)
        return s, len(words) <= 1, "wrong delimiter"
    if noise == "spaces" and words:
        if replay:
            return ", ".join(words), len(words) <= 1, "blank after comma"
        return "  " + "   ".join(words) + " ", True, ""
    if noise == "upper" and words:
        i = rng.randrange(len(words))
        ws = list(words)
        ws[i] = ws[i].upper()
        return right.join(ws), False, "upper-case status word"
    if noise == "bogus":
        ws = list(words)
        ws.insert(rng.randint(0, len(ws)), rng.choice(["invalid", "passed", "ok", "failed", "unknow"]))
        return right.join(ws), False, "unknown status word"
    if noise == "trailing" and words and replay:
        return right.join(words) + ",", False, "trailing comma"
    return right.join(words), True, ""


MAX_TRIES = [(None, None, True), ("-1", -1, False), ("0", 0, True), ("1", 1, True), ("2", 2, True), ("3", 3, True),
             ("x", None, False), ("3.5", None, False)]
MAX_TRIES_EXTRA = [(" 2 ", 2, True), ("+3", 3, True), ("", None, False), ("4", 4, True), ("-32", -32, False), ("02", 2, True)]


def subsets_small():
    out = [[]]
    out += [[a] for a in STAT8]
    out += [list(p) for p in itertools.combinations(STAT8, 2)]
    out.append(list(STAT8))
    return out


def base_case(op, own, worker, replay, stateful, results, producers, mt, rerun, stop, rvalid=True, svalid=True,
              R=None, S=None, why="", **kw):
    c = {"kind": "rule", "op": op, "own": list(own), "name": node_name("tutorial1", own[0], own[1]),
         "dry": None, "flat": False, "clone": False, "replay": "prevjob" if replay else None,
         "rerun": rerun, "stop": stop, "max": mt[0], "stateful": stateful, "pool": POOLS[0], "spawner": "lxc",
         "started": None, "worker": None if worker is None else list(worker), "results": results,
         "producers": producers, "finished": True, "scan": False, "disabled": False,
         "intent": {"R": R, "S": S, "M": mt[1], "valid": bool(mt[2] and rvalid and svalid),
                    "why": why or ("max_tries" if not mt[2] else "")}}
    c.update(kw)
    return c


def results_for(own, statuses, rng=None, others=None):
    """results named after the producing worker's copy of the test; -> (results, producers)"""
    res, prods = [], []
    for i, st in enumerate(statuses):
        p = own if not others else others[i]
        res.append([node_name("tutorial1", p[0], p[1]), st.upper(), None if st == "unknown" else 1 + (i % 3)])
        prods.append(list(p))
    return res, prods


def gen_rule_exhaustive(tier):
    """E1: all outcome sequences of length <= 3 x the eight max_tries values x replay x stateless/stateful, default sets.
       E2: all pairs of small subsets x sequences of length <= 1 (quick) / <= 2 (thorough), max_tries=3."""
    own = WORKERS[0]
    seqs = [list(p) for k in range(0, 4) for p in itertools.product(STAT8, repeat=k)]
    for seq in seqs:
        for mt in MAX_TRIES:
            for replay in (False, True):
                for stateful in (False, True):
                    res, prods = results_for(own, seq)
                    for op in ("rerun", "decide"):
                        yield base_case(op, own, own, replay, stateful, res, prods, mt, None, None,
                                        started=list(own) if stateful else None)
    subs = subsets_small()
    maxlen = 2 if tier == "thorough" else 1
    seqs2 = [list(p) for k in range(0, maxlen + 1) for p in itertools.product(STAT8, repeat=k)]
    for R in subs:
        for S in subs:
            for seq in seqs2:
                for replay in (False, True):
                    res, prods = results_for(own, seq)
                    d = "," if replay else " "
                    yield base_case("rerun", own, own, replay, False, res, prods, MAX_TRIES[5],
                                    d.join(R), " ".join(S), R=R, S=S)


def gen_rule_random(rng, confusable=False):
    workers = CONFUSABLE if confusable else WORKERS
    own = rng.choice(workers)
    replay = rng.random() < 0.4
    stateful = rng.random() < 0.5
    n = rng.choice([0, 1, 1, 2, 2, 3, 3, 4, 5])
    favoured = rng.sample(STAT8, rng.randint(1, 3))
    seq = [rng.choice(favoured if rng.random() < 0.7 else STAT8) for _ in range(n)]
    others = [own if rng.random() < 0.6 else rng.choice(workers) for _ in range(n)]
    res, prods = results_for(own, seq, others=others)
    if rng.random() < 0.2:        # results of a previous job: other test set variant in the name
        res = [[r[0].replace("normal.", "all.", 1), r[1], r[2]] for r in res]
    # own results first, then the bridged node's (only the order inside shared_results changes)
    order = sorted(range(n), key=lambda i: tuple(prods[i]) != tuple(own))
    res, prods = [res[i] for i in order], [prods[i] for i in order]
    own_results = sum(1 for p in prods if tuple(p) == tuple(own))
    pool_mt = MAX_TRIES + MAX_TRIES_EXTRA
    mt = rng.choice([m for m in pool_mt if m[2]] if rng.random() < 0.8 else [m for m in pool_mt if not m[2]])
    # rerun / stop sets
    def pick_set(bias_from):
        r = rng.random()
        if r < 0.25:
            return None
        if r < 0.35:
            return []
        k = rng.choice([1, 1, 2, 2, 3, 8])
        base = [s for s in bias_from] if rng.random() < 0.6 and bias_from else []
        ws = list(dict.fromkeys(base + rng.sample(STAT8, min(k, 8))))[:max(k, len(base))]
        return ws
    R = pick_set(seq)
    S = pick_set([])
    if S and rng.random() < 0.6:
        S = [s for s in S if s not in seq] if rng.random() < 0.7 else S
    noise_r = rng.choice([None] * 12 + ["wrongdelim", "spaces", "upper", "bogus", "trailing"])
    noise_s = rng.choice([None] * 16 + ["wrongdelim", "spaces", "upper", "bogus"])
    rerun, rvalid, rwhy = (None, True, "") if R is None else render_set(rng, R, replay, noise_r)
    stop, svalid, swhy = (None, True, "") if S is None else render_set(rng, S, False, noise_s)
    op = rng.choice(["rerun", "decide", "decide"])
    worker = own
    r = rng.random()
    if r < 0.05:
        worker = rng.choice([w for w in workers if w != own])
    elif r < 0.15 and op == "rerun":
        worker = None
    c = base_case(op, own, worker, replay, stateful, res, prods, mt, rerun, stop, rvalid, svalid, R=R, S=S,
                  why="; ".join(x for x in (rwhy if not rvalid else "", swhy if not svalid else "") if x))
    c["own_results"] = own_results
    c["pool"] = rng.choice(POOLS)
    c["spawner"] = rng.choice(["lxc", "lxc", "remote", "remote", None, "process"])
    if own[0] != "localhost" and rng.random() < 0.8:
        c["spawner"] = "remote"
    c["finished"] = rng.random() < 0.6
    c["scan"] = rng.random() < 0.4
    c["disabled"] = op == "decide" and rng.random() < 0.1
    if c["disabled"] and not stateful:
        c["intent"]["judge"] = False      # cannot arise (only the stateful branch installs the lambda): agreement only
    need_started = op == "decide" and stateful and not c["finished"]
    if need_started or rng.random() < 0.4:
        c["started"] = list(worker if worker is not None else own)
    r = rng.random()
    if r < 0.03:
        c["dry"] = "yes"
    elif r < 0.06:
        c["dry"] = "no"
    elif r < 0.08:
        c["flat"] = True
    elif r < 0.10:
        c["clone"] = True
    if rng.random() < 0.03:
        c["replay"] = ""          # falsy replay value
        c["intent"]["judge"] = False
    if confusable or (own[0] != "localhost" and c["spawner"] == "lxc"):
        c["intent"]["judge"] = False
    if worker is None and stateful and c["started"] is None:
        pass
    return c


def run_rule_cases(ctx, cases, oracle=True):
    I = impl()
    lines, impl_out = [], []
    wobjs = {}
    for c in cases:
        lines.append(rule_line(c))
        got = run_rule_impl(I, c, wobjs)
        impl_out.append(got)
        ctx.count(f"rule.op.{c['op']}")
        ctx.count("rule.answer." + (got if got.startswith("error:") else got.split()[0]))
        ctx.count(f"rule.{'replay' if c['replay'] else 'plain'}.{'stateful' if c['stateful'] else 'stateless'}")
        ctx.count(f"rule.results={min(len(c['results']), 4)}")
        ctx.count(f"rule.max_tries={c['max']!r}")
        if not c["intent"]["valid"]:
            ctx.count("rule.invalid-intent")
        ctx.case({k: c[k] for k in ("op", "replay", "rerun", "stop", "max", "stateful", "results", "worker")},
                 nontrivial=len(c["results"]) > 0, sample_every=20000)
        if oracle:
            judge_rule(ctx, c, got)
    model_out = vlib.driver("drv_rules", lines)
    for c, m, g in zip(cases, model_out, impl_out):
        if m != g:
            ctx.disagree(f"rule:{c['op']}", c, m, g)
            break


# ---------------------------------------------------------------------------------------------
# (b) run_test_node machine
# ---------------------------------------------------------------------------------------------

class Gate:
    def __await__(self):
        yield self


OBJECT_ROOT = "image1_vm1-vm1.virtio_blk.CentOS"     # `object_root` of the machine's copies: <image>_<vm>-<vm variant>


class Machine:
    """Drives the real TestRunner.run_test_node coroutines by hand (no event loop): `start` runs a coroutine up to the
    suspension inside run_test_task, `finish` resumes it.  asyncio.sleep is replaced by a counter that delivers late
    results."""

    def __init__(self, I, copies):
        self.I = I
        self.copies = copies
        self.nodes = []
        for (w, pfx) in copies:
            n = mk_node(I, pfx, node_name("tutorial1", w[0], w[1]), w[0], w[1],
                        {"pool_scope": POOLS[0], "nets_spawner": "lxc", "object_root": OBJECT_ROOT,
                         "configure_install": "configure_install_stub"}, False)
            self.nodes.append(n)
        self.workers = [W(*w) for (w, _) in copies]
        # what traverse_terminal_node looks up: the vm object of the object root and the root node of the worker
        self.graph = I.TestGraph()
        self.graph.new_nodes(self.nodes)
        self.graph.new_objects(types.SimpleNamespace(
            key="vms", suffix="vm1", long_suffix="vm1_stub", is_permanent=lambda: False,
            params={"images": "image1", "name": OBJECT_ROOT.split("-", 1)[1]}))
        self.last_pre = None
        for a in self.nodes:
            for b in self.nodes:
                if a is not b:
                    a.bridge_with_node(b)
        self.tests = []
        self.runner = I.TestRunner()
        self.runner.job = types.SimpleNamespace(result=types.SimpleNamespace(tests=self.tests))
        self.graph.runner = self.runner
        self.pending = []
        self.last_started = None
        self.cur = None
        self.executions = []      # every started execution: dict(name, uid, tag, kind)
        self.tag = 0
        # ORACLE bookkeeping (independent of the implementation): per copy the statuses "so far" as the property
        # understands them -- replayed previous results, then one entry per execution (UNKNOWN until its result is read)
        self.ledger = [[] for _ in copies]

    # seams ---------------------------------------------------------------------------------
    def _deliver(self, ex):
        o = ex["outcome"]
        if o is not None and not ex["delivered"]:
            ex["delivered"] = True
            tid = self.I.TestID(ex["uid"], ex["name"])
            self.tests.append({"name": tid, "status": o[0], "time_elapsed": o[1], "tag": ex["tag"]})

    async def fake_task(self, runner, node):
        self.tag += 1
        ex = {"tag": self.tag, "kind": None, "outcome": None, "delivered": False, "sleeps": 0, "node": node,
              "uid": node.id_test.uid, "name": node.params["name"]}
        self.executions.append(ex)
        self.last_started = ex
        await Gate()
        if ex["outcome"] is not None and ex["outcome"][2] == 0:
            self._deliver(ex)

    async def fake_sleep(self, t):
        ex = self.cur
        ex["sleeps"] += 1
        if ex["outcome"] is not None and ex["sleeps"] == ex["outcome"][2]:
            self._deliver(ex)

    def _patches(self):
        m = self
        async def task(self_runner, node):
            return await m.fake_task(self_runner, node)
        async def sleep(t, *a, **k):
            return await m.fake_sleep(t)
        return mock.patch.object(self.I.TestRunner, "run_test_task", task), mock.patch.object(asyncio, "sleep", sleep)

    # events --------------------------------------------------------------------------------
    def _begin(self, node, kind):
        p1, p2 = self._patches()
        with p1, p2:
            coro = self.runner.run_test_node(node)
            got = coro.send(None)
        assert isinstance(got, Gate), got
        ex = self.last_started
        ex["kind"] = kind
        ex["coro"] = coro
        return ex

    def _end(self, ex, outcome):
        ex["outcome"] = outcome
        self.cur = ex
        p1, p2 = self._patches()
        ret = None
        with p1, p2:
            try:
                got = ex["coro"].send(None)
                raise AssertionError(f"coroutine suspended again: {got}")
            except StopIteration as stop:
                ret = "true" if stop.value else "false"
            except ValueError as e:
                ret = canon_exc(e)
        self._deliver(ex)           # a result that was still on its way arrives afterwards
        return ret

    def start(self, i):
        if i >= len(self.nodes) or any(e["copy"] == i for e in self.pending):
            return "noop"          # a worker is sequential: its copy cannot be started while it awaits it
        ex = self._begin(self.nodes[i], "main")
        ex["copy"] = i
        ex["entry"] = ["UNKNOWN"]
        self.ledger[i].append(ex["entry"])
        self.pending.append(ex)
        return f"started {ex['name']} {ex['uid']}"

    def finish(self, j, outcome):
        if j >= len(self.pending):
            return "noop"
        ex = self.pending.pop(j)
        if outcome is not None and outcome[2] < status_timeout():
            ex["entry"][0] = outcome[0]
        ret = self._end(ex, outcome)
        if ret.startswith("error:"):
            return ret
        return f"finished {ex['name']} {ex['uid']} {ret}"

    def replay(self, i, prev):
        """the previous-results statement of TestGraph.traverse_node, executed by the real method with the run decision
        switched off (should_run is an instance attribute the code itself provides for that purpose)"""
        if i >= len(self.nodes):
            return "noop"
        n = self.nodes[i]
        before = len(n.results)
        if not self.ledger[i]:
            self.ledger[i] += [[r[1]] for r in prev if re.search(n.bridged_form, r[0])]
        g = self.I.TestGraph()
        self.runner.previous_results = [{"name": r[0], "status": r[1], "time_elapsed": r[2]} for r in prev]
        g.runner = self.runner
        w = self.workers[i]
        n.should_run = lambda worker: False
        # (started_worker is never set by this harness, so the node is not "occupied" for the real traverse_node even
        # while an execution of it is in flight; the model's replay event has no such guard either)
        coro = g.traverse_node(n, w, self.I.Params({}))
        try:
            coro.send(None)
            raise AssertionError("traverse_node suspended")
        except StopIteration:
            pass
        n.finished_worker = None
        n.should_run = n.default_run_decision
        return f"replayed {len(n.results) - before}"

    def create(self, i, outcome):
        """one creation attempt of object root copy i by the REAL TestGraph.traverse_terminal_node; the one Cartesian parse
        in it (TestGraph.parse_node_from_object of the pre-node) is replaced by a synthetic pre-node, as harness/travlib.py
        does; the pre-step runs to its end, a main execution started after it stays pending"""
        if i >= len(self.nodes) or any(e["copy"] == i for e in self.pending):
            return "noop"
        n, w, wt = self.nodes[i], self.workers[i], self.copies[i][0]
        mach = self

        def parse_node_from_object(test_object, restriction="", prefix="", params=None):
            pre = mk_node(mach.I, prefix, node_name("noop", wt[0], wt[1], setv="all"), wt[0], wt[1],
                          {"pool_scope": POOLS[0], "nets_spawner": "lxc"}, False)
            mach.last_pre = pre
            return pre
        p1, p2 = self._patches()
        p3 = mock.patch.object(self.I.TestGraph, "parse_node_from_object", staticmethod(parse_node_from_object))
        main = "-"
        with p1, p2, p3:
            coro = self.graph.traverse_terminal_node(OBJECT_ROOT, w, self.I.Params({}))
            got = coro.send(None)
            assert isinstance(got, Gate), got
            pre_ex = self.last_started
            pre_ex.update(kind="pre", copy=i, outcome=outcome)
            self.cur = pre_ex
            try:
                got = coro.send(None)
                assert isinstance(got, Gate), got
                ex = self.last_started
                assert ex is not pre_ex
                ex.update(kind="main", copy=i, coro=coro, entry=["UNKNOWN"])
                self.ledger[i].append(ex["entry"])
                self.pending.append(ex)
                ret, main = "true", f"started:{ex['name']}:{ex['uid']}"
            except StopIteration as stop:
                ret = "true" if stop.value else "false"
                # ORACLE ledger: the failed attempt counts as one status so far of the object root
                visible = outcome is not None and outcome[2] < status_timeout()
                self.ledger[i].append([outcome[0] if visible else "UNKNOWN"])
        self._deliver(pre_ex)
        pre_ex["pre_results"] = list(self.last_pre.results)
        pre_ex["ok"] = ret == "true"
        return f"pre {pre_ex['name']} {pre_ex['uid']} {ret} {main}"

    def dump(self):
        def r(d):
            return f"{d['name']}:{d['status']}:{d.get('time_elapsed', '~')}"
        a = "|".join(",".join(r(d) for d in n.results) for n in self.nodes)
        b = ",".join(f"{t['name'].name}:{t['name'].uid}:{t['status']}:{t['time_elapsed']}" for t in self.tests)
        c = ",".join(f"{e['name']}:{e['uid']}" for e in self.pending)
        return f"{a} # {b} # {c}"

    def verdict(self):
        try:
            return "true" if self.runner.all_results_ok() else "false"
        except KeyError:
            return "error:keyError"


def enc_outcome(o):
    return "never" if o is None else f"{o[0]}:{o[1]}:{o[2]}"


def canon_model_obs(line):
    """model: 'finished name uid status found' -> 'finished name uid bool' (run_test_node only returns the bool);
    'pre name uid status found main' -> 'pre name uid bool main'"""
    p = line.split(" ")
    if p[0] == "finished" and len(p) == 5:
        return f"{p[0]} {p[1]} {p[2]} {'false' if p[3] in ('error', 'fail') else 'true'}"
    if p[0] == "pre" and len(p) == 6:
        return f"{p[0]} {p[1]} {p[2]} {'false' if p[3] in ('error', 'fail') else 'true'} {p[5]}"
    return line


def gen_machine_case(rng, tier_big=False):
    k = rng.choice([1, 1, 2, 2, 3])
    ws = rng.sample(WORKERS, k)
    same_pfx = rng.random() < 0.7
    pfx = rng.choice(["1", "2", "12", "1a1", "0"])
    copies = [(list(w), pfx if same_pfx else rng.choice(["1", "2", "1r1", "21"])) for w in ws]
    T = status_timeout()
    events = []
    pending = 0
    busy = []          # copy index of every pending execution, in pending order
    nev = rng.randint(1, 14 if not tier_big else 24)
    mode = rng.random()
    creation_bias = rng.random() < 0.35      # runs of failing creation attempts (the retried object creation)
    for _ in range(nev):
        r = rng.random()
        def outcome():
            x = rng.random()
            if x < 0.12:
                return None
            st = rng.choice(REPORTED7 if rng.random() < 0.5 else ["PASS", "PASS", "FAIL", "WARN"])
            d = 0 if rng.random() < 0.7 else rng.choice([1, 2, T - 1, T, T + 1])
            return [st, rng.choice([1, 1, 2, 3, 5, 10]), d]
        if r < 0.06 and not events:
            i = rng.randrange(k)
            w = copies[i][0]
            prev = []
            for _ in range(rng.randint(0, 3)):
                pw = rng.choice(WORKERS)
                prev.append([node_name("tutorial1", pw[0], pw[1], setv=rng.choice(["normal", "all", "leaves"])),
                             rng.choice(REPORTED7), rng.choice([1, 2, 4])])
            events.append(["replay", i, prev])
        elif r < 0.12:
            i = rng.randrange(k)
            prev = [[node_name("tutorial1", w[0], w[1], setv="all"), rng.choice(REPORTED7), rng.choice([1, 2, 4])]
                    for w in rng.sample(WORKERS, rng.randint(0, 2))]
            events.append(["replay", i, prev])
        elif r < 0.30:
            free = [i for i in range(k) if i not in busy]
            i = rng.choice(free) if free and rng.random() < 0.95 else rng.randrange(k)
            o = outcome()
            if creation_bias and rng.random() < 0.6:
                o = rng.choice([None, ["FAIL", 1, 0], ["ERROR", 2, 0], ["FAIL", 1, T], ["ERROR", 1, 1], o])
            events.append(["create", i, o])
            if i not in busy and o is not None and o[2] < T and o[0] not in ("FAIL", "ERROR"):
                busy.append(i)           # the main execution follows a successful pre-step and stays pending
                pending += 1
        elif pending and (r < 0.62 or (mode < 0.3 and pending >= 1)):
            j = rng.randrange(pending) if rng.random() < 0.5 else 0
            events.append(["finish", j, outcome()])
            busy.pop(j)
            pending -= 1
        else:
            free = [i for i in range(k) if i not in busy]
            if free and rng.random() < 0.95:
                i = rng.choice(free)
                busy.append(i)
                events.append(["start", i])
                pending += 1
            else:
                events.append(["start", rng.randrange(k)])     # not enabled when busy: both sides must ignore it
                if events[-1][1] not in busy:
                    busy.append(events[-1][1])
                    pending += 1
    while pending and rng.random() < 0.8:
        j = rng.randrange(pending)
        events.append(["finish", j, rng.choice([None, ["PASS", 1, 0], ["FAIL", 2, 0], ["PASS", 9, 0]])])
        busy.pop(j)
        pending -= 1
    return {"kind": "machine", "copies": copies, "events": events}


def machine_lines(c):
    copies = "|".join(f"{node_name('tutorial1', w[0], w[1])}:{p}:{node_name('noop', w[0], w[1], setv='all')}:"
                      f"{_EXTRACTED_VALUES['prePrefix'] if _EXTRACTED_VALUES else '0'}" for w, p in c["copies"])
    lines = ["m-new;" + copies]
    for ev in c["events"]:
        if ev[0] == "start":
            lines.append(f"m-start;{ev[1]}")
        elif ev[0] == "finish":
            lines.append(f"m-finish;{ev[1]};{enc_outcome(ev[2])}")
        elif ev[0] == "replay":
            lines.append(f"m-replay;{ev[1]};{enc_results(ev[2])}")
        elif ev[0] == "create":
            lines.append(f"m-create;{ev[1]};{enc_outcome(ev[2])}")
        lines.append("m-dump")
    lines.append("m-verdict")
    return lines


def run_machine_impl(I, c):
    """-> (answer lines, Machine)"""
    m = Machine(I, [(tuple(w), p) for w, p in c["copies"]])
    out = ["ok"]
    for ev in c["events"]:
        if ev[0] == "start":
            out.append(m.start(ev[1]))
        elif ev[0] == "finish":
            out.append(m.finish(ev[1], ev[2]))
        elif ev[0] == "replay":
            # only previous results matching the node's bridged form reach the model (regex matching is not modelled);
            # the real traverse_node gets the unfiltered list
            out.append(m.replay(ev[1], ev[2]))
        elif ev[0] == "create":
            out.append(m.create(ev[1], ev[2]))
        out.append(m.dump())
    out.append(m.verdict())
    return out, m


def prefilter_replays(I, c):
    """the model's replay event carries the previous results already filtered by the node's bridged form"""
    c2 = {"kind": "machine", "copies": c["copies"], "events": []}
    forms = []
    for w, p in c["copies"]:
        n = mk_node(I, p, node_name("tutorial1", w[0], w[1]), w[0], w[1], {}, False)
        forms.append(n.bridged_form)
    for ev in c["events"]:
        if ev[0] == "replay" and ev[1] < len(forms):
            c2["events"].append(["replay", ev[1], [r for r in ev[2] if re.search(forms[ev[1]], r[0])]])
        else:
            c2["events"].append(ev)
    return c2


def judge_machine(ctx, c, m):
    """ORACLE on the implementation's own run: distinct identifiers (executions and creation pre-steps), own result read,
    results ledger, verdict."""
    T = status_timeout()
    main = [e for e in m.executions if e["kind"] == "main"]
    ids = [(e["name"], e["uid"]) for e in main]
    # hypothesis of the property's setting: copies of a class differ in their names (one per worker)
    names = [node_name("tutorial1", w[0], w[1]) for w, _ in c["copies"]]
    if len(set(names)) == len(names) and len(set(ids)) != len(ids):
        dup = [i for i in ids if ids.count(i) > 1][0]
        ctx.violate("uid-collision", f"two executions carry the identifier {dup}", c)
    # creation pre-steps: successive attempts on an object root must carry distinct identifiers as well
    pre_ids = [(e["name"], e["uid"]) for e in m.executions if e["kind"] == "pre"]
    ctx.count(f"machine.creation-attempts={min(len(pre_ids), 4)}")
    if len(set(pre_ids)) != len(pre_ids):
        dup = [i for i in pre_ids if pre_ids.count(i) > 1][0]
        ctx.violate("pre-uid-collision", f"two creation pre-steps carry the identifier {dup}", c)
    # own result read
    for e in m.executions:
        o = e["outcome"]
        if o is None or o[2] >= T or e in m.pending or e["kind"] not in ("main", "pre"):
            continue
        res = e["node"].results if e["kind"] == "main" else e.get("pre_results", [])
        mine = [r for r in res if r.get("tag") == e["tag"]]
        if len(mine) != 1:
            # (results only grow, so a later event cannot have removed it)
            ctx.violate("own-result-not-read", f"{e['kind']} execution {e['name']} {e['uid']} reported {o} but its node does "
                                               f"not hold exactly this result (found {len(mine)})", c)
        elif mine[0]["status"] not in (o[0], "WARN"):
            ctx.violate("own-result-not-read", f"execution {e['uid']} recorded status {mine[0]['status']}, reported {o[0]}", c)
    # "every status so far": the node's results are exactly the replayed previous results plus one entry per execution
    for i, n in enumerate(m.nodes):
        def norm(xs):
            return sorted("PASS" if x == "WARN" else x for x in xs)     # the duration rule may turn PASS into WARN
        got_l, want_l = norm(r["status"] for r in n.results), norm(e[0] for e in m.ledger[i])
        if got_l != want_l:
            ctx.violate("results-ledger-wrong", f"copy {i} holds statuses {got_l}, the executions and replayed results "
                                                f"so far give {want_l}", c)
            break
    # verdict: successful exactly when every executed test has at least one acceptable result
    executed = {e["name"] for e in m.executions if e not in m.pending}
    have = {}
    for t in m.tests:
        have.setdefault(t["name"].name, []).append(t["status"])
    spec = all(any(s in ACCEPTABLE for s in have.get(nm, [])) for nm in executed)
    got = m.verdict()
    ctx.count("machine.verdict." + got)
    if got != ("true" if spec else "false"):
        missing = sorted(nm for nm in executed if nm not in have)
        if got == "true" and missing and all(any(s in ACCEPTABLE for s in v) for v in have.values()):
            ctx.violate("verdict:unreported-test-ignored",
                        f"all_results_ok() is True although executed test(s) {missing[:2]} never got any result "
                        "(run_test_node logged 'defaulting to ERROR' and recorded nothing)", c)
        else:
            ctx.violate("verdict-wrong", f"all_results_ok() = {got}, results per executed test: {have}", c)


def run_machine_cases(ctx, cases, oracle=True):
    I = impl()
    all_lines, all_impl, bounds = [], [], []
    for c in cases:
        logging.disable(logging.CRITICAL)       # run_test_node logs an ERROR for every result that never arrives
        try:
            out, m = run_machine_impl(I, c)
        finally:
            logging.disable(logging.WARNING)
        lines = machine_lines(prefilter_replays(I, c))
        assert len(lines) == len(out), (len(lines), len(out))
        bounds.append((len(all_lines), len(lines)))
        all_lines += lines
        all_impl += out
        for ev in c["events"]:
            ctx.count("machine.ev." + ev[0])
            if ev[0] in ("finish", "create"):
                o = ev[2]
                ctx.count("machine.outcome." + ("never" if o is None else ("late" if o[2] >= status_timeout() else
                                                                            ("delayed" if o[2] else "prompt"))))
        ctx.count(f"machine.copies={len(c['copies'])}")
        ctx.case({"kind": "machine", "copies": c["copies"], "events": c["events"][:6]}, nontrivial=len(c["events"]) > 2,
                 sample_every=500)
        if oracle:
            judge_machine(ctx, c, m)
    model = vlib.driver("drv_rules", all_lines)
    for c, (a, n) in zip(cases, bounds):
        for k in range(a, a + n):
            if canon_model_obs(model[k]) != all_impl[k]:
                ctx.disagree("machine:" + all_lines[k].split(";")[0], dict(c, at_line=k - a), model[k], all_impl[k])
                return


# ---------------------------------------------------------------------------------------------
# (c) all_results_ok and the verdict part of run_suite
# ---------------------------------------------------------------------------------------------

def gen_verdict_case(rng):
    names = ["t1", "t2", "t3"][:rng.randint(1, 3)]
    tests = []
    for _ in range(rng.randint(0, 6)):
        nm = rng.choice(names)
        k = sum(1 for t in tests if t[0] == nm)
        st = rng.choice(REPORTED7)
        if rng.random() < 0.04:
            st = rng.choice(["UNKNOWN", "pass", "bogus"])
        tests.append([nm, "1" if k == 0 else f"1r{k}", st])
    unreported = [[nm, "9"] for nm in names if rng.random() < 0.15]
    return {"kind": "verdict", "tests": tests, "unreported": unreported}


def verdict_impl(I, tests):
    r = I.TestRunner()
    r.job = types.SimpleNamespace(result=types.SimpleNamespace(
        tests=[{"name": I.TestID(u, n), "status": s, "time_elapsed": 1} for n, u, s in tests]))
    try:
        return "true" if r.all_results_ok() else "false"
    except KeyError:
        return "error:keyError"


def suite_impl(I, c, sockdir):
    """the REAL run_suite with run_workers replaced by a stub that reports the scheduled executions to the real status
    repository and job result (run_workers is the traversal, which is not this check's subject)"""
    tests = []
    sock = os.path.join(sockdir, "status.sock")
    if os.path.exists(sock):
        os.unlink(sock)
    job = types.SimpleNamespace(unique_id="c10job", config={"run.status_server_listen": sock, "param_dict": {}},
                                result=types.SimpleNamespace(tests=tests, tests_total=0, end_tests=lambda: None),
                                timeout=None, interrupted_reason=None, test_results_path=sockdir)
    suite = types.SimpleNamespace(enabled=True, tests=[], name="c10", config={})

    def fake_run_workers(self, test_suite, params):
        for n, u, s in c["tests"] + [[n, u, None] for n, u in c["unreported"]]:
            tid = I.TestID(u, n)
            self.tasks.append(types.SimpleNamespace(task=types.SimpleNamespace(identifier=tid, category="test")))
            self.status_repo.process_message({"id": str(tid), "job_id": "c10job", "status": "started", "time": 1.0,
                                              "output_dir": sockdir})
            if s is not None:
                self.status_repo.process_message({"id": str(tid), "job_id": "c10job", "status": "finished",
                                                  "result": s.lower(), "time": 2.0})
                tests.append({"name": tid, "status": s, "time_elapsed": 1})
    loop = asyncio.new_event_loop()
    asyncio.set_event_loop(loop)
    logging.disable(logging.CRITICAL)
    try:
        with mock.patch.object(I.TestRunner, "run_workers", fake_run_workers):
            r = I.TestRunner()
            try:
                summary = r.run_suite(job, suite)
                res = ",".join(sorted(summary))
            except KeyError:
                res = "error:keyError"
        for t in asyncio.all_tasks(loop):
            t.cancel()
        loop.run_until_complete(asyncio.sleep(0))
    finally:
        loop.close()
        asyncio.set_event_loop(asyncio.new_event_loop())
        logging.disable(logging.WARNING)
    return res


def successful(summary_words):
    return not ({"INTERRUPTED", "FAIL", "ERROR"} & set(summary_words))


def run_verdict_cases(ctx, cases, oracle=True, suite_every=1):
    I = impl()
    lines, expect, meta = [], [], []
    sockdir = tempfile.mkdtemp(prefix="i2n-verif-c10s-")
    try:
        for idx, c in enumerate(cases):
            js = "|".join(f"{n}:{u}:{s}" for n, u, s in c["tests"])
            got = verdict_impl(I, c["tests"])
            lines.append("verdict;" + js)
            expect.append(got)
            meta.append((c, "verdict"))
            ctx.count("verdict.answer." + got)
            valid = all(s in REPORTED7 for _, _, s in c["tests"])
            have = {}
            for n, u, s in c["tests"]:
                have.setdefault(n, []).append(s)
            if oracle and valid:
                spec = all(any(s in ACCEPTABLE for s in v) for v in have.values())
                if got != ("true" if spec else "false"):
                    ctx.violate("verdict-wrong", f"all_results_ok() = {got}, results per test {have}", c)
            ctx.case(c, nontrivial=len(c["tests"]) > 1, sample_every=500)
            if valid and idx % suite_every == 0:
                got_s = suite_impl(I, c, sockdir)
                trs = sorted({s.lower() for _, _, s in c["tests"]})
                lines.append(f"suite;{js};{','.join(trs)}")
                words = [] if got_s == "" else got_s.split(",")
                expect.append(got_s if got_s.startswith("error:") else
                              ",".join(sorted(words)) + " " + ("true" if successful(words) else "false"))
                meta.append((c, "suite"))
                ctx.count("suite.reported." + ("success" if successful(words) else "failure"))
                if oracle and not got_s.startswith("error:"):
                    executed = set(have) | {n for n, _ in c["unreported"]}
                    spec = all(any(s in ACCEPTABLE for s in have.get(n, [])) for n in executed)
                    if successful(words) != spec:
                        if spec and not successful(words):
                            ctx.violate("verdict:retried-test-reported-failed",
                                        f"run_suite summary {sorted(words)} makes the job fail although every executed test "
                                        f"has an acceptable result: {have}", c)
                        elif not spec and all(any(s in ACCEPTABLE for s in v) for v in have.values()):
                            ctx.violate("verdict:unreported-test-ignored",
                                        f"run_suite summary {sorted(words)} reports success although "
                                        f"{[n for n, _ in c['unreported'] if n not in have][:2]} was executed and never got a result", c)
                        else:
                            ctx.violate("verdict-wrong", f"run_suite summary {sorted(words)} vs results {have}", c)
    finally:
        shutil.rmtree(sockdir, ignore_errors=True)
    out = vlib.driver("drv_rules", lines)
    for (c, what), ln, want, got in zip(meta, lines, expect, out):
        if what == "suite" and not got.startswith("error:"):
            sm, ok = got.rsplit(" ", 1) if " " in got else ("", got)
            got = ",".join(sorted(set(x for x in sm.split(",") if x))) + " " + ok
        if want != got:
            ctx.disagree(what, c, got, want)
            break


# ---------------------------------------------------------------------------------------------
# entry points
# ---------------------------------------------------------------------------------------------

def correspondence(ctx):
    rng = ctx.rng
    thorough = ctx.tier == "thorough" or ctx.extra.get("drift")
    if _EXTRACTED_VALUES is None:
        extract(ctx)
    ctx.rule = ("rule cases: one real TestNode (plus one bridged node) with hand-set parameters and results, asked "
                "should_rerun / default_run_decision; machine cases: 1-3 bridged real TestNodes, a random interleaving of "
                "start/finish/replay/pre-step events on the real run_test_node coroutines, state compared after every "
                "event; verdict cases: a job result list given to the real all_results_ok / run_suite; non-trivial = at "
                "least one previous result / more than two events / more than one result; distinct by content hash")
    try:
        corpus = os.path.join(vlib.VERIF, "corpus", "C10")
        if os.path.isdir(corpus):
            for f in sorted(os.listdir(corpus)):
                replay(ctx, {"case": json.load(open(os.path.join(corpus, f)))})
        run_helper_cases(ctx, 6000 if thorough else 1500)
        ex = list(gen_rule_exhaustive("thorough" if thorough else "quick"))
        ctx.extra["exhaustive"] = {
            "E1": "all outcome sequences of length<=3 over the 8 statuses x 8 max_tries values x replay x stateless/stateful",
            "E2": f"all {len(subsets_small())}^2 pairs of rerun/stop subsets (size<=2, empty, full) x all sequences of "
                  f"length<={2 if thorough else 1} x replay, max_tries=3",
            "cases": len(ex)}
        for i in range(0, len(ex), 20000):
            run_rule_cases(ctx, ex[i:i + 20000])
        n_rand, n_conf, n_mach, n_verd = (300000, 20000, 20000, 6000) if thorough else (25000, 2000, 1500, 450)
        rnd = [gen_rule_random(rng) for _ in range(n_rand)]
        for i in range(0, len(rnd), 20000):
            run_rule_cases(ctx, rnd[i:i + 20000])
        conf = [gen_rule_random(rng, confusable=True) for _ in range(n_conf)]
        run_rule_cases(ctx, conf)
        mc = [gen_machine_case(rng, thorough and rng.random() < 0.3) for _ in range(n_mach)]
        for i in range(0, len(mc), 1000):
            run_machine_cases(ctx, mc[i:i + 1000])
        vc = [gen_verdict_case(rng) for _ in range(n_verd)]
        run_verdict_cases(ctx, vc, suite_every=3)
        # report the smallest failing input of every key
        ctx.violations.sort(key=lambda v: (v["key"], len(json.dumps(v["case"], default=str))))
    finally:
        cleanup_impl()


def search(ctx, reason):
    """proof or correspondence broke: bigger sample judged by the spec oracle only, then shrink"""
    rng = ctx.rng
    if _EXTRACTED_VALUES is None:
        extract(ctx)
    quiet = lambda *a, **k: None
    try:
        sub = vlib.Ctx(ctx.prop, ctx.tier, ctx.seed)
        sub.disagree = quiet
        known = {f["key"] for f in vlib.known_findings().get("findings", []) if f.get("property") == ctx.prop}
        # findings of this check that are reproduced on every run must not shadow a new failing input
        known |= {"verdict:unreported-test-ignored", "verdict:retried-test-reported-failed"}

        def fresh():
            return [v for v in sub.violations if v["key"] not in known]

        def hunt_rules():
            cases = list(gen_rule_exhaustive("thorough")) + [gen_rule_random(rng) for _ in range(100000)]
            for i in range(0, len(cases), 20000):
                run_rule_cases(sub, cases[i:i + 20000])
                if fresh():
                    return

        def hunt_machine():
            mc = [gen_machine_case(rng, True) for _ in range(6000)]
            for i in range(0, len(mc), 1000):
                run_machine_cases(sub, mc[i:i + 1000])
                if fresh():
                    return

        def hunt_verdict():
            run_verdict_cases(sub, [gen_verdict_case(rng) for _ in range(1500)])

        where = ctx.disagreements[0]["where"] if ctx.disagreements else ""
        order = [hunt_rules, hunt_machine, hunt_verdict]
        if where.startswith("machine"):
            order = [hunt_machine, hunt_verdict, hunt_rules]
        elif where in ("verdict", "suite"):
            order = [hunt_verdict, hunt_machine, hunt_rules]
        for hunt in order:
            hunt()
            if fresh():
                break
        sub.violations = fresh()
        if sub.violations:
            v = sub.violations[0]
            c = v["case"]
            if c.get("kind") == "machine":
                def fails(evs):
                    s2 = vlib.Ctx(ctx.prop, ctx.tier, ctx.seed)
                    s2.disagree = quiet
                    try:
                        run_machine_cases(s2, [dict(c, events=evs)])
                    except Exception:
                        return False
                    return any(x["key"] == v["key"] for x in s2.violations)
                c = dict(c, events=vlib.shrink_list(c["events"], fails))
            elif c.get("kind") == "rule":
                def fails(rs):
                    k = len(rs)
                    c2 = dict(c, results=[r for r, _ in rs], producers=[p for _, p in rs])
                    c2.pop("own_results", None)
                    s2 = vlib.Ctx(ctx.prop, ctx.tier, ctx.seed)
                    s2.disagree = quiet
                    try:
                        run_rule_cases(s2, [c2])
                    except Exception:
                        return False
                    return any(x["key"] == v["key"] for x in s2.violations)
                pairs = list(zip(c["results"], c["producers"]))
                if len(pairs) >= 2:
                    pairs = vlib.shrink_list(pairs, fails)
                    c = dict(c, results=[r for r, _ in pairs], producers=[p for _, p in pairs])
                    c.pop("own_results", None)
            ctx.violate(v["key"], v["what"], c)
    finally:
        cleanup_impl()


def replay(ctx, payload):
    own_session = _impl is None
    c = payload["case"]
    if _EXTRACTED_VALUES is None:
        extract(ctx)
    try:
        kind = c.get("kind")
        if kind == "rule":
            run_rule_cases(ctx, [c])
        elif kind == "machine":
            run_machine_cases(ctx, [c])
        elif kind == "verdict":
            run_verdict_cases(ctx, [c])
        elif kind == "helper":
            out = vlib.driver("drv_rules", [c["line"]])
            ctx.notes.append(f"helper {c['line']!r} -> model {out[0]!r}")
    finally:
        if own_session:
            cleanup_impl()
