"""C07 — graph dependencies are exactly those declared in the configuration (engine E5 `graph`)."""
import itertools
import json
import os
import time

import vlib
import graphlib as gl
from props import c06

PROP = "C07"
ENGINE = "graph"
TARGETS = ["I2N.Props.C07", "drv_graph"]
PROPS_FILE = "I2N/Props/C07.lean"
ANCHORS = {"avocado_i2n/cartgraph/graph.py": [
    "TestGraph.get_and_parse_nodes_from_composite_node_and_object", "TestGraph.parse_composite_nodes",
    "TestGraph.parse_cloned_branches_for_node_and_object", "TestGraph.get_and_parse_nodes_from_flat_node_and_object",
    "TestGraph.parse_nodes_from_flat_node_and_object", "TestGraph.get_and_parse_objects_for_node_and_object",
    "TestGraph.parse_branches_for_node_and_object", "TestGraph.parse_object_trees"],
    "avocado_i2n/cartgraph/node.py": ["TestNode.get_dependency", "TestNode.descend_from_node",
                                      "TestNode.clone_as_source", "TestNode.setless_form"],
    "avocado_i2n/params_parser.py": ["Reparsable.parse_next_batch", "re_str", "join_str"]}
TRUSTED = c06.TRUSTED + [
    "the abstract suite handed to the resolver: for generated suites it is the generator's own dictionary (the "
    "config files are written from it); for the shipped suite the test universe is enumerated through "
    "virttest.cartesian_config.Parser directly and the per-object declarations are read per (test, vm variant)"]


# ---------------------------------------------------------------------------------------------
# independent reading of the declarations (no Lean involved): who must produce what
# ---------------------------------------------------------------------------------------------

def py_sat(tests_str, fullname):
    """a tests restriction (lines of only/no with , and ..) on a dotted full name (set prefix included)"""
    for kind, alts in gl.parse_restr_lines(tests_str):
        hit = any(all(gl.name_matches(q, fullname) for q in alt.split("..")) for alt in alts.split(","))
        if hit != (kind == "only"):
            return False
    return True


def test_of(suite, left, asg=None):
    """the test whose name is the longest prefix of a node's (setless) left name part (the rest are clone labels);
    among same-named abstract tests (variant dependent declarations) the one whose own restrictions admit `asg`"""
    best = None
    for t in suite["tests"]:
        if not (left == t["name"] or left.startswith(t["name"] + ".")):
            continue
        if asg is not None and any(vm in t["only"] and v not in t["only"][vm] for vm, v in asg.items()):
            continue
        if best is None or len(t["name"]) > len(best["name"]):
            best = t
    return best


def declared_slots(t, vms):
    """{(vm, kind): declaration} of a test composed with the given vms"""
    out = {}
    for okey, o in t["objs"].items():
        kind, _, vm = okey.partition("_")
        for v in ([vm] if vm else vms):
            out[(v, kind)] = o
    return out


def spec_c07(ctx, case, x):
    """Judge a real graph against the declarations.  Returns a list of (key, what)."""
    suite = case["suite"]
    bad = []
    nodes = x["nodes"]
    info = {}
    for i, nd in enumerate(nodes):
        if nd["flat"] or nd["clone_source"]:
            continue
        left = nd["setless"].split(".vms.")[0]
        asg = {o["suffix"]: gl.variant_label(o["comp"], o["suffix"]) for o in nd["objects"] if o["key"] == "vms"}
        t = test_of(suite, left, asg)
        info[i] = (t, asg, nd["worker"], left)
        if t is None:
            bad.append(("unknown-test", f"node {nd['id']} is no test of the suite"))
    par = {}
    for (c, p, o) in x["setup"]:
        par.setdefault((c, gl._slot_of(o)), []).append(p)
    fam = {}
    for i, (t, asg, w, left) in info.items():
        if t is not None:
            fam.setdefault((t["name"], tuple(sorted(asg.items())), w), []).append(i)
    for (tname, asg_t, w), members in fam.items():
        t = info[members[0]][0]
        asg = dict(asg_t)
        slots = declared_slots(t, list(asg))
        for (vm, kind), decl in slots.items():
            if not decl["get"] or vm not in asg:
                continue
            exp = sorted(gl.candidate_producers(suite, case, w, vm, asg[vm], decl["get"]))
            obs_names, obs_nodes = [], []
            for i in members:
                ps = par.get((i, f"{vm}:{kind}"), [])
                if exp and len(ps) != 1:
                    bad.append(("missing-dependency" if not ps else "duplicated-dependency",
                                (nodes[i]["id"], f"{vm}:{kind}", exp, [nodes[p]["id"] for p in ps])))
                for p in ps:
                    if p not in info or info[p][0] is None:
                        if nodes[p]["clone_source"]:
                            bad.append(("runnable-child-of-clone-source", (nodes[i]["id"], nodes[p]["id"])))
                        continue
                    pt, pasg, pw, pleft = info[p]
                    obs_names.append(pt["name"])
                    obs_nodes.append(p)
                    if pasg.get(vm) != asg[vm] or pw != w:
                        what = (nodes[i]["id"], f"{vm}:{kind}", exp, [nodes[p]["id"]])
                        bad.append(("producer-of-another-object" if vm not in pasg else "wrong-variant", what))
                    elif any(u in asg and pasg[u] != asg[u] for u in pasg):
                        # the producer was composed with another variant of a vm it shares with the child
                        bad.append(("shared-vm-variant-differs",
                                    (nodes[i]["id"], f"{vm}:{kind}", exp, [nodes[p]["id"]])))
            if sorted(set(obs_names)) != exp:
                missing = sorted(set(exp) - set(obs_names))
                spurious = sorted(set(obs_names) - set(exp))
                if exp or obs_names:
                    bad.append(("spurious-dependency" if spurious else "missing-dependency",
                                (f"{tname}{asg}@{w}", f"{vm}:{kind}", exp, sorted(set(obs_names)))))
            # one clone per producer *node*: every runnable node of an expected producer test (same worker, same
            # variant of every shared vm) is the parent of exactly one member
            inst = sorted(j for j, (pt, pasg, pw, _) in info.items()
                          if pt is not None and pt["name"] in exp and pw == w and pasg.get(vm) == asg[vm]
                          and all(pasg[u] == asg[u] for u in pasg if u in asg))
            multi_slots = sum(1 for d in slots.values() if d["get"] and not d["get_state"])
            if inst and multi_slots <= 1 and sorted(obs_nodes) != inst and sorted(set(obs_nodes)) == sorted(obs_nodes):
                bad.append(("clone-per-producer",
                            (f"{tname}{asg}@{w}", f"{vm}:{kind}", [nodes[j]["id"] for j in inst],
                             [nodes[j]["id"] for j in obs_nodes])))
            # one clone per producer: the members' parents for a cloned slot are pairwise different
            if len(members) > 1 and len(obs_nodes) == len(members) and len(set(obs_nodes)) not in (1, len(members)):
                # (several cloned slots would multiply: excluded as double-clone before)
                bad.append(("clone-per-producer", (f"{tname}{asg}@{w}", f"{vm}:{kind}", len(members), len(set(obs_nodes)))))
        # nothing spurious: parents only for declared gets
        for i in members:
            for (c, slot), ps in par.items():
                if c != i or slot.endswith(":nets"):
                    continue
                vm, kind = slot.split(":")
                real_ps = [p for p in ps if not nodes[p]["flat"]]
                if real_ps and not (slots.get((vm, kind)) or {}).get("get"):
                    bad.append(("spurious-dependency", (nodes[i]["id"], slot, [], [nodes[p]["id"] for p in real_ps])))
    # none missing among the selected tests: every selected test exists for every compatible variant combination
    for t in suite["tests"]:
        if t["kind"] == "noop":
            continue
        if not any(py_sat(case["tests_str"], s + "." + t["name"]) for s in gl.test_sets(t)):
            continue
        vms = t["vms"] if t["vms"] is not None else [suite.get("main_vm", "vm1")]
        for w in case["nets"]:
            choices = [gl.allowed_variants(suite, case, w, vm, t) for vm in vms]
            for combo in itertools.product(*choices):
                fkey = (t["name"], tuple(sorted(zip(vms, combo))), w)
                if fkey not in fam:
                    bad.append(("missing-test", (t["name"], dict(zip(vms, combo)), w)))
    # shared setup is represented once
    seen = {}
    for i, (t, asg, w, left) in info.items():
        k = (left, tuple(sorted(asg.items())), w)
        if k in seen:
            bad.append(("duplicate-node", (nodes[seen[k]]["id"], nodes[i]["id"])))
        seen[k] = i
    return bad


def classify(case, x, key, what):
    """map an observed deviation to the key of a known input class where it belongs to one"""
    if c06.double_clone(x):
        return "double-clone"
    return key


def project_edges(edges):
    """(child, slot, parent test+labels, parent's variant of the slot's vm): the producer of an object state is
    determined up to the variants of vms the child does not share (see design.d/C07.md, reuse of a unique parent)"""
    out = set()
    for e in edges:
        c, slot, p = e.split(">")
        vm = slot.split(":")[0]
        if p.count("|") != 2:          # a runnable child of a clone source (never in a well formed graph): keep as is
            out.add((c, slot, p, "?"))
            continue
        pleft, pasg, pw = p.split("|")
        v = dict(a.split("=") for a in pasg.split(",") if "=" in a).get(vm, "?")
        out.add((c, slot, pleft, v))
    return out


def run_cases(ctx, cases):
    for case in cases:
        graph, status = gl.run_case(case)
        ctx.count("parse." + status.split(":")[0])
        ctx.count("mode." + case.get("mode", "eager"))
        ctx.count(f"workers={len(case['nets'])}")
        if status.startswith("error:ValueError:Detected") or status.startswith("error:AssertionError"):
            dbl = gl.double_clone_suite(case)
            ctx.violate("double-clone" if dbl else "parser-rejects-own-graph", status[:300], dict(case))
            ctx.case(c06.brief(case), nontrivial=True)
            continue
        if graph is None:
            if status.startswith("error"):
                ctx.notes.append(f"real parser raised on {c06.brief(case)}: {status}"[:500])
            ctx.case(c06.brief(case), nontrivial=False)
            continue
        x = gl.extract(graph)
        n = len(x["nodes"])
        ctx.count("nodes<=10" if n <= 10 else "nodes<=30" if n <= 30 else "nodes<=100" if n <= 100 else "nodes>100")
        ctx.count("graphs.with_clones" if x["clones"] else "graphs.without_clones")
        ctx.case(c06.brief(case), nontrivial=n > 3)
        if c06.double_clone(x):
            ctx.count("skipped.double_clone")
            ctx.violate("double-clone", "a test with two objects that both resolve to several producers: the parser "
                        "produces duplicated / self-cloned nodes (see C06)", dict(case))
            continue
        # spec oracle
        devs = spec_c07(ctx, case, x)
        for key, what in devs[:6]:
            k = classify(case, x, key, what)
            ctx.violate(k, f"{key}: (child, object, expected parents, observed parents) = {what}", dict(case))
        # resolver
        rn, re_, rooted, dup = gl.canon_real(x)
        out = vlib.driver("drv_graph", gl.suite_lines(case["suite"], case) + ["r-nodes", "r-edges"])
        mn, me = out[-2].split(), out[-1].split()
        exact = (mn == rn and me == re_)
        ctx.count("resolver.exact" if exact else "resolver.differs")
        if exact:
            mchildren = {e.split(">")[0] for e in me}
            parentless = sorted(k.split(";")[0] for k in mn if k.split(";")[0] not in mchildren)
            if parentless != rooted:
                ctx.disagree("root-edges", c06.brief(case), parentless[:5], rooted[:5])
            continue
        mkeys, rkeys = {s.split(";")[0] for s in mn}, {s.split(";")[0] for s in rn}
        pm = {e for e in project_edges(me) if e[0] in rkeys}
        pr = project_edges(re_)
        if rkeys <= mkeys and pm == pr and set(rn) <= set(mn):
            # same dependencies; the real graph reuses a unique already parsed producer whose other vms differ
            ctx.count("resolver.equal_up_to_producer_reuse")
            continue
        if devs:
            ctx.count("resolver.differs.explained_by_violation")
            continue
        ctx.disagree("resolve", c06.brief(case),
                     {"nodes_only_model": sorted(set(mn) - set(rn))[:4], "edges_only_model": sorted(pm - pr)[:4]},
                     {"nodes_only_real": sorted(set(rn) - set(mn))[:4], "edges_only_real": sorted(pr - pm)[:4]})


def correspondence(ctx):
    rng = ctx.rng
    thorough = ctx.tier == "thorough" or ctx.extra.get("drift")
    ctx.rule = ("one case = one (generated suite with a known random setup DAG, tests restriction, per-vm restrictions, "
                "ordered worker set, eager or complete lazy parsing) parsed by the real TestGraph code; the extracted "
                "graph (clone sources and flat nodes dropped) is compared with the Lean resolver's node and edge sets "
                "for the same abstract suite and judged by an independent Python reading of the declarations "
                "(expected producers per (test, object), one parent per requirement, same worker and variant, one "
                "clone per producer, every selected compatible test present, no duplicate nodes); non-trivial = more "
                "than 3 nodes")
    try:
        for case in gl.corpus_cases("C07"):
            ctx.count("corpus.replayed")
            case.pop("order", None)
            gl.run_attributed(ctx, case, lambda c, k: run_cases(c, [k]))
        n_suites, per_suite = (140, 3) if thorough else (16, 2)
        budget = 1400 if thorough else 140
        cases = c06.gen_cases(rng, n_suites, per_suite, "large" if thorough else "small", lazy_share=0.25)
        for c in cases:
            c.pop("order", None)          # complete lazy expansion (partial expansions belong to C09)
        for i, case in enumerate(cases):
            if ctx.remaining(budget) < 0:
                ctx.notes.append(f"time budget: stopped after {i} of {len(cases)} cases")
                break
            gl.run_attributed(ctx, case, lambda c, k: run_cases(c, [k]))
        # the shipped suite: its abstract suite is enumerated through virttest's Cartesian parser directly
        ship = list(range(len(c06.SHIPPED_CASES)))
        rng.shuffle(ship)
        for i in (ship if thorough else [6] + [j for j in ship if j != 6][:2]):
            if ctx.remaining(budget + (300 if thorough else 45)) < 0:
                ctx.notes.append("time budget: shipped-suite cases cut short")
                break
            ctx.count("suite.shipped")
            gl.run_attributed(ctx, c06.shipped_case(i, with_suite=True), lambda c, k: run_cases(c, [k]))
        for _ in range(14 if thorough else 1):
            if ctx.remaining(budget + (300 if thorough else 45)) < 0:
                break
            ctx.count("suite.shipped.random")
            sc = gl.gen_shipped_case(rng)
            if sc["mode"] == "lazy":
                sc.pop("order", None)
            gl.run_attributed(ctx, sc, lambda c, k: run_cases(c, [k]))
    finally:
        gl.cleanup()


def search(ctx, reason):
    rng = ctx.rng
    try:
        cases = c06.gen_cases(rng, 40, 3, "large", lazy_share=0.2)
        for case in cases:
            if ctx.remaining(600) < 0 or ctx.violations:
                break
            case.pop("order", None)
            graph, status = gl.run_case(case)
            if graph is None:
                continue
            x = gl.extract(graph)
            if c06.double_clone(x):
                continue
            for key, what in spec_c07(ctx, case, x)[:3]:
                ctx.violate(classify(case, x, key, what), f"{key}: {what}", dict(case))
    finally:
        gl.cleanup()


def replay(ctx, payload):
    case = gl.load_case(payload["case"])
    case.pop("order", None)
    try:
        run_cases(ctx, [case])
    finally:
        gl.cleanup()
