"""C09 — workers get equivalent linked graph copies; lazy and eager parsing agree (engine E5 `graph`)."""
import json
import os
import re

import vlib
import graphlib as gl
from props import c06, c07

PROP = "C09"
ENGINE = "graph"
TARGETS = ["I2N.Props.C09", "drv_graph"]
PROPS_FILE = "I2N/Props/C09.lean"
ANCHORS = {"avocado_i2n/cartgraph/graph.py": [
    "TestGraph.parse_branches_for_node_and_object", "TestGraph.parse_paths_to_object_roots",
    "TestGraph.traverse_object_trees", "TestGraph.parse_object_trees", "TestGraph.parse_object_nodes",
    "TestGraph.get_and_parse_nodes_from_flat_node_and_object", "TestGraph.parse_cloned_branches_for_node_and_object",
    "TestGraph.get_and_parse_objects_for_node_and_object"],
    "avocado_i2n/cartgraph/node.py": ["TestNode.bridged_form", "TestNode.bridge_with_node", "TestNode.is_unrolled",
                                      "EdgeRegister"]}
TRUSTED = c06.TRUSTED + [
    "lazy expansion is driven by calling TestGraph.parse_paths_to_object_roots for (flat node, worker) pairs in a "
    "generated order exactly as traverse_object_trees does (object roots descend from the shared root, validate); "
    "the interleavings of a real multi-worker traversal are connected by the traversal harness (E6)"]


def rename_worker(s, w):
    return s.replace("|" + w, "|W")


def per_worker(x):
    """canonical node / edge strings of every worker's copy with the worker name blanked"""
    rn, re_, rooted, dup = gl.canon_real(x)
    out = {}
    for nd in x["nodes"]:
        if not nd["flat"]:
            out.setdefault(nd["worker"], ([], []))
    for s in rn:
        w = s.split(";")[0].rsplit("|", 1)[1]
        out.setdefault(w, ([], []))[0].append(rename_worker(s, w))
    for e in re_:
        w = e.split(">")[0].rsplit("|", 1)[1]
        out.setdefault(w, ([], []))[1].append(rename_worker(e, w))
    return {w: (sorted(a), sorted(b)) for w, (a, b) in out.items()}


def net_restr(case, w):
    if not case.get("suite"):
        return None
    return gl.net_restrictions(case["suite"], w)


def lean_bridges(x):
    out = vlib.driver("drv_graph", gl.to_lines(x) + ["check-bridges"])
    return out[-1] == "true"


def check_copies(ctx, case, x):
    """(1) equivalent copies, links, shared registers"""
    pw = per_worker(x)
    workers = [w for w in case["nets"]]
    known = c06.double_clone(x)
    # equal restrictions -> equal copies up to the name
    for i, w in enumerate(workers):
        for v in workers[i + 1:]:
            rw, rv = net_restr(case, w), net_restr(case, v)
            if rw is None or rw != rv:
                continue
            ctx.count("copies.compared")
            a, b = pw.get(w, ([], [])), pw.get(v, ([], []))
            if a != b:
                key = "double-clone" if known else "copies-differ"
                if not known and case.get("mode") == "lazy":
                    oa, ob = set(a[0]) - set(b[0]), set(b[0]) - set(a[0])
                    if (not oa or shadowed_by_flavour(oa, b[0])) and (not ob or shadowed_by_flavour(ob, a[0])):
                        key = "copies-differ:flat-node-counted-unrolled-through-a-dependency-flavour"
                ctx.violate(key, f"the copies of workers {w} and {v} (same restrictions) differ after renaming: "
                            f"only {w}: {sorted(set(a[0]) - set(b[0]))[:3]} {sorted(set(a[1]) - set(b[1]))[:3]}; "
                            f"only {v}: {sorted(set(b[0]) - set(a[0]))[:3]} {sorted(set(b[1]) - set(a[1]))[:3]}", dict(case))
    # a restricted worker's copy: the unrestricted copy minus what its restrictions exclude
    if case.get("suite"):
        free = [w for w in workers if not net_restr(case, w)]
        for w in workers:
            r = net_restr(case, w)
            if not r or not free:
                continue
            ctx.count("copies.restricted_compared")
            ref = pw.get(free[0], ([], []))

            def allowed(s):
                asg = dict(a.split("=") for a in s.split(";")[0].split("|")[1].split(",") if "=" in a)
                return all((asg[vm] in names) == (kind == "only") for vm, (kind, names) in r.items() if vm in asg)
            exp = [s for s in ref[0] if allowed(s)]
            got = pw.get(w, ([], []))[0]
            # clone labels may legitimately differ when a restriction leaves one producer only; compare the tests
            bare = lambda s: (s.split("|")[0].split(".")[0:3].__str__(), s.split("|")[1])
            strip = lambda l: sorted({bare(s) for s in l})
            # Props/C09: restricted_copy_tests_subset (nothing extra), restricted_copy_tests (what is missing is
            # not needed any more: it is neither a childless node of the unrestricted copy, i.e. a selected test,
            # nor a parent - in the unrestricted copy - of a node the restricted copy has;
            # restricted_copy_tests_not_superset: plain equality with the filtered copy is NOT the property)
            sgot, sexp = set(strip(got)), set(strip(exp))
            ref_edges = [(bare(c), bare(p)) for c, _, p in (e.split(">") for e in ref[1]) if p.count("|") == 2]
            with_children = {p for _, p in ref_edges}
            extra = sorted(sgot - sexp)
            missing = sorted(sexp - sgot)
            needed = [e for e in missing if e not in with_children or any(c in sgot and p == e for c, p in ref_edges)]
            if missing and not needed:
                ctx.count("copies.restricted_unneeded_setup_dropped")
            if (extra or needed) and not known:
                ctx.violate("restricted-copy-differs",
                            f"the copy of restricted worker {w} is not the copy of {free[0]} minus excluded variants "
                            f"(minus what no remaining test needs): missing {needed[:3]}, extra {extra[:3]}", dict(case))
    # links and registers: verified checker + naive oracle
    spec = gl.spec_bridges(x)
    lean_ok = lean_bridges(x)
    ctx.count("bridges.checked")
    if lean_ok != (not spec):
        ctx.disagree("check-bridges", c06.brief(case), lean_ok, {k: v[:3] for k, v in spec.items()})
    for clause, ws in spec.items():
        ctx.violate("double-clone" if known else clause, f"{clause}: {ws[:3]}", dict(case))


def canon_full(x):
    """everything that must be equal when the same input is parsed twice"""
    return json.dumps({k: x[k] for k in ("nodes", "setup", "cleanup", "bridged", "clones", "registers")}, sort_keys=True,
                      default=list)


def lazy_case(case, order):
    c = dict(case)
    c["mode"] = "lazy"
    c["order"] = order
    return c


def check_lazy(ctx, case, x_eager, n_orders, fixed_order=None):
    """(2) lazy expansion under different interleavings vs. the graph parsed up front (fixed_order: replay of one order)"""
    rng = ctx.rng
    rn, re_, rooted, dup = gl.canon_real(x_eager)
    known = c06.double_clone(x_eager)
    for k in range(1 if fixed_order is not None else n_orders):
        order = [(fi, w) for fi in range(gl.MAX_FLATS) for w in case["nets"]]
        rng.shuffle(order)
        partial = k == n_orders - 1 and n_orders > 1
        if partial:
            order = order[:max(1, len(order) // 3)]
        if fixed_order is not None:
            full = {(fi, w) for fi in range(gl.MAX_FLATS) for w in case["nets"]}
            order, partial = list(fixed_order), not full <= set(fixed_order)
        lc = lazy_case(case, order)
        graph, status = gl.run_case(lc)
        ctx.count("lazy." + status.split(":")[0] + (".partial" if partial else ".complete"))
        if graph is None:
            if status.startswith("error"):
                dbl = gl.double_clone_suite(case)
                ctx.violate("double-clone" if dbl else "lazy-parse-raises", f"lazy expansion raised {status[:300]}", lc)
            continue
        xl = gl.extract(graph)
        ln, le, lrooted, ldup = gl.canon_real(xl)
        for (nid, err) in getattr(graph, "_verif_invalid", []):
            ctx.violate("double-clone" if known else "validate-rejects", f"validate() rejects {nid}: {err}", lc)
        steps = sorted(set(graph._verif_steps))
        # model of the same expansions
        if case.get("suite"):
            arg = ",".join(f"{w}={t}" for (w, t) in steps) or "-"
            out = vlib.driver("drv_graph", gl.suite_lines(case["suite"], case) + [f"r-lazy-nodes {arg}", f"r-lazy-edges {arg}"])
            mn, me = out[-2].split(), out[-1].split()
            mkeys, lkeys = {s.split(";")[0] for s in mn}, {s.split(";")[0] for s in ln}
            pm = {e for e in c07.project_edges(me) if e[0] in lkeys}
            if not (lkeys <= mkeys and pm == c07.project_edges(le)) and not known:
                ctx.count("lazy.model_differs")
                # judged below against the eager graph of the implementation itself
        if known:
            continue
        if partial:
            # a sub-graph of the eager graph in which every node has exactly its eager parents
            extra = sorted(set(ln) - set(rn))
            pe = c07.project_edges(re_)
            pl = c07.project_edges(le)
            lkeys = {s.split(";")[0] for s in ln}
            want = {e for e in pe if e[0] in lkeys}
            if extra or pl != want:
                ctx.violate(classify_lazy(case, extra, pl, want),
                            f"partially expanded graph is not a dependency-closed sub-graph of the eager one: extra "
                            f"nodes {extra[:3]}, edges only lazy {sorted(pl - want)[:3]}, only eager {sorted(want - pl)[:3]}", lc)
        else:
            if ln != rn or c07.project_edges(le) != c07.project_edges(re_):
                pl, pe = c07.project_edges(le), c07.project_edges(re_)
                ctx.violate(classify_lazy(case, sorted(set(ln) ^ set(rn)), pl, pe, ln, rn),
                            f"lazy and eager graphs differ: nodes only lazy {sorted(set(ln) - set(rn))[:3]}, only eager "
                            f"{sorted(set(rn) - set(ln))[:3]}; edges only lazy {sorted(pl - pe)[:3]}, only eager "
                            f"{sorted(pe - pl)[:3]}", lc)
            elif le != re_:
                ctx.count("lazy.equal_up_to_producer_reuse")
                ctx.violate("lazy-differs-from-eager",
                            f"a lazily expanded test has other dependencies than in the graph parsed up front: only lazy "
                            f"{sorted(set(le) - set(re_))[:3]}, only eager {sorted(set(re_) - set(le))[:3]}", lc)
            else:
                ctx.count("lazy.exactly_equal")
            check_copies(ctx, lc, xl)


def shadowed_by_flavour(missing, present):
    """every missing node is a flavour of a test of which ANOTHER flavour (other vm assignment) is present: the signature of a
    flat node counted as unrolled because a composite of the same test, created as the dependency of some other test on
    another vm, hangs below it - the flat node's own flavour is then never expanded (recorded finding)"""
    def parts(x):
        p = x.split(";")[0].split("|")
        return (p[0], p[2] if len(p) > 2 else ""), p[1]         # (test, worker), vm assignment
    tests = {}
    for x in present:
        k, asg = parts(x)
        tests.setdefault(k, set()).add(asg)
    miss = [parts(x) for x in missing]
    return bool(miss) and all(k in tests and asg not in tests[k] for k, asg in miss)


def classify_lazy(case, node_diff, pl, pe, ln=None, rn=None):
    if ln is not None and rn is not None and not (set(ln) - set(rn)) and shadowed_by_flavour(set(rn) - set(ln), ln):
        return "lazy-differs-from-eager:flat-node-counted-unrolled-through-a-dependency-flavour"
    return "lazy-differs-from-eager"


def run_cases(ctx, cases, n_orders=2):
    for case in cases:
        case = dict(case, mode="eager")
        case.pop("order", None)
        graph, status = gl.run_case(case)
        ctx.count("parse." + status.split(":")[0])
        ctx.count(f"workers={len(case['nets'])}")
        if graph is None:
            if status.startswith("error"):
                dbl = gl.double_clone_suite(case)
                if status.startswith("error:ValueError:Detected") or status.startswith("error:AssertionError"):
                    ctx.violate("double-clone" if dbl else "parser-rejects-own-graph", status[:300], dict(case))
                else:
                    ctx.notes.append(f"real parser raised on {c06.brief(case)}: {status}"[:500])
            ctx.case(c06.brief(case), nontrivial=False)
            continue
        x = gl.extract(graph)
        n = len(x["nodes"])
        ctx.count("nodes<=10" if n <= 10 else "nodes<=30" if n <= 30 else "nodes<=100" if n <= 100 else "nodes>100")
        ctx.case(c06.brief(case), nontrivial=n > 3 and len(case["nets"]) > 1)
        check_copies(ctx, case, x)
        # (3) parse twice
        graph2, status2 = gl.run_case(case)
        if graph2 is not None:
            ctx.count("determinism.checked")
            if canon_full(gl.extract(graph2)) != canon_full(x):
                ctx.violate("parse-twice-differs", "parsing the same input twice gives different graphs", dict(case))
        # (2) lazy
        check_lazy(ctx, case, x, n_orders)


def correspondence(ctx):
    rng = ctx.rng
    thorough = ctx.tier == "thorough" or ctx.extra.get("drift")
    ctx.rule = ("one case = one (suite, tests restriction, per-vm restrictions, ordered worker set): the graph is parsed up "
                "front (twice: determinism), every worker's copy is compared with every other's after renaming "
                "(equal restrictions: equal; restricted: the unrestricted copy minus excluded variants), bridging is "
                "judged by the verified checker (drv_graph check-bridges: symmetric links, the very same four "
                "register objects, everybody of a class linked, nobody else sharing) and a naive Python oracle; then "
                "the same input is expanded lazily through parse_paths_to_object_roots under random interleavings of "
                "(flat node, worker) pairs (complete and partial) and compared with the eager graph and with the "
                "resolver's lazy graph for the same expansions; non-trivial = more than one worker and more than 3 nodes")
    try:
        n_suites, per_suite, n_orders = (90, 2, 3) if thorough else (14, 1, 2)
        for case in gl.corpus_cases("C09"):
            ctx.count("corpus.replayed")
            if case.get("mode") == "lazy" and case.get("order"):
                replay_case(ctx, case)          # a recorded expansion order
                continue
            gl.run_attributed(ctx, case, lambda c, k: run_cases(c, [k], 2))
        budget = 1400 if thorough else 150
        cases = c06.gen_cases(rng, n_suites, per_suite, "large" if thorough else "small", lazy_share=0.0, max_workers=3)
        for c in cases:
            if len(c["nets"]) == 1 and rng.random() < 0.7:
                extra = [n for n in gl.all_net_names(c["suite"]) if n not in c["nets"]]
                c["nets"] = c["nets"] + [rng.choice(extra)]
        for i, case in enumerate(cases):
            if ctx.remaining(budget) < 0:
                ctx.notes.append(f"time budget: stopped after {i} of {len(cases)} cases")
                break
            gl.run_attributed(ctx, case, lambda c, k: run_cases(c, [k], n_orders))
        ship = [c06.shipped_case(i, with_suite=True) for i in ((2, 0, 9, 11) if not thorough else (0, 2, 4, 6, 7, 9, 10, 11, 12))]
        for sc in ship:
            if ctx.remaining(budget + 60) < 0:
                ctx.notes.append("time budget: shipped-suite cases cut short")
                break
            gl.run_attributed(ctx, sc, lambda c, k: run_cases(c, [k], 1))
    finally:
        gl.cleanup()


def search(ctx, reason):
    rng = ctx.rng
    try:
        cases = c06.gen_cases(rng, 25, 2, "large", lazy_share=0.0)
        for case in cases:
            if ctx.remaining(600) < 0 or ctx.violations:
                break
            run_cases(ctx, [case], 2)
    finally:
        gl.cleanup()


def replay(ctx, payload):
    replay_case(ctx, gl.load_case(payload["case"]))


def replay_case(ctx, case):
    case = dict(case)
    order = case.pop("order", None)
    try:
        if case.get("mode") == "lazy" and order:
            base = dict(case, mode="eager")
            graph, status = gl.run_case(base)
            if graph is not None:
                check_lazy(ctx, base, gl.extract(graph), 1, fixed_order=[tuple(o) for o in order])
                ctx.case(c06.brief(lazy_case(base, order)))
        else:
            run_cases(ctx, [case], 2)
    finally:
        gl.cleanup()
