"""C11 — command line selections and overrides mean what the documentation says (engine E5, model `cmd`).

Real code driven: `cmd_parser.params_from_cmd(config)` (with `env_process_hooks` stubbed),
`TestGraph.parse_flat_nodes(config["tests_str"], config["param_dict"])` (what plugins/loader.py calls) and
`TestGraph.parse_flat_objects(vm, "vms", vm_str)`; the Lean model through `drv_cmd`.
Spec oracles (independent of the Lean model): a direct `cartesian_config.Parser` run on restriction strings the
harness composes itself from the argument list by the README's rules, naive re-derivations of the rejection rules,
and implementation-against-implementation runs for the documented equivalences.
"""
import os
import re
import sys

import vlib

PROP = "C11"
ENGINE = "cmd"
TARGETS = ["I2N.Props.C11", "drv_cmd"]
PROPS_FILE = "I2N/Props/C11.lean"
ANCHORS = {"avocado_i2n/cmd_parser.py": ["params_from_cmd", "full_tests_params_and_str", "full_vm_params_and_strs"],
           "avocado_i2n/params_parser.py": ["re_str", "join_str", "Reparsable", "all_restrictions", "all_objects",
                                            "all_suffixes_by_restriction", "ParsedDict"],
           "avocado_i2n/cartgraph/graph.py": ["TestGraph.parse_flat_nodes", "TestGraph.parse_flat_objects"],
           "avocado_i2n/plugins/loader.py": ["TestLoader.resolve"],
           "avocado_i2n/plugins/manu.py": ["Manu.run"]}
TRUSTED = [
    "modelled, not verified: the Cartesian parser (virttest.cartesian_config). Its filter semantics are assumed to "
    "be `sat` (',' OR, '..' unordered AND, '.' contiguous) and are validated differentially on the whole flat test "
    "universe / net universe / vm universes of the shipped suite for every restriction used in a run; its lexer is "
    "replaced by a strict grammar (identifiers [A-Za-z0-9_-]+ joined by , .. .), values outside it (trailing "
    "separators, white space, quotes, '#') are rejected by the model and not generated",
    "regex \\w is modelled for ASCII only; keys that are Cartesian keywords (include, variants, join, suffix, del) or "
    "reserved (name, shortname, dep, cartgraph_verbose_level) and values with quotes, '$', '#', leading/trailing "
    "white space are outside the generated K=V class",
    "translator tie (step_matches_source, loop_matches_source, paramsFromCmd_matches_source): harness/pygen.py (Python "
    "AST -> Lean `do` block, fails closed) on the body of the tokenizing loop, which harness/pygen_pxcmd.py cuts out of "
    "params_from_cmd (exactly one top level `for cmd_param in config[\"params\"]`, no return / break / continue of "
    "that loop; the statements in front of it are pinned and stand for St.init); the atom table CMD spec of "
    "harness/pygen_pxcmd.py: the regular expressions are the hand recognisers splitArg / netsKey / vmKey, every "
    "statement that updates the loop state is pinned verbatim to a named action of StateT St (Except Err) printed in "
    "I2N/Extracted/GenCmd.lean; the three inner loops (primary detection, first-matching-vm search with its `else: "
    "raise`, `vms=` validation) are translated through the opt-in `effect_loops` shapes of harness/pygen.py "
    "(`match L.find? c`, `L.forM fun x => do …`; scan_loop_matches / vms_loop_matches / vm_body_matches relate them to "
    "the hand model's one-shot updates); log-only variables and exception messages dropped",
]


def extract(ctx):
    """second tie: the body of the tokenizing loop of params_from_cmd translated to Lean from the CURRENT source
    (raises pygen.Unsupported when it left the translated subset / a pinned statement changed; run.py records that
    as a proof problem and searches for a failing input)"""
    import pygen_pxcmd
    if pygen_pxcmd.extract_cmd(ctx):
        ctx.notes.append("I2N/Extracted/GenCmd.lean changed: the source of the tokenizing loop of params_from_cmd "
                         "differs from the one the committed file was generated from (step_matches_source is "
                         "re-checked)")
    ctx.extra["regenerated"] = ("lean/I2N/Extracted/GenCmd.lean (loop body of params_from_cmd via "
                                "harness/pygen_pxcmd.py + harness/pygen.py)")

US, RS = "\x1f", "\x1e"
ERRS = {"ValueError": "valueError", "EmptyCartesianProduct": "emptyProduct", "ParserError": "parserError",
        "LexerError": "parserError"}

_env = {}


# ---------------------------------------------------------------------------------------------------------------
# implementation side

def impl(ctx):
    """import the real modules with HOME and cwd in a scratch dir; returns a namespace"""
    if _env:
        return _env
    scr = ctx.mkscratch()
    home = os.path.join(scr, "home")
    os.makedirs(home, exist_ok=True)
    os.environ["HOME"] = home
    os.chdir(scr)
    import avocado_i2n.cmd_parser as cmd
    import avocado_i2n.params_parser as param
    from avocado_i2n.cartgraph import TestGraph
    from virttest import cartesian_config
    if "I2N_C11_MUTANT" in os.environ:      # mutation sanity only: a scratch copy of cmd_parser.py (see design.d/C11.md)
        import importlib.util
        spec = importlib.util.spec_from_file_location("avocado_i2n.cmd_parser", os.environ["I2N_C11_MUTANT"])
        cmd = importlib.util.module_from_spec(spec)
        spec.loader.exec_module(cmd)
    cmd.env_process_hooks = lambda: None     # the seam: no env_process hooks in the harness process
    _env.update(cmd=cmd, param=param, TestGraph=TestGraph, cc=cartesian_config,
                cfg=param.custom_configs_dir(), flat={}, objs={}, direct={})
    _env["avail"] = extract_avail(_env)
    return _env


def direct(env, files, string=""):
    """the Cartesian parser, directly (not through params_parser): list of final dicts"""
    p = env["cc"].Parser()
    for f in files:
        p.parse_file(os.path.join(env["cfg"], f))
    if string:
        p.parse_string(string)
    return list(p.get_dicts())


def extract_avail(env):
    """what the shipped configuration provides, read with the Cartesian parser directly"""
    gb = direct(env, ["guest-base.cfg", "objects-overwrite.cfg"])[0]
    tb = direct(env, ["groups-base.cfg", "sets-overwrite.cfg"])[0]
    vms = gb["vms"].split()
    av = {"vms": vms, "restr": tb["main_restrictions"].split(), "default": tb.get("default_only"),
          "vmdefault": {vm: gb.get("default_only_" + vm) for vm in vms},
          "tests": [d["name"] for d in direct(env, ["sets.cfg"])],
          "nets": [(d["name"], d["shortname"]) for d in direct(env, ["nets.cfg"])],
          "vmobjs": {vm: [d["name"] for d in direct(env, ["vms.cfg"], f"{vm}:\n    only vms\njoin {vm}\n")] for vm in vms}}
    param = env["param"]
    assert av["vms"] == param.all_objects("vms") and av["restr"] == param.all_restrictions()
    return av


def avail_lines(av):
    lines = ["reset", "\t".join(["vms"] + av["vms"]), "\t".join(["restr"] + av["restr"]),
             "default" + ("\t" + av["default"] if av["default"] is not None else "")]
    for vm, d in av["vmdefault"].items():
        if d is not None:
            lines.append(f"vmdefault\t{vm}\t{d}")
    lines += [f"test\t{n}" for n in av["tests"]]
    lines += [f"net\t{n}\t{s}" for n, s in av["nets"]]
    for vm, ns in av["vmobjs"].items():
        lines += [f"vmobj\t{vm}\t{n}" for n in ns]
    return lines


def esc(s):
    return s.replace("\\", "\\\\").replace("\t", "\\t").replace("\n", "\\n")


def errclass(e):
    for c in type(e).__mro__:
        if c.__name__ in ERRS:
            return ERRS[c.__name__]
    return "other:" + type(e).__name__


def run_impl(env, args):
    """-> ('err', cls) | ('ok', config)"""
    config = {"params": list(args)}
    n = len(sys.path)
    try:
        env["cmd"].params_from_cmd(config)
    except Exception as e:           # noqa: BLE001 - the class is the observable
        return "err", errclass(e)
    finally:
        del sys.path[1:1 + max(0, len(sys.path) - n)]     # params_from_cmd inserts at position 1 on every call
    return "ok", config


def flat_names_fast(env, config):
    """the dictionaries parse_flat_nodes iterates over (same Reparsable batch), without building the nodes"""
    rep = env["param"].Reparsable()
    rep.parse_next_batch(base_file="sets.cfg", base_str=config["tests_str"], base_dict=config["param_dict"])
    return [d["name"] for d in rep.get_parser().get_dicts()]


def flat_nodes(env, config):
    """real TestGraph.parse_flat_nodes, cached: -> [(name, params)]"""
    key = (config["tests_str"], tuple(config["param_dict"].items()))
    if key not in env["flat"]:
        nodes = env["TestGraph"].parse_flat_nodes(config["tests_str"], config["param_dict"])
        env["flat"][key] = [(n.params["name"], {k: n.params.get(k) for k in config["param_dict"]}) for n in nodes]
    return env["flat"][key]


def vm_objects(env, vm, vm_str):
    """real TestGraph.parse_flat_objects, cached: -> ('ok', [names]) | ('err', cls)"""
    key = (vm, vm_str)
    if key not in env["objs"]:
        try:
            objs = env["TestGraph"].parse_flat_objects(vm, "vms", vm_str)
            env["objs"][key] = ("ok", [o.params["name"] for o in objs])
        except Exception as e:       # noqa: BLE001
            env["objs"][key] = ("err", errclass(e))
    return env["objs"][key]


def canon(config, names):
    def d(x):
        return RS.join(k + US + v for k, v in x.items())
    return "\t".join(esc(f) for f in ["ok", config["tests_str"], config["vms_params"]["vms"], d(config["vm_strs"]),
                                      d(config["available_vms"]), d(config["param_dict"]), " ".join(names)])


# ---------------------------------------------------------------------------------------------------------------
# spec side (independent of the Lean model): the README's rules re-derived naively

def py_split(arg):
    """key, value of a well formed argument or None (own formulation, not the code's regex)"""
    key, eq, value = arg.partition("=")
    if not eq or not key or not all((c.isascii() and c.isalnum()) or c == "_" for c in key):
        return None
    return key, value.split("\n")[0]


def spec_tests_str(av, args, default):
    """the restriction string the documentation promises: every only/no in order, the default primary
    restriction exactly when no value names a primary restriction"""
    lines, primary = [], False
    for a in args:
        key, value = py_split(a)
        if key in ("only", "no"):
            lines.append(f"{key} {value}\n")
            if any(t in av["restr"] for t in re.findall(r"[^,.]+", value)):
                primary = True
    if not primary:
        lines.append(f"only {default}\n")
    return "".join(lines)


def spec_select(env, tests_str):
    """direct Cartesian parse of sets.cfg + restriction string -> names or error class"""
    if tests_str not in env["direct"]:
        try:
            env["direct"][tests_str] = ("ok", [d["name"] for d in direct(env, ["sets.cfg"], tests_str)])
        except Exception as e:       # noqa: BLE001
            env["direct"][tests_str] = ("err", errclass(e))
    return env["direct"][tests_str]


def obj_of_key(key):
    """object part of an only_X / no_X key or None"""
    for p in ("only_", "no_"):
        if key.startswith(p):
            return key[len(p):]
    return None


def nets_conflict(kvs):
    """an explicit nets= and a non-empty nets restriction that is in force: nets= first (any later non-empty
    restriction), or restriction first and not withdrawn by an empty only_nets=/no_nets= before the nets="""
    last_restr, explicit = "", False
    for k, v in kvs:
        if k in ("only_nets", "no_nets"):
            if v != "" and explicit:
                return True
            last_restr = v
        elif k == "nets":
            if last_restr != "":
                return True
            explicit = True
    return False


def judge(ctx, env, args, res, nodes):
    """spec oracle on the implementation's own output for one argument list"""
    av = env["avail"]
    case = {"kind": "cmd", "args": args}
    kind, out = res
    kvs = [py_split(a) for a in args]
    # -- rejection rules (each looks at the whole list; the code may stop at an earlier error, which is fine) ----
    if any(kv is None for kv in kvs):
        if kind == "ok":
            ctx.violate("malformed-accepted", f"malformed argument accepted: {args}", case)
        return
    unknown_vm = any(k == "vms" and any(vm not in av["vms"] for vm in v.split(",")) for k, v in kvs)
    if unknown_vm and kind == "ok":
        ctx.violate("unknown-vm-accepted", f"vms= with an unavailable vm accepted: {args}", case)
    bad_obj = [k for k, v in kvs if obj_of_key(k) is not None and obj_of_key(k) not in av["vms"] + ["nets"]]
    if bad_obj and kind == "ok":
        ctx.violate("object-restr-prefix-match",
                    f"object restriction {bad_obj[0]} names no available object ({av['vms']} or nets) but is accepted: "
                    f"vm_strs={out['vm_strs']} param_dict={out['param_dict']}", case)
    conflict = nets_conflict(kvs)
    if conflict and kind == "ok":
        ctx.violate("nets-conflict-order",
                    f"explicit nets= together with a non-empty only_nets=/no_nets= (not withdrawn by a later empty one) "
                    f"accepted (nets = {out['param_dict'].get('nets')!r}); the other order raises ValueError", case)
    if unknown_vm or bad_obj:
        return
    default = dict(kvs).get("default_only", av["default"] or "all").replace(",", " ")
    want_str = spec_tests_str(av, args, default)
    if kind != "ok":
        # an error must have a documented reason: conflict, invalid default, invalid/empty restriction
        reasons = conflict
        reasons = reasons or (want_str.endswith(f"only {default}\n") and default not in av["restr"] and
                              not any(k in ("only", "no") and any(t in av["restr"] for t in re.findall(r"[^,.]+", v))
                                      for k, v in kvs))
        sk, sel = spec_select(env, want_str)
        reasons = reasons or sk != "ok" or not sel
        for k, v in kvs:
            if k in ("only_nets", "no_nets") and v != "":
                try:
                    reasons = reasons or not direct(env, ["nets.cfg"], f"{k[:-5]} {v}\n")
                except Exception:      # noqa: BLE001
                    reasons = True
        if not reasons:
            ctx.violate("spurious-rejection", f"{args} rejected with {out} although every argument is well formed, "
                        f"the objects exist and {want_str!r} selects {len(sel)} tests", case)
        return
    # -- selection = what the Cartesian parser yields for the documented restriction string -------------------------
    if sorted(want_str.splitlines()) != sorted(out["tests_str"].splitlines()):
        ctx.violate("tests-str-not-documented", f"tests_str {out['tests_str']!r}, documented {want_str!r}", case)
    has_default = out["tests_str"].endswith(f"only {default}\n") and \
        out["tests_str"].count("\n") == sum(1 for k, v in kvs if k in ("only", "no")) + 1
    primary = any(k in ("only", "no") and any(t in av["restr"] for t in re.findall(r"[^,.]+", v)) for k, v in kvs)
    if has_default == primary:
        ctx.violate("default-primary-rule", f"default primary restriction added={has_default} although a primary "
                    f"restriction given={primary}: {out['tests_str']!r}", case)
    skind, sel = spec_select(env, want_str)
    names = [n for n, _ in nodes]
    if skind != "ok" or sorted(sel) != sorted(names):
        ctx.violate("selection-not-cartesian", f"selected {sorted(names)[:6]}..., the Cartesian parser yields "
                    f"{sel if skind != 'ok' else sorted(sel)[:6]} for {want_str!r}", case)
    # -- K=V overrides: last occurrence wins, commas are spaces, present in every parsed test ----------------------------
    want_pd = {}
    for k, v in kvs:
        if k in ("only", "no", "vms") or obj_of_key(k) is not None:
            continue
        want_pd[k] = v.replace(",", " ")
    nets_writers = [k for k, v in kvs if k == "nets" or obj_of_key(k) == "nets"]
    # -- only_nets=/no_nets= (the last one in force): `nets` is exactly what the Cartesian parser yields for that restriction on
    # nets.cfg, in its order; a restriction that selects no net at all must have been rejected (an empty `nets` means "all nets"
    # to parse_workers, i.e. the selection would be silently ignored)
    last_netr = next(((k, v) for k, v in reversed(kvs) if k == "nets" or obj_of_key(k) == "nets"), None)
    if last_netr is not None and last_netr[0] in ("only_nets", "no_nets"):
        k, v = last_netr
        try:
            want_nets = [d["shortname"] for d in direct(env, ["nets.cfg"], f"{k[:-5]} {v}\n" if v else "")]
        except Exception:      # noqa: BLE001
            want_nets = []
        ctx.count("nets-restriction." + ("empty-value" if not v else "selects-none" if not want_nets else "selects-some"))
        if not want_nets:
            ctx.violate("nets-restriction-selecting-nothing-accepted",
                        f"{k}={v!r} selects no net of nets.cfg but is accepted with nets = {out['param_dict'].get('nets')!r} "
                        f"(an empty nets parameter stands for all nets)", case)
        elif out["param_dict"].get("nets") != " ".join(want_nets):
            ctx.violate("nets-restriction-not-cartesian",
                        f"{k}={v!r}: nets = {out['param_dict'].get('nets')!r}, the Cartesian parser yields {' '.join(want_nets)!r}", case)
    for k, v in want_pd.items():
        if k == "nets" and nets_writers[-1] != "nets":
            continue        # a later only_nets=/no_nets= (even an empty one) rewrites nets: last writer wins
        if out["param_dict"].get(k) != v:
            ctx.violate("override-lost", f"{k}={v!r} given but param_dict has {out['param_dict'].get(k)!r}", case)
        for n, ps in nodes:
            if ps.get(k) != v:
                ctx.violate("override-not-everywhere", f"{k}={v!r} given but test {n} has {ps.get(k)!r}", case)
                break
    # -- vms= narrows the objects to the last selection, per vm restrictions are the typed ones + default iff none --
    sel_vms = av["vms"]
    for k, v in kvs:
        if k == "vms":
            sel_vms = v.split(",")
    if set(out["vm_strs"]) != set(sel_vms) or set(out["available_vms"]) != set(av["vms"]):
        ctx.violate("vms-not-narrowed", f"vm_strs keys {sorted(out['vm_strs'])}, selected {sel_vms}", case)
    for vm in av["vms"]:
        typed = [(k, v) for k, v in kvs if obj_of_key(k) == vm]
        lines = [f"{k[:-len(vm) - 1]} {v}\n" for k, v in typed if v != ""]
        if not typed:
            d = dict(kvs).get("default_only_" + vm, av["vmdefault"].get(vm) or "").replace(",", " ")
            lines = [f"only {d}\n"] if d else []
        if out["available_vms"].get(vm) != "".join(lines):
            ctx.violate("vm-restriction-not-documented", f"{vm}: {out['available_vms'].get(vm)!r}, documented "
                        f"{''.join(lines)!r}", case)


# ---------------------------------------------------------------------------------------------------------------
# generators

MAIN = ["all", "nonleaves", "leaves", "normal", "minimal"]
UNKNOWN = ["nosuch", "tutoria1", "x"]
KEYS = ["aaa", "file_contents", "dry_run", "get_mode", "setup", "default_only", "default_only_vm1",
        "default_only_vm2", "nic_vm2", "k_1", "A9", "only2", "nox", "vms_x", "netsx", "_k"]
VALS = ["bbb", "testing", "yes", "ia", "a,b", "x.y", "/tmp/x", "1", "", "a,b,c", "normal", "leaves", "Fedora", "Win7",
        "a=b", "noop"]
BAD_FILTERS = ["", ".a", "a...b", ",a", "a,,b", "..a"]
BAD_OBJ = ["only_vm4", "no_vm9", "only_something", "no_", "only_", "only_net", "no_vm", "only_vmX", "no_only_vm1",
           "only_vm10", "no_vm1x", "only_vm1_vm1", "only_vm2_", "only_netsx", "no_nets_", "only_nets_nets"]
MALFORMED = ["ccc", "=x", " a=x", "a b=x", "-a=x", "a.b=x", "", "=", "a-b=c", "\ta=b", "only", "only tutorial1",
             "a:b", "only-vm1=x", "a\n=b", ".=x", "a =b"]


class Gen:
    def __init__(self, rng, av):
        self.rng, self.av = rng, av
        names = [n.split(".") for n in av["tests"]]
        self.variants = sorted({v for n in names for v in n})
        self.adj = sorted({(n[i], n[i + 1]) for n in names for i in range(len(n) - 1)})
        self.common = ["tutorial1", "tutorial2", "tutorial3", "quicktest", "files", "names", "tutorial_gui",
                       "tutorial_get", "tutorial_finale", "gui", "nongui", "remote", "util", "internal", "original",
                       "client_noop", "stateless", "noop", "install", "automated", "connect", "customize"]
        self.vmvars = {vm: sorted({v for n in ns for v in n.split(".")}) for vm, ns in av["vmobjs"].items()}
        self.netvars = sorted({v for n, _ in av["nets"] for v in n.split(".")})
        self.target = ["normal", "nongui", "quicktest", "tutorial1"]

    def ident(self, pool, unknown=0.06):
        r = self.rng
        return r.choice(UNKNOWN) if r.random() < unknown else r.choice(pool)

    def block(self, pool, adj):
        r = self.rng
        x = r.random()
        if x < 0.7 or not adj:
            return self.ident(pool)
        if x < 0.9:
            return ".".join(r.choice(adj))
        return ".".join(self.ident(pool) for _ in range(r.randint(2, 3)))

    def word(self, pool, adj, maxb=3):
        return "..".join(self.block(pool, adj) for _ in range(1 if self.rng.random() < 0.65 else self.rng.randint(2, maxb)))

    def filt(self, pool, adj, comma=0.25):
        n = 1 if self.rng.random() > comma else self.rng.randint(2, 3)
        return ",".join(self.word(pool, adj) for _ in range(n))

    def test_filter(self, primary, negative=False):
        """mostly satisfiable: `only` values are drawn from the variants of a target test chosen per argument list,
        `no` values from variants the target does not have"""
        r = self.rng
        tgt = self.target
        if primary:
            x = r.random()
            if x < 0.55:
                return tgt[0] if r.random() < 0.7 else r.choice(MAIN)
            if x < 0.8:
                return (tgt[0] if r.random() < 0.7 else r.choice(MAIN)) + ".." + self.word(tgt[1:] or self.common, self.adj, 2)
            return r.choice(["normal.gui", "normal.nongui", "leaves,normal", "minimal,normal..gui", "all,leaves"])
        if r.random() < 0.7:
            if negative:
                pool = [v for v in self.common if v not in tgt] or self.common
                adj = [p for p in self.adj if p[0] not in tgt]
            else:
                pool = tgt[1:] or self.common
                adj = [(tgt[i], tgt[i + 1]) for i in range(len(tgt) - 1)]
            return self.filt(pool, adj)
        pool = self.common if r.random() < 0.8 else self.variants
        return self.filt(pool, self.adj)

    def arg(self, kinds=None):
        r, av = self.rng, self.av
        kind = r.choices(["only", "no", "vmr", "vms", "nets", "netr", "kv", "badobj", "badvm", "badfilter"],
                         [30, 10, 14, 8, 6, 8, 16, 3, 2, 3])[0] if kinds is None else r.choice(kinds)
        if kind == "only":
            return "only=" + self.test_filter(r.random() < 0.45)
        if kind == "no":
            return "no=" + self.test_filter(r.random() < 0.1, negative=True)
        if kind == "vmr":
            vm = r.choice(av["vms"])
            val = "" if r.random() < 0.12 else self.filt(self.vmvars[vm] if r.random() < 0.3 else
                                                         ["CentOS", "Fedora", "Win7", "Win10", "Ubuntu", "Kali", "Linux",
                                                          "Windows", "q35", "i440fx"], [], 0.2)
            return f"{r.choice(['only', 'only', 'no'])}_{vm}={val}"
        if kind == "vms":
            return "vms=" + ",".join(r.sample(av["vms"], r.randint(1, len(av["vms"]))) if r.random() < 0.9
                                     else [r.choice(av["vms"])] * 2)
        if kind == "nets":
            return "nets=" + r.choice(["net1", "net1,net2", "net0", "cluster1.net6,cluster1.net7", "net3,net5", "", "netX"])
        if kind == "netr":
            val = "" if r.random() < 0.12 else r.choice(
                ["cluster1", "net1", "net2", "cluster1..net6,net7", "cluster1..net6,localhost,net7,net9", "localhost",
                 "net6", "cluster2.net7", "nets.localhost", "nosuch", self.filt(self.netvars, [], 0.3)])
            return f"{r.choice(['only', 'only', 'no'])}_nets={val}"
        if kind == "kv":
            return f"{r.choice(KEYS)}={r.choice(VALS)}"
        if kind == "badobj":
            return f"{r.choice(BAD_OBJ)}={r.choice(['x', 'CentOS', 'Fedora', 'net1', ''])}"
        if kind == "badvm":
            return "vms=" + r.choice(["vmX", "vm1,vm4", "", "vm1,", "vm1 vm2", "VM1", "vm10"])
        return f"{r.choice(['only', 'no', 'only_vm1', 'only_nets'])}={r.choice(BAD_FILTERS)}"

    def arglist(self, maxlen=6):
        r = self.rng
        self.target = r.choice([n.split(".") for n in self.av["tests"] if r.random() < 0.5 or n.startswith("normal")])
        n = r.choice([0, 1, 1, 2, 2, 2, 3, 3, 3, 4, 4, 5, maxlen])
        args = [self.arg() for _ in range(n)]
        prim = any(t in self.av["restr"] for a in args if a.startswith(("only=", "no=")) for t in re.findall(r"[^,.=]+", a)[1:])
        if n and not prim and self.target[0] != (self.av["default"] or "all") and r.random() < 0.85:
            args[r.randrange(n)] = "only=" + self.target[0]      # keep most lists satisfiable
        if r.random() < 0.15 and args:        # multiplicity: repeat an argument or its key
            a = r.choice(args)
            args.insert(r.randrange(len(args) + 1), a if r.random() < 0.5 else self.arg([self.kind_of(a)]))
            args = args[:maxlen]
        return args

    @staticmethod
    def kind_of(a):
        k = a.split("=")[0]
        if k in ("only", "no", "vms", "nets"):
            return k
        if k in ("only_nets", "no_nets"):
            return "netr"
        return "vmr" if obj_of_key(k) else "kv"

    def malformed(self):
        args = self.arglist(5)
        args.insert(self.rng.randrange(len(args) + 1), self.rng.choice(MALFORMED))
        return args


# ---------------------------------------------------------------------------------------------------------------
# the correspondence

def run_cases(ctx, env, arglists, oracle=True, big_budget=12):
    """real code + Lean model on the same argument lists; returns the implementation results"""
    av = env["avail"]
    lines = avail_lines(av)
    n_setup = len(lines)
    expect, results = [], []
    for args in arglists:
        res = run_impl(env, args)
        nodes = []
        if res[0] == "ok":
            cfg = res[1]
            fast = flat_names_fast(env, cfg)
            key = (cfg["tests_str"], tuple(cfg["param_dict"].items()))
            if len(fast) <= big_budget or key in env["flat"] or ctx.rng.random() < 0.1:
                nodes = flat_nodes(env, cfg)
                ctx.count("impl.parse_flat_nodes.real")
                if [n for n, _ in nodes] != fast:
                    raise RuntimeError(f"parse_flat_nodes and its own parser disagree for {args}")
            else:
                nodes = [(n, dict(cfg["param_dict"])) for n in fast]
                ctx.count("impl.parse_flat_nodes.dicts-only")
            want = canon(cfg, [n for n, _ in nodes])
            ctx.count("result.ok")
            ctx.count(f"selected={min(len(nodes), 20) // 5 * 5}+")
        else:
            want = "err\t" + res[1]
            ctx.count("result." + res[1])
        for a in args:
            kv = py_split(a)
            ctx.count("arg." + ("malformed" if kv is None else Gen.kind_of(a)))
        ctx.count(f"len={len(args)}")
        lines.append("\t".join(["cmd"] + [esc(a) for a in args]))
        expect.append(want)
        results.append((res, nodes))
        if oracle:
            judge(ctx, env, args, res, nodes)
        ctx.case({"kind": "cmd", "args": args}, nontrivial=len(args) > 1, sample_every=97)
    out = vlib.driver("drv_cmd", lines)[n_setup:]
    for args, want, got in zip(arglists, expect, out):
        if want != got:
            ctx.disagree("params_from_cmd", {"kind": "cmd", "args": args}, got, want)
            if len(ctx.disagreements) > 5:
                break
    return results


def filters_of(arglists):
    """every (universe, word, value) restriction that occurs in the argument lists"""
    out = set()
    for args in arglists:
        for a in args:
            kv = py_split(a)
            if kv is None or kv[1] == "":
                continue
            k, v = kv
            if k in ("only", "no"):
                out.add(("tests", v))
            elif k in ("only_nets", "no_nets"):
                out.add(("nets", v))
            elif obj_of_key(k) in ("vm1", "vm2", "vm3"):
                out.add(("vm:" + obj_of_key(k), v))
    return sorted(out)


def validate_sat(ctx, env, filters):
    """`sat` against the real Cartesian parser on the whole universe, for `only v` and `no v`"""
    av = env["avail"]
    lines = avail_lines(av)
    n_setup = len(lines)
    expect, meta = [], []
    for uni, v in filters:
        for word in ("only", "no"):
            s = f"{word} {v}\n"
            try:
                if uni == "tests":
                    got = "ok\t" + " ".join(d["name"] for d in direct(env, ["sets.cfg"], s))
                elif uni == "nets":
                    got = "ok\t" + " ".join(d["shortname"] for d in direct(env, ["nets.cfg"], s))
                else:
                    vm = uni[3:]
                    sub = "".join("    " + l + "\n" for l in s.rstrip("\n").split("\n"))
                    got = "ok\t" + " ".join(d["name"] for d in direct(env, ["vms.cfg"], f"{vm}:\n{sub}join {vm}\n"))
            except Exception as e:       # noqa: BLE001
                got = "err\t" + errclass(e)
            lines.append("\t".join(["filter", uni, word, esc(v)]))
            expect.append(got)
            meta.append((uni, word, v))
            ctx.count(f"sat.{uni.split(':')[0]}")
            ctx.count("sat.hit" if got.startswith("ok\t") and len(got) > 3 else "sat.none-or-err")
    out = vlib.driver("drv_cmd", lines)[n_setup:]
    for m, want, got in zip(meta, expect, out):
        if want != got:
            ctx.disagree("sat", {"kind": "sat", "universe": m[0], "word": m[1], "value": m[2]}, got, want)
            if len(ctx.disagreements) > 5:
                break
    ctx.extra["sat_validated_restrictions"] = ctx.extra.get("sat_validated_restrictions", 0) + len(filters)


def proj(res):
    """what must not depend on argument order: error-or-not and the configuration as sets"""
    (kind, out), nodes = res
    if kind != "ok":
        return ("err",)
    return ("ok", sorted(out["tests_str"].splitlines()), out["vms_params"]["vms"],
            {k: sorted(v.splitlines()) for k, v in out["vm_strs"].items()}, dict(out["param_dict"]),
            sorted(n for n, _ in nodes))


def equivalences(ctx, env, gen, n):
    """the documented equivalences, implementation against implementation (two real parses each)"""
    rng, av = ctx.rng, env["avail"]
    for _ in range(n):
        which = rng.choice(["dotdot", "order", "no", "vms", "vmr"])
        ctx.count("equiv." + which)
        base = [a for a in gen.arglist(4) if py_split(a) is not None]
        if which == "dotdot":
            # only=a only=b  ==  only=a..b   (comma free operands, README)
            a = gen.word(gen.common + MAIN, gen.adj, 2)
            b = gen.word(gen.common + MAIN, gen.adj, 2)
            i, j = sorted(rng.randrange(len(base) + 1) for _ in range(2))
            l1 = base[:i] + ["only=" + a] + base[i:j] + ["only=" + b] + base[j:]
            l2 = base[:i] + [f"only={a}..{b}"] + base[i:]
            r1, r2 = run_cases(ctx, env, [l1, l2])
            p1, p2 = proj(r1), proj(r2)
            if p1[0] != p2[0] or (p1[0] == "ok" and (p1[5] != p2[5] or p1[2:5] != p2[2:5])):
                ctx.violate("only-only-not-dotdot", f"{l1} selects {p1[-1] if p1[0] == 'ok' else p1}, {l2} selects "
                            f"{p2[-1] if p2[0] == 'ok' else p2}", {"kind": "equiv", "lists": [l1, l2]})
        elif which == "order":
            # arguments of different kinds (and only/no among themselves) commute
            seen, l1 = set(), []
            for a in base:
                k = py_split(a)[0]
                cls = k if k not in ("only", "no") and obj_of_key(k) is None else None
                cls = "nets" if k in ("nets", "only_nets", "no_nets") else cls
                if cls is not None and cls in seen:
                    continue
                seen.add(cls)
                l1.append(a)
            l2 = list(l1)
            rng.shuffle(l2)
            r1, r2 = run_cases(ctx, env, [l1, l2])
            if proj(r1) != proj(r2):
                ctx.violate("order-matters", f"{l1} -> {str(proj(r1))[:300]} but {l2} -> {str(proj(r2))[:300]}",
                            {"kind": "equiv", "lists": [l1, l2]})
        elif which == "no":
            # no=x removes exactly the tests whose name contains variant x
            x = gen.ident([v for v in gen.common if v not in av["restr"]], 0.05)
            l1 = base
            l2 = base[:]
            l2.insert(rng.randrange(len(l2) + 1), "no=" + x)
            r1, r2 = run_cases(ctx, env, [l1, l2])
            if r1[0][0] == "ok":
                prim1 = any(t in av["restr"] for a in l1 if py_split(a)[0] in ("only", "no")
                            for t in re.findall(r"[^,.]+", py_split(a)[1]))
                want = sorted(n for n, _ in r1[1] if x not in n.split("."))
                got = sorted(n for n, _ in r2[1]) if r2[0][0] == "ok" else r2[0][1]
                if (want and got != want) or (not want and got != "emptyProduct"):
                    ctx.violate("no-does-not-exclude", f"{l2}: selected {got}, expected {want} (= {l1} minus tests "
                                f"containing {x}; primary given: {prim1})", {"kind": "equiv", "lists": [l1, l2]})
        elif which == "vms":
            l1 = [a for a in base if py_split(a)[0] != "vms"]
            sel = rng.sample(av["vms"], rng.randint(1, len(av["vms"])))
            l2 = l1[:]
            l2.insert(rng.randrange(len(l2) + 1), "vms=" + ",".join(sel))
            r1, r2 = run_cases(ctx, env, [l1, l2])
            if r1[0][0] != r2[0][0]:
                ctx.violate("vms-changes-acceptance", f"{l1} -> {r1[0][0]}, {l2} -> {r2[0][0]}",
                            {"kind": "equiv", "lists": [l1, l2]})
            elif r1[0][0] == "ok":
                c1, c2 = r1[0][1], r2[0][1]
                if c2["vm_strs"] != {vm: c1["vm_strs"][vm] for vm in av["vms"] if vm in sel} or \
                        c2["available_vms"] != c1["available_vms"] or c2["tests_str"] != c1["tests_str"] or \
                        c2["param_dict"] != c1["param_dict"] or c2["vms_params"]["vms"] != " ".join(sel):
                    ctx.violate("vms-not-narrowed", f"{l2}: vm_strs {c2['vm_strs']} vs unrestricted {c1['vm_strs']}",
                                {"kind": "equiv", "lists": [l1, l2]})
        else:
            # a per vm restriction narrows that vm's objects (and only those): real parse_flat_objects
            vm = rng.choice(av["vms"])
            l1 = [a for a in base if obj_of_key(py_split(a)[0]) is None]
            l2 = l1 + [gen.arg(["vmr"]).replace("_vm1=", f"_{vm}=").replace("_vm2=", f"_{vm}=").replace("_vm3=", f"_{vm}=")]
            r1, r2 = run_cases(ctx, env, [l1, l2])
            if r1[0][0] == "ok" and r2[0][0] == "ok":
                c2 = r2[0][1]
                allk, allo = vm_objects(env, vm, "")
                k2, o2 = vm_objects(env, vm, c2["vm_strs"].get(vm, c2["available_vms"][vm]))
                model = vlib.driver("drv_cmd", avail_lines(av) + ["\t".join(
                    ["filter", "vm:" + vm] + [esc(x) for l in c2["available_vms"][vm].splitlines()
                                              for x in l.split(" ", 1)])])[-1]
                want = "ok\t" + " ".join(o2) if k2 == "ok" else ("ok\t" if o2 == "emptyProduct" else "err\t" + o2)
                if model != want:
                    ctx.disagree("vm-objects", {"kind": "vmobj", "vm": vm, "vm_str": c2["available_vms"][vm]}, model, want)
                if k2 == "ok" and not set(o2) <= set(allo):
                    ctx.violate("vm-restriction-widens", f"{vm} restricted by {c2['available_vms'][vm]!r} yields {o2}, "
                                f"unrestricted {allo}", {"kind": "equiv", "lists": [l1, l2]})
                others = {v: s for v, s in c2["available_vms"].items() if v != vm}
                if others != {v: s for v, s in r1[0][1]["available_vms"].items() if v != vm}:
                    ctx.violate("vm-restriction-leaks", f"{l2} changed other vms: {others}",
                                {"kind": "equiv", "lists": [l1, l2]})


WITNESSES = [["only_nets=cluster3"], ["only_nets=cluster1..cluster2"], ["no_nets=localhost,cluster1,cluster2"],
             ["only_nets=cluster1..net1"], ["only_nets=cluster1", "no_nets=net6,net7,net8,net9"], ["only_nets=cluster1..net6,net2"],
             ["only_nets=net2", "only_nets=", "nets=net1"], ["nets=net1", "aaa=b", "no_nets=net2"], ["only_nets_nets=net1"],
             ["nets=net1", "only_nets=net2"], ["only_nets=net2", "nets=net1"], ["only_vm10=x"], ["only_vm1_vm1=Fedora"],
             ["only=tutorial1"], ["only=minimal", "only=quicktest"], ["only=normal", "no=tutorial1"], ["aaa=bbb", "ccc"],
             ["vms=vmX"], ["default_only=nonminimal"], ["only=install"], ["only_nets="], ["only_nets=", "nets=net1"],
             ["only_vm1=", "only_vm2=Win10"], ["vms=vm2", "only_vm2=Win7"], ["only=a..b"], ["only="], []]


def correspondence(ctx):
    env = impl(ctx)
    av = env["avail"]
    thorough = ctx.tier == "thorough" or ctx.extra.get("drift")
    ctx.rule = ("cmd cases: an argument list (length <= 6, plus a stream with one malformed argument inserted) built from "
                "the shipped suite's variant names with only/no/only_vmX/no_vmX/vms/nets/only_nets/no_nets/K=V in any "
                "order and multiplicity is given to the real params_from_cmd + parse_flat_nodes and to the Lean model; "
                "compared: error class, tests_str, vms, vm_strs, available_vms, param_dict (ordered), selected test "
                "names; non-trivial = more than one argument; distinct by content hash. sat cases: every restriction "
                "value used, as `only` and as `no`, on the whole test/net/vm universe against the real Cartesian parser. "
                "equiv cases: documented equivalences checked implementation against implementation")
    ctx.extra["universe"] = {"tests": len(av["tests"]), "nets": len(av["nets"]),
                             "vm_objects": {vm: len(ns) for vm, ns in av["vmobjs"].items()}}
    gen = Gen(ctx.rng, av)
    corpus = os.path.join(vlib.VERIF, "corpus", "C11")
    lists = [list(w) for w in WITNESSES]
    if os.path.isdir(corpus):
        import json
        for f in sorted(os.listdir(corpus)):
            lists.append(json.load(open(os.path.join(corpus, f)))["args"])
    n_lists, n_mal, n_eq = (6000, 600, 500) if thorough else (400, 60, 50)
    lists += [gen.arglist() for _ in range(n_lists)]
    lists += [gen.malformed() for _ in range(n_mal)]
    for i in range(0, len(lists), 500):
        run_cases(ctx, env, lists[i:i + 500])
    validate_sat(ctx, env, filters_of(lists))
    equivalences(ctx, env, gen, n_eq)
    composite_overrides(ctx, env, 40 if thorough else 6)


# keys the shipped overwrite configuration (sets-overwrite.cfg via ~/avocado_overwrite_tests.cfg) sets or post-processes,
# ordinary test parameters, and a "personal default" appended to the user's overwrite file for the run
OVERRIDE_KEYS = [("control_file", ["manual.control", "step_3.control"]), ("original_test_data_path", ["/srv/mydata/", "data/"]),
                 ("additional_deployment_dir", ["/srv/deploy", "deploy"]), ("other_tests_dirs", ["/srv/tests", "more"]),
                 ("kill_vm", ["yes", "no"]), ("take_regular_screendumps", ["yes", "no"]), ("test_timeout", ["12", "3600"]),
                 ("personal_default", ["mine", "run1"])]
COMPOSITE_SELECTIONS = ["only=normal..tutorial1", "only=leaves..tutorial2..files", "only=minimal..tutorial2..names",
                        "only=leaves..tutorial_gui..client_noop", "only=nonleaves..connect"]


def composite_overrides(ctx, env, n, arglists=None):
    """`K=V overrides that parameter in EVERY parsed test`: not only in the flat nodes a listing shows but in the composite
    nodes that are run and in every setup test parsed for them (real parse_object_trees)."""
    rng = ctx.rng
    ovr = os.path.join(os.environ["HOME"], "avocado_overwrite_tests.cfg")
    marker = "\n# personal defaults of the user (added by the check)\npersonal_default = fromfile\ntake_regular_screendumps = no\n"
    if os.path.exists(ovr) and marker not in open(ovr).read():
        with open(ovr, "a") as fh:
            fh.write(marker)
    if arglists is None:
        arglists = []
        for i in range(n):
            picks = rng.sample(OVERRIDE_KEYS, rng.randint(1, 3))
            nets = rng.choice(["nets=net1", "nets=net1", "nets=net1,net2"])
            args = [rng.choice(COMPOSITE_SELECTIONS), nets, "only_vm1=CentOS", "only_vm2=Win10", "only_vm3=Ubuntu"] + \
                   [f"{k}={rng.choice(vs)}" for k, vs in picks]
            rng.shuffle(args)
            arglists.append(args)
    for args in arglists:
        kvs = [tuple(a.split("=", 1)) for a in args if a.split("=", 1)[0] in dict(OVERRIDE_KEYS)]
        case = {"args": args, "kind": "composite-overrides"}
        status, config = run_impl(env, args)
        ctx.count("composite." + status)
        if status != "ok":
            ctx.violate("composite-selection-rejected", f"{args} rejected: {config}", case)
            continue
        try:
            graph = env["TestGraph"].parse_object_trees(restriction=config["tests_str"], object_restrs=config["vm_strs"],
                                                        params=config["param_dict"])
        except Exception as e:      # noqa
            ctx.violate("composite-parse-raised", f"{args}: {type(e).__name__}: {str(e)[:200]}", case)
            continue
        nodes = [nd for nd in graph.nodes if not nd.is_shared_root()]
        ctx.case({"kind": "composite-overrides", "args": args, "nodes": len(nodes)}, nontrivial=len(nodes) > 2)
        ctx.count("composite.nodes", len(nodes))
        for nd in nodes:
            for k, v in kvs:
                if nd.params.get(k) != v.replace(",", " "):
                    ctx.violate("override-not-in-every-parsed-test",
                                f"{k}={v!r} given on the command line but the {'flat' if nd.is_flat() else 'composite'} test "
                                f"{nd.params['shortname']} has {k}={nd.params.get(k)!r}", case)
                    break
            else:
                continue
            break


def search(ctx, reason):
    """proof or correspondence broke: a bigger sample judged by the spec oracles only, then shrink"""
    env = impl(ctx)
    gen = Gen(ctx.rng, env["avail"])
    sub_disagree = ctx.disagree
    ctx.disagree = lambda *a, **k: None
    try:
        for _ in range(6):
            run_cases(ctx, env, [gen.arglist() for _ in range(300)] + [gen.malformed() for _ in range(60)])
            equivalences(ctx, env, gen, 60)
            if ctx.violations:
                break
    finally:
        ctx.disagree = sub_disagree
    if ctx.violations:
        v = ctx.violations[0]
        if v["case"].get("kind") == "cmd":
            def fails(args):
                sub = vlib.Ctx(ctx.prop, ctx.tier, ctx.seed)
                res = run_impl(env, args)
                nodes = flat_nodes(env, res[1]) if res[0] == "ok" else []
                judge(sub, env, args, res, nodes)
                return any(x["key"] == v["key"] for x in sub.violations)
            v["case"]["args"] = vlib.shrink_list(v["case"]["args"], fails)


def replay(ctx, payload):
    env = impl(ctx)
    c = payload["case"]
    if c.get("kind") == "cmd":
        run_cases(ctx, env, [list(c["args"])], big_budget=200)
    elif c.get("kind") == "composite-overrides":
        composite_overrides(ctx, env, 0, [list(c["args"])])
    elif c.get("kind") == "equiv":
        run_cases(ctx, env, [list(l) for l in c["lists"]], big_budget=200)
    elif c.get("kind") == "sat":
        validate_sat(ctx, env, [(c["universe"], c["value"])])
