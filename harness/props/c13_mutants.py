"""Mutation sanity for C13 (development tool, not part of ./check):

    /venv/bin/python harness/props/c13_mutants.py [--tests]

For every mutant: copy /repo/avocado_i2n/states/pool.py to a scratch dir, apply ONE textual edit there, load the copy
as a module of the package avocado_i2n.states (so that its relative imports work), and run the C13 harness against the
mutated classes (correspondence + spec oracle, then the search if only a disagreement was seen).  /repo is not touched.
With --tests the pool selftests (StatesPoolTest) are also run against the mutated module, in a child process, to see
whether /repo's own tests would have noticed.
"""
import importlib.util
import os
import shutil
import subprocess
import sys
import tempfile

sys.path.insert(0, os.path.dirname(os.path.dirname(os.path.abspath(__file__))))
import warnings  # noqa: E402
warnings.filterwarnings("ignore")
import logging  # noqa: E402
logging.disable(logging.WARNING)
import vlib  # noqa: E402
from props import c13  # noqa: E402

MUTANTS = {
    # off-by-weights: a same-host source no longer outranks an own-path source on another host
    "M1-host-weight": ("                score += 100\n", "                score += 1\n"),
    # reordered statements: the mirrors are updated before the local state is saved / before the refusal
    "M2-set-mirrors-first": None,   # built below (multi-line move)
    # dropped guard: get no longer skips the own scope
    "M3-get-own-not-skipped": (
        '            if source_scope == "own" or source_scope not in scopes:\n                continue\n'
        '            logging.debug(f"Choosing {source} as the get source to use")',
        '            if source_scope not in scopes:\n                continue\n'
        '            logging.debug(f"Choosing {source} as the get source to use")'),
    # moved break: fall through to the next source when the closest one lacks the state
    "M4-get-break-only-if-found": (
        "                if not cache_valid:\n                    cls.transport.get(source_params, object)\n            break\n",
        "                if not cache_valid:\n                    cls.transport.get(source_params, object)\n                break\n"),
    # swapped comparison: download when the cache IS valid
    "M5-get-download-when-valid": ("                if not cache_valid:\n                    cls.transport.get(source_params, object)",
                                   "                if cache_valid:\n                    cls.transport.get(source_params, object)"),
    # wrong scope: another host behind the same gateway is classified by the path rules
    "M6-swarm-test-on-gateway": ('        elif own_params["nets_host"] != source_params["nets_host"]:\n            return "swarm"',
                                 '        elif own_params["nets_gateway"] != source_params["nets_host"]:\n            return "swarm"'),
    # dropped guard: unset removes the local state whatever the scope
    "M7-unset-local-always": ('        sources = cls.get_sources("unset", params)\n        scopes = params.get_list("pool_scope")\n'
                              '        if "own" in scopes:\n            cls._unset(params, object)',
                              '        sources = cls.get_sources("unset", params)\n        scopes = params.get_list("pool_scope")\n'
                              '        if scopes:\n            cls._unset(params, object)'),
    # forgotten dedup: duplicates in <op>_location are contacted twice
    "M8-no-dedup": ('sorted(params.objects(f"{do}_location"), key=proximity, reverse=True)',
                    'sorted(params.get_list(f"{do}_location"), key=proximity, reverse=True)'),
    # root backend, dropped guard: the pool root is updated without a local root
    "M9-set_root-no-local-check": ('            if not local_root_exists:\n                raise RuntimeError("Updating state pool requires local root states")\n',
                                   '            if not local_root_exists:\n                logging.warning("Updating state pool without local root states")\n'),
    # show: listing the cache although own is disabled only when there are no sources (narrow branch)
    "M10-show-cache-when-no-sources": ('        if "own" in scopes:\n            cache_states = cls._show(params, object)',
                                       '        if "own" in scopes or not sources:\n            cache_states = cls._show(params, object)'),
    # compare_chain, dropped condition: the vm state file of every backing state is compared as well
    "M11-chain-state-file-everywhere": ('            if next_state == state and params["object_type"] in ["vms", "nets/vms"]:\n'
                                        '                cache_path = os.path.join(cache_dir, vm_id, next_state + ".state")\n'
                                        '                pool_path = os.path.join(pool_dir, vm_id, next_state + ".state")\n'
                                        '                if not cls.ops.compare(',
                                        '            if params["object_type"] in ["vms", "nets/vms"]:\n'
                                        '                cache_path = os.path.join(cache_dir, vm_id, next_state + ".state")\n'
                                        '                pool_path = os.path.join(pool_dir, vm_id, next_state + ".state")\n'
                                        '                if not cls.ops.compare('),
    # compare_chain, forgotten walk: only the requested state is compared, not what it is backed by
    "M12-chain-top-state-only": ('            # comparison of state chain is not yet complete if the state has backing dependencies\n'
                                 '            next_state = cls.get_dependency(next_state, params)',
                                 '            # comparison of state chain is not yet complete if the state has backing dependencies\n'
                                 '            next_state = ""'),
    # compare_chain, forgotten return: a differing image only warns
    "M13-chain-image-diff-only-warns": ('                        f"The image {image_name} has different {next_state} between cache {cache_path} and pool {pool_path}"\n'
                                        '                    )\n                    return False',
                                        '                        f"The image {image_name} has different {next_state} between cache {cache_path} and pool {pool_path}"\n'
                                        '                    )'),
}


def build_m2(src):
    old = ('        if "own" in scopes:\n            cls._set(params, object)\n        else:\n'
           '            local_state_exists = params["set_state"] in cls._show(params, object)\n'
           '            if not local_state_exists:\n'
           '                raise RuntimeError("Updating state pool requires local states")\n')
    assert src.count(old) == 1
    src = src.replace(old, "")
    tail = '            cls.transport.set(source_params, object)\n'
    assert src.count(tail) == 1
    moved = old.replace("        ", "        ", 1)
    return src.replace(tail, tail + "\n" + moved)


def mutate(name, workdir):
    src = open(os.path.join(vlib.REPO, c13.POOL_PY)).read()
    if name == "M2-set-mirrors-first":
        out = build_m2(src)
    else:
        old, new = MUTANTS[name]
        assert src.count(old) == 1, f"{name}: pattern occurs {src.count(old)} times"
        out = src.replace(old, new)
    tree = os.path.join(workdir, name)
    os.makedirs(os.path.join(tree, "avocado_i2n", "states"), exist_ok=True)
    os.makedirs(os.path.join(tree, "tp_folder", "configs"), exist_ok=True)
    path = os.path.join(tree, c13.POOL_PY)
    open(path, "w").write(out)
    shutil.copy(os.path.join(vlib.REPO, "tp_folder/configs/groups-base.cfg"), os.path.join(tree, "tp_folder/configs"))
    return tree, path


def load(path, name):
    modname = "avocado_i2n.states.pool_" + name.replace("-", "_")
    spec = importlib.util.spec_from_file_location(modname, path)
    mod = importlib.util.module_from_spec(spec)
    sys.modules[modname] = mod
    spec.loader.exec_module(mod)
    return mod


TEST_RUNNER = r'''
import importlib.util, sys, os, unittest, warnings, logging
warnings.filterwarnings("ignore")
path, scratch = sys.argv[1], sys.argv[2]
os.chdir(scratch)
import avocado_i2n.states
spec = importlib.util.spec_from_file_location("avocado_i2n.states.pool", path)
mod = importlib.util.module_from_spec(spec); sys.modules["avocado_i2n.states.pool"] = mod; spec.loader.exec_module(mod)
avocado_i2n.states.pool = mod
sys.path.insert(0, "/repo/selftests/isolation")
import test_state_setup as t
assert t.pool is mod
suite = unittest.defaultTestLoader.loadTestsFromTestCase(t.StatesPoolTest)
r = unittest.TextTestRunner(stream=open(os.devnull, "w")).run(suite)
print("SELFTESTS", r.testsRun, "run", len(r.failures) + len(r.errors), "failed", [str(f[0]).split()[0] for f in r.failures + r.errors])
'''


def main():
    with_tests = "--tests" in sys.argv
    only = [a for a in sys.argv[1:] if not a.startswith("--")]
    work = tempfile.mkdtemp(prefix="i2n-verif-c13-mut-")
    try:
        for name in MUTANTS:
            if only and name not in only:
                continue
            tree, path = mutate(name, work)
            line = [name]
            if with_tests:
                scr = os.path.join(work, "cwd-" + name)
                os.makedirs(scr)
                p = subprocess.run([sys.executable, "-c", TEST_RUNNER, path, scr], stdout=subprocess.PIPE,
                                   stderr=subprocess.STDOUT, text=True, timeout=600)
                line.append(([l for l in p.stdout.splitlines() if l.startswith("SELFTESTS")] or ["SELFTESTS ? " + p.stdout[-300:]])[0])
            try:
                tables = c13.extract_tables(tree)
                same = c13.render_extracted(tables) == c13.render_extracted(c13.extract_tables())
                line.append("extracted literals " + ("unchanged" if same else "CHANGED (proofs re-checked against new literals)"))
            except c13.ExtractError as e:
                line.append(f"extraction fails closed: {e}")
            ctx = vlib.Ctx("C13", "quick", 1)
            mod = load(path, name)
            c13.correspondence(ctx, impl=c13.Impl(mod))
            searched = False
            if ctx.disagreements and not ctx.violations:
                searched = True
                c13.search(ctx, "correspondence", impl=c13.Impl(mod))
            keys = sorted({v["key"] for v in ctx.violations} - {"check_root:pool-contact-without-shared-scope",
                                                                 "check_root:reported-but-nowhere",
                                                                 "get_root:pool-contact-without-shared-scope"})
            line.append(f"disagreements={len(ctx.disagreements)} new-violation-keys={keys} searched={searched}")
            if ctx.disagreements:
                d = ctx.disagreements[0]
                line.append(f"first disagreement at {d['where']}: model {d['model']!r} impl {d['impl']!r}")
            verdict = "CAUGHT(violation)" if keys else ("CAUGHT(disagreement only)" if ctx.disagreements else "MISSED")
            print(verdict, " | ".join(line), flush=True)
    finally:
        shutil.rmtree(work, ignore_errors=True)
        c13._cleanup()


if __name__ == "__main__":
    main()
