"""C04 — traversal family (engine E6), see DESIGN.md §6 and harness/trav_common.py."""
import os

import trav_common
import vlib

PROP = "C04"
ENGINE = "traverse"
TARGETS = ["I2N.Props.C04", "drv_trav"]
PROPS_FILE = "I2N/Props/C04.lean"
MONITORS = "overlap".split(",")
ANCHORS = {"avocado_i2n/cartgraph/graph.py": ["TestGraph.traverse_object_trees", "TestGraph.traverse_node",
                                              "TestGraph.reverse_node", "TestGraph.traverse_terminal_node"],
           "avocado_i2n/cartgraph/node.py": ["TestNode.is_occupied", "TestNode.is_started", "TestNode.is_finished",
                                             "TestNode.is_setup_ready", "TestNode.is_cleanup_ready",
                                             "TestNode.should_rerun", "TestNode.default_run_decision",
                                             "TestNode.default_clean_decision", "TestNode.pick_parent",
                                             "TestNode.pick_child", "TestNode.drop_parent", "TestNode.drop_child",
                                             "TestNode.pull_locations", "TestNode.scan_states", "TestNode.sync_states",
                                             "TestNode.shared_results", "TestNode.shared_filtered_results",
                                             "TestNode.shared_result_worker_ids", "TestNode.shared_involved_workers"],
           "avocado_i2n/plugins/runner.py": ["TestRunner.run_test_node"]}
TRUSTED = [
    "modelled, not verified: prefix_priority (exported as ranks), the avocado task machinery (replaced by a scheduled "
    "outcome), the state backends (replaced by a store: a PASS leaves the set states in the executing worker's own pool; "
    "check consults own/shared pool by scope), lazy expansion of flat leaves and replay of previous jobs (not in this model)",
    "virtual-time event loop of the harness (asyncio.SelectorEventLoop subclass)",
    "harness/pygen.py (Python AST -> Lean, fails closed) regenerates I2N/Extracted/GenScope.lean on every run from "
    "TestNode.is_started / is_finished (the selection between counting per worker / per swarm / globally; the three "
    "branch bodies are pinned verbatim and stand for the Boolean they return) and from travlib.shape_of (the `shape=` "
    "field of the static lines); isStarted_matches_source / isFinished_matches_source prove that, with the exported "
    "shape, the model's isStarted / isFinished is that selection over the model's three arms.  Trusted: the translator; "
    "the atoms (`self.is_flat()`, `self.params.get('nets_spawner')`, `'swarm' / 'cluster' in self.params['pool_scope']` "
    "are pure, total and stable during the call; `worker` stands for its truthiness - TestWorker defines neither "
    "__bool__ nor __len__); Props.C04.shapeOfField restates how Driver/Trav.lean parses the `shape=` field; the three "
    "pinned bodies are mirrored by hand in scopeCount (tied by the correspondence run only)",
    "GenScope.lean also holds genIsOccupied, regenerated from TestNode.is_occupied (the threshold "
    "max(get_numeric('max_concurrent_tries', get_numeric('max_tries', 1)), 1) handed to is_started); "
    "isOccupied_matches_source proves the model's isOccupied equal to it, with Props.C04.mctParam saying what the "
    "parameter max_concurrent_tries is in a state of the model (static value, or the result of the bump assignments — "
    "mctParam_bump).  Trusted: get_numeric(key, d) of the real Params is the exported integer or d (the harness exports "
    "mct / maxTries as integers; a non-integer value raises in the real code and is outside the model)",
]
CORPUS = os.path.join(vlib.VERIF, "corpus", PROP)


def correspondence(ctx):
    thorough = ctx.tier == "thorough" or ctx.extra.get("drift")
    ctx.rule = ("one case = a generated synthetic graph of real TestNode objects (1-3 vms, setup chains with fan-out, multi-object "
                "leaves, removable states; 30% with lazy expansion of flat leaves) or a really parsed graph of the shipped suite, 1-4 workers (lxc / remote clusters / serial), pool_scope subset, retry settings, "
                "initial pool population and per-worker schedule of (duration, status|never reported); the real "
                "traverse_object_trees runs under virtual time, its event stream is replayed block by block through the Lean "
                "model and judged by the verified monitors " + ",".join(MONITORS) + "; non-trivial = more than two executions")
    n = 3000 if thorough else 240
    trav_common.family_run(ctx, MONITORS, n, corpus=CORPUS, n_parsed=48 if thorough else 12,
                            n_lazyparsed=12 if thorough else 3)


def search(ctx, reason):
    trav_common.family_run(ctx, MONITORS, 1500, corpus=None, seed_offset=7919)


def replay(ctx, payload):
    trav_common.replay_case(ctx, payload, MONITORS)


def extract(ctx):
    """lean/I2N/Extracted/GenScope.lean from the AST of /repo's cartgraph/node.py and of harness/travlib.py (second tie,
    see harness/pygen.py).  Raises when a function left the translated subset or a pinned body changed: run.py records
    that as a proof problem."""
    import pygen
    if pygen.extract_scope(ctx):
        ctx.notes.append("I2N/Extracted/GenScope.lean changed: the scope selection of TestNode.is_started / is_finished "
                         "(or travlib.shape_of) differs from the one the committed file was generated from")
    ctx.extra["regenerated"] = ("lean/I2N/Extracted/GenScope.lean (TestNode.is_started, is_finished, is_occupied, "
                                "travlib.shape_of via harness/pygen.py)")
