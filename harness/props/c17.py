"""C17 — a vm state exists exactly when all of the vm's images have it (engine E3 `show`).

Real code driven: QCOW2Backend.show (off), QCOW2Backend.show as run for QCOW2VTBackend (on),
QCOW2VTBackend.show, RamfileBackend._show (stub image backend and the production wiring with
QCOW2ExtBackend._show), re.findall with the two real compiled regexes.
Seams (the ones selftests/isolation/test_state_setup.py substitutes): `qcow2.QemuImg`, `qcow2.os`,
`ramfile.os`, `RamfileBackend.image_state_backend`.
"""
import ast
import itertools
import os
import subprocess
import types
from unittest import mock

import vlib

PROP = "C17"
ENGINE = "show"
TARGETS = ["I2N.Props.C17"]
PROPS_FILE = "I2N/Props/C17.lean"
ANCHORS = {"avocado_i2n/states/qcow2.py": ["QCOW2Backend.show", "QCOW2VTBackend.show", "QCOW2ExtBackend._show"],
           "avocado_i2n/states/ramfile.py": ["RamfileBackend._show"]}
TRUSTED = [
    "modelled, not verified: the `qemu-img snapshot -l` output format (ID TAG VM_SIZE DATE TIME VM_CLOCK [ICOUNT], "
    "columns separated by at least one space, ASCII); Python `re` semantics — the hand recognisers are compared with "
    "`re.findall` of the real compiled patterns on every run (well-formed listings, mutated listings, character soup, "
    "all 128 ASCII characters for the classes) and the pattern sources are pinned by proof obligations",
    "non-ASCII text is outside the model (Python's \\d \\w \\s are Unicode aware, the recognisers are ASCII)",
    "the Lean driver is run as a script (`lake env lean --run Driver/Show.lean`, Lean's interpreter) — the lakefile "
    "has no exe entry for this engine",
    "harness/pygen.py + harness/pygen_pxindex.py (Python AST -> Lean, fails closed) regenerate I2N/Extracted/GenShow.lean "
    "on every run from the source of QCOW2VTBackend.show (from `states = None` to its return) and of the combination part "
    "of RamfileBackend._show (from `images_states = None` to the `None -> set()` fallback; the slice and the returned "
    "variable are chosen by the harness); vtShow_matches_source / ramImagesStates_matches_source prove the model's "
    "vtShow / ramImagesStates equal to them for any images and listings.  Trusted: the translator; the atoms "
    "(params.objects('images') = the image names; the per-image listing call with image_params = "
    "params.object_params(image_name) substituted is a function of the image name; the statement "
    "image_params['images'] = image_name only prepares that call); a Python set is a list of which only membership is "
    "observed; the second loop of RamfileBackend._show (the `.state` files and `if state in images_states`) is tied by the "
    "differential runs only",
]

ALPHA = ["launch", "launch_2-0", "boot3.0"]
ALPHA_EXT_CHARS = ["stage2", "proto", "boot.w"]      # names ending in one of the characters of ".qcow2"
QCOW2_SRC = os.environ.get("C17_QCOW2_SRC")      # (mutation sanity only) alternative source files
RAMFILE_SRC = os.environ.get("C17_RAMFILE_SRC")
_MODS = {}


# ---------------------------------------------------------------------------------------------
# the real code
# ---------------------------------------------------------------------------------------------

def _load(name, path):
    import importlib.util
    import sys
    full = "avocado_i2n.states." + name
    spec = importlib.util.spec_from_file_location(full, path)
    mod = importlib.util.module_from_spec(spec)
    mod.__package__ = "avocado_i2n.states"
    saved = sys.modules.get(full)
    sys.modules[full] = mod
    try:
        spec.loader.exec_module(mod)
    finally:
        if saved is not None:
            sys.modules[full] = saved
    return mod


def mods():
    """(qcow2, ramfile) of /repo — or of the files named by C17_QCOW2_SRC / C17_RAMFILE_SRC (mutation sanity)"""
    if not _MODS:
        os.chdir(scratch())
        from avocado_i2n.states import qcow2, ramfile
        _MODS["qcow2"] = _load("qcow2", QCOW2_SRC) if QCOW2_SRC else qcow2
        _MODS["ramfile"] = _load("ramfile", RAMFILE_SRC) if RAMFILE_SRC else ramfile
    return _MODS["qcow2"], _MODS["ramfile"]


_scr = None


def scratch():
    global _scr
    if _scr is None:
        import atexit
        import shutil
        import tempfile
        _scr = tempfile.mkdtemp(prefix="i2n-verif-c17-")
        atexit.register(lambda: shutil.rmtree(_scr, ignore_errors=True))
    return _scr


class QemuImgStub:
    """stands for virttest.qemu_storage.QemuImg: `snapshot_list` returns the listing of the image"""
    dumps = {}

    def __init__(self, params, root_dir, tag):
        self.tag = tag
        self.image_filename = os.path.join(root_dir, tag)

    def snapshot_list(self, force_share=False):
        assert force_share is True
        return QemuImgStub.dumps[self.tag]


def _params(n_images):
    from virttest.utils_params import Params
    return Params({"vms": "vm1", "images": " ".join(f"image{i + 1}" for i in range(n_images)),
                   "images_base_dir": "/images/vm1", "swarm_pool": "/pool", "object_id": "vm1-abc.def"})


def _call(fn):
    try:
        return list(fn())
    except Exception as e:      # the class name is the observable
        return "raises:" + type(e).__name__


def impl_qcow(on, dump):
    """QCOW2Backend.show for one image; on=True runs it the way QCOW2VTBackend.show's super().show does"""
    qcow2, _ = mods()
    from virttest.utils_params import Params
    QemuImgStub.dumps = {"image1": dump}
    p = Params({"vms": "vm1", "images": "image1", "images_base_dir": "/images/vm1"})
    with mock.patch.object(qcow2, "QemuImg", QemuImgStub):
        if on:
            return _call(lambda: qcow2.QCOW2Backend.show.__func__(qcow2.QCOW2VTBackend, p, object=None))
        return _call(lambda: qcow2.QCOW2Backend.show(p, object=None))


def impl_vt(dumps):
    qcow2, _ = mods()
    QemuImgStub.dumps = {f"image{i + 1}": d for i, d in enumerate(dumps)}
    with mock.patch.object(qcow2, "QemuImg", QemuImgStub):
        return _call(lambda: qcow2.QCOW2VTBackend.show(_params(len(dumps)), object=None))


def _os_stub(dirs):
    """stands for the `os` module of ramfile.py / qcow2.py: listdir over a dict, stat, path.*"""
    def listdir(path):
        return list(dirs[path])
    return types.SimpleNamespace(
        listdir=listdir, stat=lambda path: types.SimpleNamespace(st_size=4096),
        path=types.SimpleNamespace(join=os.path.join, dirname=os.path.dirname, exists=lambda p: p in dirs,
                                   isabs=os.path.isabs))


def impl_ram(files, imgs):
    """RamfileBackend._show with a stub image backend returning the given per-image lists"""
    _, ramfile = mods()

    class ImageBackend:
        @classmethod
        def show(cls, params, object=None):
            return list(imgs[int(params["images"][5:]) - 1])
    with mock.patch.object(ramfile, "os", _os_stub({"/pool/vm1-abc.def": files})), \
            mock.patch.object(ramfile.RamfileBackend, "image_state_backend", ImageBackend):
        return _call(lambda: ramfile.RamfileBackend._show(_params(len(imgs)), object=None))


def impl_ramext(files, imgfiles):
    """RamfileBackend._show wired to QCOW2ExtBackend._show as cmd_parser does (show → own pool only is
    bypassed: `_show` is the local listing)"""
    qcow2, ramfile = mods()
    dirs = {"/pool/vm1-abc.def": files}
    for i, fl in enumerate(imgfiles):
        dirs[f"/pool/vm1-abc.def/image{i + 1}"] = fl

    class ImageBackend:
        @classmethod
        def show(cls, params, object=None):
            return qcow2.QCOW2ExtBackend._show(params, object=object)
    stub = _os_stub(dirs)
    with mock.patch.object(ramfile, "os", stub), mock.patch.object(qcow2, "os", stub), \
            mock.patch.object(qcow2, "QemuImg", QemuImgStub), \
            mock.patch.object(ramfile.RamfileBackend, "image_state_backend", ImageBackend):
        return _call(lambda: ramfile.RamfileBackend._show(_params(len(imgfiles)), object=None))


def impl_ext(files):
    qcow2, _ = mods()
    stub = _os_stub({"/pool/vm1-abc.def/image1": files})
    p = _params(1)
    p["images"] = "image1"
    with mock.patch.object(qcow2, "os", stub), mock.patch.object(qcow2, "QemuImg", QemuImgStub):
        return _call(lambda: qcow2.QCOW2ExtBackend._show(p, object=None))


def impl_findall(on, dump):
    qcow2, _ = mods()
    pat = qcow2.QEMU_ON_STATES_REGEX if on else qcow2.QEMU_OFF_STATES_REGEX
    return [t[0] for t in pat.findall(dump)]


# ---------------------------------------------------------------------------------------------
# the Lean model (driver run as a script)
# ---------------------------------------------------------------------------------------------

_built = False


def lean_driver(lines, timeout=900):
    global _built
    if not lines:
        return []
    if not _built:
        ok, log = vlib.lake_build(["I2N.Model.Show"])
        if not ok:
            raise RuntimeError("cannot build I2N.Model.Show: " + log[-800:])
        _built = True
    if 'name = "drv_show"' in open(os.path.join(vlib.LEAN, "lakefile.toml")).read():
        ok, log = vlib.lake_build(["drv_show"])       # a compiled driver, once the lakefile declares one
        if ok:
            return vlib.driver("drv_show", lines, timeout=timeout)
    data = "\n".join(lines) + "\n"
    p = subprocess.run(["lake", "env", "lean", "--run", "Driver/Show.lean"], cwd=vlib.LEAN, input=data,
                       stdout=subprocess.PIPE, stderr=subprocess.PIPE, text=True, timeout=timeout)
    if p.returncode != 0:
        raise RuntimeError("Driver/Show.lean failed: " + (p.stderr or p.stdout)[-800:])
    out = p.stdout.split("\n")
    if out and out[-1] == "":
        out.pop()
    if len(out) != len(lines):
        raise RuntimeError(f"Driver/Show.lean: {len(lines)} operations but {len(out)} answers")
    return out


def enc_names(ns):
    return ",".join(ns) if ns else "#"


def enc_imgs(imgs):
    return "|".join(enc_names(i) for i in imgs) if imgs else "#"


def enc_hex(s):
    return s.encode("latin-1").hex() if s else "#"


def dec_names(s):
    return [] if s == "#" else s.split(",")


def show(r):
    return r if isinstance(r, str) else enc_names(r)


# ---------------------------------------------------------------------------------------------
# listings (the Python twin of `printListing`; equality with the Lean printer is checked)
# ---------------------------------------------------------------------------------------------

ZERO = ("0", 0, "n", "", "B")
SIZES = [ZERO, ("10", 0, "n", "", "B"), ("1", 0, "n", ".5", "GiB"), ("2", 1, "+", "03", "MiB"), ("1", 0, "n", "", "GiB"),
         ("999", 0, "n", "", "KiB"), ("1", 1, "-", "05", "KiB"), ("12", 0, "+", "3", "B"),
         ("100", 0, "n", "", "B"), ("0", 0, "n", ".5", "KiB"), ("00", 0, "n", "", "B"), ("0", 0, "n", "", "KiB"),
         ("3", 0, "n", "..", "x"), ("7", 1, "n", "", "B"), ("0", 0, "n", ".0", "B"),
         # qemu switches units at 1000, so 1000..1023 MiB print as 0.977..0.999 GiB: a running-vm size with a leading zero
         ("0", 0, "n", ".98", "GiB"), ("0", 0, "n", ".977", "GiB"), ("0", 0, "n", ".5", "MiB"), ("0", 1, "+", "00", "B")]


def size_str(z):
    d, e, sg, fr, un = z
    return d + ("e" if e else "") + ("" if sg == "n" else sg) + fr + " " + un


def rec_line(r):
    return (r["id"] + " " + " " * r["pad1"] + r["tag"] + " " + " " * r["pad2"] + size_str(r["size"]) + " "
            + " " * r["pad3"] + r["date"][:4] + "-" + r["date"][4:6] + "-" + r["date"][6:] + r["tail"])


def listing_text(lines):
    return "\n".join(rec_line(l) if isinstance(l, dict) else l for l in lines)


def enc_lines(lines):
    out = []
    for l in lines:
        if isinstance(l, dict):
            d, e, sg, fr, un = l["size"]
            out.append(":".join(["R", l["id"], str(l["pad1"]), l["tag"], str(l["pad2"]), d, str(e), sg, fr or "#", un,
                                 str(l["pad3"]), l["date"], enc_hex(l["tail"])]))
        else:
            out.append("O:" + enc_hex(l))
    return ";".join(out) if out else "#"


TAGCH = "abcxyzLAUNCH0123456789_.-eB"
TRICKY_TAGS = ["0", "a0", "snap1", "snap12", "1e", "2e-03", "1.5", "B", "0.B", "x-0", "launch_2-0", "boot3.0", "e", "-", ".",
               "_", "10", "a.b-c_d", "GiB", "0B"]
HEADERS = ["Snapshot list:", "ID        TAG               VM SIZE                DATE     VM CLOCK     ICOUNT",
           "ID      TAG               VM_SIZE                DATE        VM_CLOCK     ICOUNT", "", "  ", "qemu-img: note"]


def gen_tag(rng):
    if rng.random() < 0.3:
        return rng.choice(TRICKY_TAGS)
    return "".join(rng.choice(TAGCH) for _ in range(rng.randint(1, 14)))


def gen_size(rng, on=None):
    if on is None:
        on = rng.random() < 0.5
    if not on:
        return ZERO
    if rng.random() < 0.7:
        return rng.choice(SIZES[1:])
    d = "".join(rng.choice("0123456789") for _ in range(rng.randint(1, 4)))
    e = int(rng.random() < 0.3)
    sg = rng.choice("n+-") if e or rng.random() < 0.1 else "n"
    fr = "".join(rng.choice("0123456789.") for _ in range(rng.randint(0, 3)))
    un = rng.choice(["B", "KiB", "MiB", "GiB", "TiB", "PiB", "EiB", "k", "G_1"])
    z = (d, e, sg, fr, un)
    if size_str(z).startswith("0 B"):
        return ("1", 0, "n", "", "B")
    return z


def gen_rec(rng, layout, tag=None, on=None):
    tag = gen_tag(rng) if tag is None else tag
    size = gen_size(rng, on)
    sid = str(rng.choice([0, 1, 2, 7, 10, 123, rng.randint(0, 99999)]))
    date = f"{rng.randint(1990, 2099):04d}{rng.randint(1, 12):02d}{rng.randint(1, 28):02d}"
    time_ = f"{rng.randint(0, 23):02d}:{rng.randint(0, 59):02d}:{rng.randint(0, 59):02d}"
    clock = rng.choice(["00:00:00.000", "01:23:45.678", "0000:00:00.000", "123:00:01.999"])
    icount = rng.choice(["", "--", "0", "123456"])
    s = size_str(size)
    if layout == "new":       # "%-7s %-16s %8s %19s %12s%11s"
        p1 = max(7 - len(sid), 0)
        p2 = max(16 - len(tag), 0) + max(8 - len(s), 0)
        p3 = 0
        tail = " " + time_ + " " + clock.rjust(12) + icount.rjust(11)
    elif layout == "old":     # "%-10s%-20s%7s%20s%15s" (no separator of its own: keep at least one space)
        p1 = max(10 - len(sid), 1) - 1
        p2 = max(max(20 - len(tag), 0) + max(7 - len(s), 0), 1) - 1
        p3 = 0
        tail = " " + time_ + clock.rjust(15)
    else:                      # 1-3 spaces
        p1, p2, p3 = rng.randint(0, 2), rng.randint(0, 2), rng.randint(0, 2)
        tail = " " * rng.randint(1, 3) + time_ + " " * rng.randint(1, 3) + clock + rng.choice(["", "   " + icount])
    return {"id": sid, "pad1": p1, "tag": tag, "pad2": p2, "size": size, "pad3": p3, "date": date, "tail": tail}


def gen_listing(rng, n_max=6):
    layout = rng.choice(["new", "old", "narrow", "narrow"])
    lines = []
    if rng.random() < 0.7:
        lines += HEADERS[:2] if layout != "new" else [HEADERS[0], HEADERS[2]]
    for _ in range(rng.randint(0, n_max)):
        lines.append(gen_rec(rng, layout))
        if rng.random() < 0.08:
            lines.append(rng.choice(HEADERS))
    return lines


def listing_for(rng, on_names, off_names, layout=None):
    """a well-formed listing in which exactly `on_names` are vm states and `off_names` image states (shuffled)"""
    layout = layout or rng.choice(["new", "old", "narrow"])
    recs = [gen_rec(rng, layout, tag=n, on=True) for n in on_names] + [gen_rec(rng, layout, tag=n, on=False) for n in off_names]
    rng.shuffle(recs)
    for i, r in enumerate(recs):
        r["id"] = str(i + 1)
        if layout == "new":
            r["pad1"] = max(7 - len(r["id"]), 0)
        elif layout == "old":
            r["pad1"] = max(10 - len(r["id"]), 1) - 1
    head = [HEADERS[0], HEADERS[2] if layout == "new" else HEADERS[1]] if recs or rng.random() < 0.5 else []
    return head + recs


SOUP = "0123456789 B\n\t\r\x0b\x0c\x1c\x1f-e+.aGiB_:0 0  "


def mutate_text(rng, s):
    s = list(s)
    for _ in range(rng.randint(1, 4)):
        r = rng.random()
        i = rng.randrange(len(s) + 1)
        if r < 0.4 and s:
            del s[min(i, len(s) - 1)]
        elif r < 0.8:
            s.insert(i, rng.choice(SOUP))
        elif s:
            s[min(i, len(s) - 1)] = rng.choice(SOUP)
    return "".join(s)


def gen_degenerate(rng):
    """record lines with a column separator removed or replaced by other white space (also newlines: `\\s` spans
    lines), a dropped column, a tag glued to the size: the inputs on which the regexes have to backtrack"""
    out = []
    for _ in range(rng.randint(1, 3)):
        r = gen_rec(rng, "narrow")
        sep = lambda n: rng.choice([" " * (n + 1), "", "\t", "\n", " \n ", "\r\n", "\x0c", "  "]) if rng.random() < 0.5 else " " * (n + 1)
        size = size_str(r["size"]) if rng.random() < 0.85 else rng.choice(["", "0 B", "0", "B", "10", "0 B 0 B", "1 0 B"])
        date = r["date"][:4] + "-" + r["date"][4:6] + "-" + r["date"][6:]
        if rng.random() < 0.1:
            date = rng.choice([date[:-1], date.replace("-", ":"), date[1:], ""])
        out.append(r["id"] + sep(r["pad1"]) + r["tag"] + sep(r["pad2"]) + size + sep(r["pad3"]) + date + r["tail"])
    return "\n".join(out) + rng.choice(["", "\n"])


# ---------------------------------------------------------------------------------------------
# spec oracles (independent of the Lean model: Python sets and the generator's own records)
# ---------------------------------------------------------------------------------------------

def expect_vm_states(per_image_sets, memfile_set=None):
    want = set.intersection(*[set(s) for s in per_image_sets])
    if memfile_set is not None:
        want &= set(memfile_set)
    return want


def judge_combination(ctx, kind, got, want, case):
    """`got` = what the real code returned, `want` = the set of names carried by every image (and memory file)"""
    if isinstance(got, str):
        ctx.violate(f"{kind}-show-raises", f"{kind} show of a vm with {case['n']} image(s) {got} instead of listing {sorted(want)}",
                    case)
        return False
    if set(got) != want:
        extra, missing = sorted(set(got) - want), sorted(want - set(got))
        ctx.violate(f"{kind}-show-not-intersection",
                    f"{kind} show listed {sorted(got)}; states carried by every image"
                    f"{' and the memory file' if kind == 'ram' else ''}: {sorted(want)} (extra {extra}, missing {missing})", case)
        return False
    if len(set(got)) != len(got):
        ctx.violate(f"{kind}-show-duplicates", f"{kind} show listed a state twice: {got}", case)
        return False
    return True


# ---------------------------------------------------------------------------------------------
# case runners
# ---------------------------------------------------------------------------------------------

def run_cases(ctx, cases, oracle=True):
    """cases: list of dicts with 'kind' in
       vt   : {'n', 'on': [names per image], 'off': [names per image], 'lines': [listing lines per image]}
       vtd  : {'n', 'dumps': [text per image]}                         (no oracle: arbitrary text)
       ram  : {'n', 'files': [...], 'imgs': [[names]...]}
       ramext: {'n', 'files': [...], 'imgfiles': [[file names]...]}
       ext  : {'files': [...]}
       qcow : {'lines': [...]}   well-formed listing (oracle on both patterns, printer twin, partition op)
       text : {'dump': str}      arbitrary text, both patterns, findall and show
       cls  : {'code': int}
    """
    lines, expect = [], []

    def op(ci, what, line, impl):
        lines.append(line)
        expect.append((ci, what, impl))

    for ci, c in enumerate(cases):
        k = c["kind"]
        ctx.count("kind." + k)
        if k == "vt":
            dumps = [listing_text(ls) for ls in c["lines"]]
            got = impl_vt(dumps)
            op(ci, "vt:listings", f"vtl {c['n']} " + ("|".join(enc_hex(d) for d in dumps) if dumps else "#"), show(got))
            ctx.count(f"vt.images={c['n']}")
            if oracle:
                want = expect_vm_states(c["on"])
                ctx.count("vt.result.nonempty" if want else "vt.result.empty")
                if not c["on"][0]:
                    ctx.count("vt.first-image-empty")
                if judge_combination(ctx, "vt", got, want, c) and want:
                    ctx.count("vt.off-noise-ignored" if any(c["off"]) else "vt.no-noise")
            # list level: the same call with the parsing factored out (per-image lists as returned by the real show)
            per_img = [impl_qcow(True, d) for d in dumps]
            if all(not isinstance(x, str) for x in per_img):
                op(ci, "vt:lists", f"vt {c['n']} " + enc_imgs(per_img), show(got))
            ctx.case({"kind": k, "n": c["n"], "on": c["on"], "off": c["off"]}, nontrivial=c["n"] > 1)
        elif k == "vtd":
            got = impl_vt(c["dumps"])
            op(ci, "vt:text", f"vtl {c['n']} " + "|".join(enc_hex(d) for d in c["dumps"]), show(got))
            ctx.case(c, nontrivial=True)
        elif k == "ram":
            got = impl_ram(c["files"], c["imgs"])
            op(ci, "ram", f"ram {c['n']} {enc_names(c['files'])} {enc_imgs(c['imgs'])}", show(got))
            ctx.count(f"ram.images={c['n']}")
            if oracle:
                mem = [f[:-6] for f in c["files"] if f.endswith(".state")]
                want = expect_vm_states(c["imgs"], mem)
                ctx.count("ram.result.nonempty" if want else "ram.result.empty")
                if not c["imgs"][0]:
                    ctx.count("ram.first-image-empty")
                judge_combination(ctx, "ram", got, want, c)
            ctx.case(c, nontrivial=c["n"] > 1)
        elif k == "ramext":
            got = impl_ramext(c["files"], c["imgfiles"])
            op(ci, "ramext", f"ramext {c['n']} {enc_names(c['files'])} {enc_imgs(c['imgfiles'])}", show(got))
            if oracle:
                mem = [f[:-6] for f in c["files"] if f.endswith(".state")]
                want = expect_vm_states([[f[:-6] for f in fl if f.endswith(".qcow2")] for fl in c["imgfiles"]], mem)
                judge_combination(ctx, "ram", got, want, c)
            ctx.case(c, nontrivial=c["n"] > 1)
        elif k == "ext":
            got = impl_ext(c["files"])
            op(ci, "ext", f"ext {enc_names(c['files'])}", show(got))
            ctx.case(c, nontrivial=len(c["files"]) > 1)
        elif k == "qcow":
            text = listing_text(c["lines"])
            if c.get("trailing_newline"):
                text += "\n"
            recs = [l for l in c["lines"] if isinstance(l, dict)]
            want_off = [r["tag"] for r in recs if r["size"] == ZERO]
            want_on = [r["tag"] for r in recs if r["size"] != ZERO]
            got_off, got_on = impl_qcow(False, text), impl_qcow(True, text)
            enc = enc_lines(c["lines"])
            if not c.get("trailing_newline"):
                op(ci, "print", "print " + enc, enc_hex(text))          # Python twin of printListing == printListing
            op(ci, "partition", "partition " + enc, enc_names(impl_findall(False, text)) + "/" + enc_names(impl_findall(True, text)))
            op(ci, "off", "off " + enc_hex(text), show(got_off))
            op(ci, "on", "on " + enc_hex(text), show(got_on))
            ctx.count(f"qcow.records={min(len(recs), 6)}")
            for r in recs:
                ctx.count("qcow.size." + size_str(r["size"]).split(" ")[1] + (".zero" if r["size"] == ZERO else ""))
            if oracle:
                if got_off != want_off or got_on != want_on:
                    ctx.violate("on-off-not-told-apart",
                                f"listing with off snapshots {want_off} and vm states {want_on}: the off pattern listed "
                                f"{got_off}, the on pattern listed {got_on}", c)
            ctx.case({"kind": k, "text": text}, nontrivial=len(recs) > 0)
        elif k == "text":
            d = c["dump"]
            op(ci, "off:text", "off " + enc_hex(d), show(impl_qcow(False, d)))
            op(ci, "on:text", "on " + enc_hex(d), show(impl_qcow(True, d)))
            ctx.count("text.match" if impl_findall(False, d) or impl_findall(True, d) else "text.nomatch")
            ctx.case(c, nontrivial=True)
        elif k == "cls":
            import re
            ch = chr(c["code"])
            impl = "".join(f if re.fullmatch(p, ch) else "-" for f, p in
                           [("d", r"\d"), ("s", r"\s"), ("w", r"\w"), ("t", r"[\w\.-]"), ("f", r"[\.\d]"), ("g", r"[\-\+]"), ("e", "e")])
            op(ci, "cls", f"cls {c['code']}", impl)
            ctx.case(c, nontrivial=False)
    out = lean_driver(lines)
    seen = set()
    for (ci, what, want), got in zip(expect, out):
        if want != got and ci not in seen:
            seen.add(ci)
            ctx.disagree(what, cases[ci], got, want)
            if len(seen) >= 5:
                break


# ---------------------------------------------------------------------------------------------
# generators of whole case sets
# ---------------------------------------------------------------------------------------------

def subsets(alpha):
    return [[a for i, a in enumerate(alpha) if m >> i & 1] for m in range(1 << len(alpha))]


def exhaustive_assignments():
    """1..3 images x all subsets of the 3-name alphabet per image x all subsets for the 4th set
    (memory files for ramfile; off-snapshot noise for qcow2vt): (8 + 64 + 512) * 8 = 4672, of which
    8^3 * 8 = 4096 with three images"""
    subs = subsets(ALPHA)
    for n in (1, 2, 3):
        for combo in itertools.product(subs, repeat=n):
            for fourth in subs:
                yield n, [list(s) for s in combo], list(fourth)


def shuffled(rng, l):
    l = list(l)
    rng.shuffle(l)
    return l


def vt_case(rng, n, on_sets, noise):
    on = [shuffled(rng, s) for s in on_sets]
    off = [shuffled(rng, [x for x in noise if x not in s]) for s in on_sets]
    lines = [listing_for(rng, on[i], off[i]) for i in range(n)]
    return {"kind": "vt", "n": n, "on": on, "off": off, "lines": lines}


def ram_case(rng, n, sets, mem):
    files = [m + ".state" for m in mem]
    r = rng.random()
    if r < 0.3:
        files += rng.sample(["boot3.0.qcow2", "launch", "state", ".statex", "launch.state.bak", "image1"], 2)
    return {"kind": "ram", "n": n, "files": shuffled(rng, files), "imgs": [shuffled(rng, s) for s in sets]}


def ramext_case(rng, n, sets, mem):
    files = [m + ".state" for m in mem] + [f"image{i + 1}" for i in range(n)]
    imgfiles = [shuffled(rng, [x + ".qcow2" for x in s] + (["launch.state", "x.qcow2.tmp"] if rng.random() < 0.2 else []))
                for s in sets]
    return {"kind": "ramext", "n": n, "files": shuffled(rng, files), "imgfiles": imgfiles}


def batches(ctx, cases, size=1500, oracle=True):
    for i in range(0, len(cases), size):
        run_cases(ctx, cases[i:i + size], oracle=oracle)


def correspondence(ctx):
    rng = ctx.rng
    thorough = ctx.tier == "thorough" or ctx.extra.get("drift")
    full = ctx.tier == "thorough"          # drifted anchors in the quick tier: an intermediate size (~3 min)
    ctx.rule = ("combination cases: a vm with 1..3 images, each carrying a subset of a 3-name alphabet (all assignments, "
                "lists in shuffled order) — qcow2vt: names as vm snapshots in generated `qemu-img snapshot -l` listings with "
                "a 4th subset as 0 B noise; ramfile: per-image lists + `.state` files of a 4th subset; ramfile over "
                "qcow2ext listdirs; listing cases: generated listings (three layouts, tricky tags and sizes) through the "
                "real show/findall and the Lean recognisers, plus mutated listings and character soup; non-trivial = more "
                "than one image / at least one record; distinct by content hash")
    ctx.assumptions = [
        "on_off_partition / vt_show_listings speak about listings in qemu-img layout: ASCII, numeric ID, tag over [\\w.-], "
        "at least one space between the columns (qemu >= 6.0 prints explicit spaces), a size of the shape "
        "\\d+e?[-+]?[.\\d]* \\w+ of which only the zero size starts with `0 B`, a date YYYY-MM-DD (Rec.WF, Size.WF, Line.WF)",
        "the hand recognisers are tied to Python's re only differentially (exact agreement demanded on every generated input)",
    ]
    corpus = os.path.join(vlib.VERIF, "corpus", "C17")
    if os.path.isdir(corpus):
        import json
        for f in sorted(os.listdir(corpus)):
            replay(ctx, {"case": json.load(open(os.path.join(corpus, f)))})
    # regression witnesses of F1 (fixed by 8bdd936) as explicit cases
    fixed = [{"kind": "vtd", "n": 0, "dumps": []},
             vt_case(rng, 2, [["launch"], ["launch"]], []), vt_case(rng, 2, [[], ["launch"]], []),
             ram_case(rng, 2, [["launch"], ["launch"]], ["launch"]), ram_case(rng, 2, [[], ["launch"]], ["launch"])]
    run_cases(ctx, fixed)
    # exhaustive part
    reps = 6 if full else 3 if thorough else 1
    cases = []
    n_assign = 0
    for n, sets, fourth in exhaustive_assignments():
        n_assign += 1
        for _ in range(reps):
            cases.append(vt_case(rng, n, sets, fourth))
            cases.append(ram_case(rng, n, sets, fourth))
        if thorough or n_assign % 4 == 0:
            cases.append(ramext_case(rng, n, sets, fourth))
        if thorough or n_assign % 4 == 2:
            # the same assignment over state names that END in characters of the image extension (".qcow2"): deriving the state
            # from the file name must cut the extension off as a suffix, not as a set of characters
            ren = dict(zip(ALPHA, ALPHA_EXT_CHARS))
            cases.append(ramext_case(rng, n, [[ren[x] for x in st] for st in sets], [ren[x] for x in fourth]))
    ctx.extra["exhaustive"] = {"assignments": n_assign, "three_image_assignments": 8 ** 3 * 8,
                               "tiers": ["qcow2vt (listings)", "ramfile (stub image backend)"],
                               "orders": f"{reps} random shuffle(s) of every list per assignment"}
    batches(ctx, cases)
    # character classes
    batches(ctx, [{"kind": "cls", "code": i} for i in range(128)])
    # listings
    n_list, n_mut, n_soup, n_ext = ((60000, 20000, 10000, 4000) if full else (30000, 12000, 6000, 2000) if thorough
                                    else (2000, 1200, 600, 300))
    cases = []
    for i in range(n_list):
        cases.append({"kind": "qcow", "lines": gen_listing(rng), "trailing_newline": i % 2 == 0})
    batches(ctx, cases)
    cases = []
    for _ in range(n_mut):
        base = listing_text(gen_listing(rng, 3)) + "\n"
        cases.append({"kind": "text", "dump": mutate_text(rng, base)})
    for _ in range(n_mut):
        cases.append({"kind": "text", "dump": gen_degenerate(rng)})
    for _ in range(n_soup):
        cases.append({"kind": "text", "dump": "".join(rng.choice(SOUP) for _ in range(rng.randint(0, 60)))})
    for _ in range(n_soup // 3):
        cases.append({"kind": "vtd", "n": 2, "dumps": [mutate_text(rng, listing_text(gen_listing(rng, 3))) for _ in range(2)]})
    for _ in range(n_ext):
        files = [rng.choice(["a", "b.c", "launch", ""]) + rng.choice([".qcow2", ".qcow", ".state", "", ".qcow2.qcow2"])
                 for _ in range(rng.randint(0, 5))]
        cases.append({"kind": "ext", "files": files})
        cases.append({"kind": "ram", "n": 1, "files": files, "imgs": [[f[:-6] for f in files if len(f) >= 6]]})
    batches(ctx, cases, oracle=False)


def search(ctx, reason):
    """a proof obligation (e.g. a pinned regex source) or the correspondence broke: hunt on the implementation with
    the spec oracles only — every assignment of the exhaustive part, then many well-formed listings; shrink"""
    rng = ctx.rng
    noop = lambda *a, **k: None

    def run_silent(cases):
        saved = ctx.disagree
        ctx.disagree = noop
        try:
            batches(ctx, cases, size=4000)
        finally:
            ctx.disagree = saved
    cases = []
    for n, sets, fourth in exhaustive_assignments():
        cases.append(vt_case(rng, n, sets, fourth))
        cases.append(ram_case(rng, n, sets, fourth))
        cases.append(ramext_case(rng, n, sets, fourth))
    run_silent(cases)
    if not ctx.violations:
        run_silent([{"kind": "qcow", "lines": gen_listing(rng, 4), "trailing_newline": i % 2 == 0} for i in range(20000)])
    if ctx.violations:
        v = ctx.violations[0]
        c = v["case"]
        if c.get("kind") == "qcow":
            def fails(ls):
                sub = vlib.Ctx(ctx.prop, ctx.tier, ctx.seed)
                sub.disagree = noop
                try:
                    run_cases(sub, [dict(c, lines=ls)])
                except Exception:
                    return False
                return bool(sub.violations)
            c["lines"] = vlib.shrink_list(c["lines"], fails)


def _norm_lines(lines):
    return [dict(l, size=tuple(l["size"])) if isinstance(l, dict) else l for l in lines]


def replay(ctx, payload):
    """re-execute one case (JSON turned the size tuples into lists)"""
    c = dict(payload["case"])
    if c.get("kind") == "qcow":
        c["lines"] = _norm_lines(c["lines"])
    elif c.get("kind") == "vt":
        c["lines"] = [_norm_lines(ls) for ls in c["lines"]]
    run_cases(ctx, [c])


# ---------------------------------------------------------------------------------------------
# extraction (AST of /repo -> lean/I2N/Extracted/Show.lean), fail closed
# ---------------------------------------------------------------------------------------------

def lean_str(s):
    out = []
    for ch in s:
        if ch == "\\":
            out.append("\\\\")
        elif ch == '"':
            out.append('\\"')
        elif ch == "\n":
            out.append("\\n")
        elif 32 <= ord(ch) < 127:
            out.append(ch)
        else:
            out.append("\\u{%x}" % ord(ch))
    return '"' + "".join(out) + '"'


def _find(body, parts):
    for node in body:
        if isinstance(node, (ast.FunctionDef, ast.ClassDef)) and node.name == parts[0]:
            return node if len(parts) == 1 else _find(node.body, parts[1:])
    return None


def extract_regex(tree, name):
    hits = [n for n in tree.body if isinstance(n, ast.Assign) and len(n.targets) == 1
            and isinstance(n.targets[0], ast.Name) and n.targets[0].id == name]
    if len(hits) != 1:
        raise RuntimeError(f"extract: {name} is not assigned exactly once at module level")
    call = hits[0].value
    if not (isinstance(call, ast.Call) and ast.unparse(call.func) == "re.compile" and len(call.args) == 1
            and isinstance(call.args[0], ast.Constant) and isinstance(call.args[0].value, str)):
        # the pattern is no longer a literal (e.g. composed from a shared template): take the VALUE of the compiled
        # regex from the imported module instead, so that the pinned theorems are checked against what the code uses
        import importlib
        import re as _re
        mod = importlib.import_module("avocado_i2n.states.qcow2")
        rx = getattr(mod, name, None)
        if not isinstance(rx, _re.Pattern):
            raise RuntimeError(f"extract: {name} is neither re.compile(<string literal>, ...) nor a compiled pattern")
        flags = "re.MULTILINE" if (rx.flags & ~_re.UNICODE) == _re.MULTILINE else ("0" if (rx.flags & ~_re.UNICODE) == 0 else str(rx.flags))
        return rx.pattern, flags
    kws = {k.arg: ast.unparse(k.value) for k in call.keywords}
    if set(kws) - {"flags"}:
        raise RuntimeError(f"extract: unexpected keywords of re.compile for {name}: {sorted(kws)}")
    return call.args[0].value, kws.get("flags", "0")


def extract_suffix(tree, qual, path):
    fn = _find(tree.body, qual.split("."))
    if fn is None:
        raise RuntimeError(f"extract: {qual} not found in {path}")
    sufs = [n.args[0].value for n in ast.walk(fn) if isinstance(n, ast.Call) and isinstance(n.func, ast.Attribute)
            and n.func.attr == "endswith" and len(n.args) == 1 and isinstance(n.args[0], ast.Constant)]
    cuts = [n.slice.upper.operand.value for n in ast.walk(fn) if isinstance(n, ast.Subscript)
            and isinstance(n.slice, ast.Slice) and n.slice.lower is None and n.slice.step is None
            and isinstance(n.slice.upper, ast.UnaryOp) and isinstance(n.slice.upper.op, ast.USub)
            and isinstance(n.slice.upper.operand, ast.Constant) and isinstance(n.slice.upper.operand.value, int)]
    if len(sufs) != 1 or len(cuts) != 1:
        raise RuntimeError(f"extract: {qual}: expected one .endswith(<literal>) and one [:-<int>], found {sufs} / {cuts}")
    return sufs[0], cuts[0]


def extracted_source(qcow2_path, ramfile_path):
    qt = ast.parse(open(qcow2_path).read())
    rt = ast.parse(open(ramfile_path).read())
    off, off_flags = extract_regex(qt, "QEMU_OFF_STATES_REGEX")
    on, on_flags = extract_regex(qt, "QEMU_ON_STATES_REGEX")
    ram_suf, ram_cut = extract_suffix(rt, "RamfileBackend._show", ramfile_path)
    ext_suf, ext_cut = extract_suffix(qt, "QCOW2ExtBackend._show", qcow2_path)
    return "\n".join([
        "/- GENERATED on every run by harness/props/c17.py:extract from /repo's AST "
        "(avocado_i2n/states/qcow2.py, ramfile.py) -- do not edit -/",
        "namespace I2N.Extracted.Show",
        f"def offRegexSrc : String := {lean_str(off)}",
        f"def offRegexFlags : String := {lean_str(off_flags)}",
        f"def onRegexSrc : String := {lean_str(on)}",
        f"def onRegexFlags : String := {lean_str(on_flags)}",
        f"def ramSuffix : String := {lean_str(ram_suf)}",
        f"def ramCut : Nat := {ram_cut}",
        f"def extSuffix : String := {lean_str(ext_suf)}",
        f"def extCut : Nat := {ext_cut}",
        "end I2N.Extracted.Show", ""])


def extract(ctx):
    src = extracted_source(QCOW2_SRC or os.path.join(vlib.REPO, "avocado_i2n/states/qcow2.py"),
                           RAMFILE_SRC or os.path.join(vlib.REPO, "avocado_i2n/states/ramfile.py"))
    path = os.path.join(vlib.LEAN, "I2N", "Extracted", "Show.lean")
    os.makedirs(os.path.dirname(path), exist_ok=True)
    if not os.path.exists(path) or open(path).read() != src:
        with open(path, "w") as fh:
            fh.write(src)
    # second tie: the combination loops translated to Lean (raises pygen.Unsupported when a loop left the translated
    # subset: run.py records that as a broken proof obligation and searches for a failing input)
    import pygen_pxindex
    if pygen_pxindex.extract_show(ctx):
        ctx.notes.append("I2N/Extracted/GenShow.lean changed: the source of QCOW2VTBackend.show / RamfileBackend._show "
                         "differs from the one the committed file was generated from (vtShow_matches_source, "
                         "ramImagesStates_matches_source are re-checked)")
    ctx.extra["regenerated"] = ("lean/I2N/Extracted/GenShow.lean (the combination loops of QCOW2VTBackend.show and "
                                "RamfileBackend._show via harness/pygen_pxindex.py); obligations: vtShow_matches_source, "
                                "ramImagesStates_matches_source, source_show_is_intersection")
