"""Mutation sanity for the translator tie of `_parametric_object_iteration` (C12; development tool, not part of ./check):

    /venv/bin/python harness/props/c12_iter_mutants.py [name-prefix ...]

For every mutant: one textual edit of a scratch copy of avocado_i2n/states/setup.py (/repo untouched), then
  kind "iter":  harness/pygen_pxiter.py regenerates I2N/Extracted/GenIter.lean; `lake build I2N.Lemmas.PolicyGenIter`
                (proof of genIterLevel_step = iterLevel_matches_source) must FAIL, or the front end must refuse;
  kind "get":   the filters `skip_types` / `image_readonly` sit in the loop bodies of the CALLERS of the generator
                (get/set/unset/check_states), which harness/pygen_pxpolicy.py translates: GenPolicy.lean is regenerated
                and `lake build I2N.Lemmas.PolicyGen` (getOne_matches_source ...) must FAIL.
A mutant for which the build succeeds SURVIVES = a hole.  Names starting with `e` are semantically EQUIVALENT edits: for
those the proof must still compile (the kills are not an artefact of the proof script spelling out the generated term).  The committed generated files are restored afterwards.
"""
import os
import subprocess
import sys
import tempfile

sys.path.insert(0, os.path.dirname(os.path.dirname(os.path.abspath(__file__))))
import vlib  # noqa: E402
import pygen  # noqa: E402
import pygen_pxiter  # noqa: E402
import pygen_pxpolicy  # noqa: E402

REC = "            yield from _parametric_object_iteration(obj_params, composites)\n"
TAIL = ('        if params_obj_type != object_composition[-1]:\n' + REC +
        "        # object type parameters don't propagate downwards in the hierarchy\n"
        '        obj_type_params = obj_params.object_params(params_obj_type)\n'
        '        yield obj_type_params\n')

MUTANTS = {
    "i1 iter: yield order swapped (composite before its components)": (
        "iter", [(TAIL, '        obj_type_params = obj_params.object_params(params_obj_type)\n'
                        '        yield obj_type_params\n'
                        '        if params_obj_type != object_composition[-1]:\n' + REC)]),
    "i2 iter: pop forgotten (the entry stays in the shared list)": (
        "iter", [('        yield obj_type_params\n    composites.pop()\n', '        yield obj_type_params\n')]),
    "i3 iter: composites[-1] = ... forgotten (placeholder None stays)": (
        "iter", [('        composites[-1] = (params_obj_name, params_obj_type)\n', '')]),
    "i4 iter: the recursive call gets a copy of the list": (
        "iter", [(REC, REC.replace("composites)", "list(composites))"))]),
    "i5 iter: the recursive call gets the parent's dictionary": (
        "iter", [(REC, REC.replace("obj_params,", "params,"))]),
    "i6 iter: descent test negated (!= -> ==)": (
        "iter", [('        if params_obj_type != object_composition[-1]:', '        if params_obj_type == object_composition[-1]:')]),
    "i7 iter: descent stops at the first type instead of the last": (
        "iter", [('        if params_obj_type != object_composition[-1]:', '        if params_obj_type != object_composition[0]:')]),
    "i8 iter: object_name joined from the types": (
        "iter", [('obj_params["object_name"] = "/".join([c[0] for c in composites])', 'obj_params["object_name"] = "/".join([c[1] for c in composites])')]),
    "i9 iter: wrong key literal (object_type written as object_types)": (
        "iter", [('obj_params["object_type"] = "/".join', 'obj_params["object_types"] = "/".join')]),
    "i10 iter: type = name not written into the object's dictionary": (
        "iter", [('        obj_params[params_obj_type] = params_obj_name\n', '')]),
    "e1 iter: EQUIVALENT edit (the yielded dictionary re-uses the name obj_params after the descent)": (
        "iter", [('        obj_type_params = obj_params.object_params(params_obj_type)\n        yield obj_type_params\n',
                  '        obj_params = obj_params.object_params(params_obj_type)\n        yield obj_params\n'),
                 ]),
    "i11 iter: the type parameters are resolved before the descent (they propagate downwards)": (
        "iter", [(TAIL, '        obj_params = obj_params.object_params(params_obj_type)\n'
                        '        if params_obj_type != object_composition[-1]:\n' + REC +
                        '        yield obj_params\n')]),
    "e2 iter: EQUIVALENT edit (descent test written the other way round)": (
        "iter", [('        if params_obj_type != object_composition[-1]:', '        if object_composition[-1] != params_obj_type:')]),
    "e3 iter: EQUIVALENT edit (the shared entry is written after the object's dictionary is made)": (
        "iter", [('        composites[-1] = (params_obj_name, params_obj_type)\n        obj_params = params.object_params(params_obj_name)\n',
                  '        obj_params = params.object_params(params_obj_name)\n        composites[-1] = (params_obj_name, params_obj_type)\n')]),
    "i12 iter: type parameters not resolved (yield of obj_params)": (
        "iter", [('        yield obj_type_params\n', '        yield obj_params\n')]),
    "i13 iter: the type is read at a fixed depth": (
        "iter", [('params_obj_type = object_composition[len(composites)]', 'params_obj_type = object_composition[0]')]),
    "i14 iter: wrong chain key literal": (
        "iter", [('params.objects("states_chain")', 'params.objects("state_chain")')]),
    "i15 iter: the list is always created anew (is None test dropped)": (
        "iter", [('    if composites is None:\n        composites = []\n', '    composites = []\n')]),
    "i16 iter: ValueError test dropped": (
        "iter", [('    if len(object_composition) == 0:\n        raise ValueError(\n            "Have to specify at least one parametric object type "\n            "or an overall composition through `states_chain`"\n        )\n', '')]),
    "i17 iter: object_params of the type instead of the name": (
        "iter", [('obj_params = params.object_params(params_obj_name)', 'obj_params = params.object_params(params_obj_type)')]),
    "f1 get: skip_types test dropped": (
        "get", [('        if params_obj_type in state_params.objects("skip_types"):\n            logging.debug(\n                f"Skip getting states of types',
                 '        if False:\n            logging.debug(\n                f"Skip getting states of types')]),
    "f2 get: wrong type literal in the read-only guard": (
        "get", [('        if params_obj_type == "nets/vms/images" and state_params.get_boolean(\n            "image_readonly", False\n        ):\n            logging.warning(\n                f"Incorrect configuration: cannot use any state "\n                f"from readonly image {params_obj_name} - skipping"\n            )\n            continue\n\n        # if the state is not defined skip (leaf tests that are no setup)\n        if not state_params.get("get_state"):',
                 '        if params_obj_type == "nets/vms/image" and state_params.get_boolean(\n            "image_readonly", False\n        ):\n            logging.warning(\n                f"Incorrect configuration: cannot use any state "\n                f"from readonly image {params_obj_name} - skipping"\n            )\n            continue\n\n        # if the state is not defined skip (leaf tests that are no setup)\n        if not state_params.get("get_state"):')]),
    "f3 get: read-only test on the wrong dictionary (run_params)": (
        "get", [('        if params_obj_type == "nets/vms/images" and state_params.get_boolean(\n            "image_readonly", False\n        ):\n            logging.warning(\n                f"Incorrect configuration: cannot use any state "\n                f"from readonly image {params_obj_name} - skipping"\n            )\n            continue\n\n        # if the state is not defined skip (leaf tests that are no setup)\n        if not state_params.get("get_state"):',
                 '        if params_obj_type == "nets/vms/images" and run_params.get_boolean(\n            "image_readonly", False\n        ):\n            logging.warning(\n                f"Incorrect configuration: cannot use any state "\n                f"from readonly image {params_obj_name} - skipping"\n            )\n            continue\n\n        # if the state is not defined skip (leaf tests that are no setup)\n        if not state_params.get("get_state"):')]),
    "f4 get: skip_types read from the wrong dictionary (run_params)": (
        "get", [('    for state_params in _parametric_object_iteration(run_params):\n        params_obj_name = state_params["object_name"]\n        params_obj_type = state_params["object_type"]\n        if params_obj_type in state_params.objects("skip_types"):\n            logging.debug(\n                f"Skip getting states of types',
                 '    for state_params in _parametric_object_iteration(run_params):\n        params_obj_name = state_params["object_name"]\n        params_obj_type = state_params["object_type"]\n        if params_obj_type in run_params.objects("skip_types"):\n            logging.debug(\n                f"Skip getting states of types')]),
}


def main(argv):
    names = [n for n in MUTANTS if not argv or any(n.startswith(a) for a in argv)]
    src = open(os.path.join(vlib.REPO, pygen_pxiter.SETUP_REL)).read()
    gens = {"iter": (pygen._lean_path("GenIter.lean"), pygen_pxiter.iter_source, "I2N.Lemmas.PolicyGenIter"),
            "get": (pygen._lean_path("GenPolicy.lean"), pygen_pxpolicy.policy_source, "I2N.Lemmas.PolicyGen")}
    committed = {k: open(v[0]).read() for k, v in gens.items()}
    rows = []
    try:
        for name in names:
            kind, edits = MUTANTS[name]
            gen, source, target = gens[kind]
            text = src
            for old, new in edits:
                assert text.count(old) == 1, (name, old[:60], text.count(old))
                text = text.replace(old, new)
            compile(text, "setup_mut.py", "exec")
            with tempfile.NamedTemporaryFile("w", suffix=".py", delete=False) as fh:
                fh.write(text)
            try:
                out = source(fh.name)
            except pygen.Unsupported as e:
                rows.append((name, "refused by the translation", str(e)[:120]))
                print(rows[-1], flush=True)
                continue
            finally:
                os.unlink(fh.name)
            # the generated file quotes the Python: compare the definitions only
            if out.split("/- the Python")[0] == committed[kind].split("/- the Python")[0] and kind == "iter":
                rows.append((name, "SURVIVES", "generated Lean unchanged"))
                print(rows[-1], flush=True)
                continue
            open(gen, "w").write(out)
            r = subprocess.run(["lake", "build", target], cwd=vlib.LEAN, capture_output=True, text=True)
            if r.returncode == 0 and name.startswith("e"):
                rows.append((name, "proof still compiles (as it must)", f"{target} builds"))
            elif name.startswith("e"):
                rows.append((name, "SURVIVES", "an equivalent edit breaks the proof: the proof depends on the spelling"))
            elif r.returncode == 0:
                rows.append((name, "SURVIVES", f"{target} still builds"))
            else:
                errs = [l for l in (r.stdout + r.stderr).splitlines() if l.startswith("error:") and ".lean:" in l]
                what = "equality proof fails to compile"
                if errs and "Extracted/Gen" in errs[0]:
                    what = "generated Lean does not type-check"
                rows.append((name, what, (errs[0] if errs else "?")[:120]))
            print(rows[-1], flush=True)
            open(gen, "w").write(committed[kind])
    finally:
        for k, v in gens.items():
            open(v[0], "w").write(committed[k])
    print()
    for r in rows:
        print("| " + " | ".join(r) + " |")
    return 1 if any(r[1] == "SURVIVES" for r in rows) else 0


if __name__ == "__main__":
    sys.exit(main(sys.argv[1:]))
