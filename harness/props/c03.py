"""C03 — traversal family (engine E6), see DESIGN.md §6 and harness/trav_common.py."""
import os

import trav_common
import vlib

PROP = "C03"
ENGINE = "traverse"
TARGETS = ["I2N.Props.C03", "drv_trav"]
PROPS_FILE = "I2N/Props/C03.lean"
MONITORS = "count,attempt,present,uid".split(",")
ANCHORS = {"avocado_i2n/cartgraph/graph.py": ["TestGraph.traverse_object_trees", "TestGraph.traverse_node",
                                              "TestGraph.reverse_node", "TestGraph.traverse_terminal_node"],
           "avocado_i2n/cartgraph/node.py": ["TestNode.is_occupied", "TestNode.is_started", "TestNode.is_finished",
                                             "TestNode.is_setup_ready", "TestNode.is_cleanup_ready",
                                             "TestNode.should_rerun", "TestNode.default_run_decision",
                                             "TestNode.default_clean_decision", "TestNode.pick_parent",
                                             "TestNode.pick_child", "TestNode.drop_parent", "TestNode.drop_child",
                                             "TestNode.pull_locations", "TestNode.scan_states", "TestNode.sync_states",
                                             "TestNode.shared_results", "TestNode.shared_filtered_results",
                                             "TestNode.shared_result_worker_ids", "TestNode.shared_involved_workers"],
           "avocado_i2n/plugins/runner.py": ["TestRunner.run_test_node"]}
TRUSTED = [
    "modelled, not verified: prefix_priority (exported as ranks), the avocado task machinery (replaced by a scheduled "
    "outcome), the state backends (replaced by a store: a PASS leaves the set states in the executing worker's own pool; "
    "check consults own/shared pool by scope), lazy expansion of flat leaves and replay of previous jobs (not in this model)",
    "virtual-time event loop of the harness (asyncio.SelectorEventLoop subclass)",
]
CORPUS = os.path.join(vlib.VERIF, "corpus", PROP)


def correspondence(ctx):
    thorough = ctx.tier == "thorough" or ctx.extra.get("drift")
    ctx.rule = ("one case = a generated synthetic graph of real TestNode objects (1-3 vms, setup chains with fan-out, multi-object "
                "leaves, removable states; 30% with lazy expansion of flat leaves) or a really parsed graph of the shipped suite, 1-4 workers (lxc / remote clusters / serial), pool_scope subset, retry settings, "
                "initial pool population and per-worker schedule of (duration, status|never reported); the real "
                "traverse_object_trees runs under virtual time, its event stream is replayed block by block through the Lean "
                "model and judged by the verified monitors " + ",".join(MONITORS) + "; non-trivial = more than two executions")
    n = 3000 if thorough else 240
    trav_common.family_run(ctx, MONITORS, n, corpus=CORPUS, n_parsed=48 if thorough else 12,
                            n_lazyparsed=12 if thorough else 3)


def search(ctx, reason):
    trav_common.family_run(ctx, MONITORS, 1500, corpus=None, seed_offset=7919)


def replay(ctx, payload):
    trav_common.replay_case(ctx, payload, MONITORS)
