"""C12 — state operations follow the documented policy table and a store model (engine E2 `policy`).

Three parties are run on the same inputs:
  * the REAL `avocado_i2n.states.setup` functions over an in-memory backend registered in `ss.BACKENDS`
    (the seam the selftests use) and a stub env/vm,
  * the compiled Lean model (`drv_policy`) — compared line by line (result, ordered backend calls, store),
  * a spec oracle written from the README policy table and a plain set-of-names store, which judges the
    implementation's own output (`ctx.violate`).
"""
import ast
import itertools
import json
import os
import tempfile

import vlib

PROP = "C12"
ENGINE = "policy"
TARGETS = ["I2N.Props.C12", "drv_policy"]
PROPS_FILE = "I2N/Props/C12.lean"
SETUP_PY = "avocado_i2n/states/setup.py"
ANCHORS = {SETUP_PY: ["_parametric_object_iteration", "_state_check_chain", "check_states", "get_states",
                      "set_states", "unset_states", "push_states", "pop_states"]}
TRUSTED = [
    "virttest.utils_params.Params (objects/object_params/get_boolean) is third party: mirrored in the model and "
    "used as is by the spec oracle",
    "the in-memory backend of the harness (set/unset = insert/erase a name, set_root/unset_root = flip a flag, "
    "objects identified by the (nets, vms, images) parameter triple) is the backend contract the model assumes",
    "not modelled: `states_chain_<object>` keys (the real iteration re-reads states_chain per level), env/vm objects "
    "other than `vm.destroy`, `*_location`/`check_opts` beyond soft_boot",
]

ROOTS = None       # filled by _consts() from /repo's AST
DEFAULTS = None

# ---------------------------------------------------------------------------------------------------------------
# extraction of literals from /repo (fail closed)


class ExtractError(Exception):
    pass


def _get_default(fn, key):
    """the literal default of the `<x>.get("<key>", "<default>")` calls inside function node `fn`, in source order"""
    out = []
    for node in ast.walk(fn):
        if (isinstance(node, ast.Call) and isinstance(node.func, ast.Attribute) and node.func.attr == "get"
                and len(node.args) == 2 and all(isinstance(a, ast.Constant) for a in node.args)
                and node.args[0].value == key):
            out.append((node.lineno, node.col_offset, node.args[1].value))
    return [v for _, _, v in sorted(out)]


def _chain(fn):
    """the if/elif chain on the mode letters of get/set/unset_states: list of (state_exists?, letter or '*')"""
    def uses_actions(test):
        return any(isinstance(n, ast.Name) and n.id.startswith("action_if") for n in ast.walk(test))

    def is_pure(test):  # the test reads nothing but state_exists (the catch-all branches)
        names = {n.id for n in ast.walk(test) if isinstance(n, ast.Name)}
        return names == {"state_exists"}

    start = None
    for node in ast.walk(fn):
        if isinstance(node, ast.If) and uses_actions(node.test):
            if start is None or node.lineno < start.lineno:
                start = node
    if start is None:
        raise ExtractError(f"no if/elif chain on the mode letters in {fn.name}")
    out, node = [], start
    while True:
        test = node.test
        if not (uses_actions(test) or is_pure(test)):
            raise ExtractError(f"unexpected test in the policy chain of {fn.name} line {node.lineno}")
        negated = any(isinstance(n, ast.UnaryOp) and isinstance(n.op, ast.Not) and isinstance(n.operand, ast.Name)
                      and n.operand.id == "state_exists" for n in ast.walk(test))
        lets = [n.value for n in ast.walk(test) if isinstance(n, ast.Constant) and isinstance(n.value, str)]
        if len(lets) > 1:
            raise ExtractError(f"more than one letter in a policy test of {fn.name} line {node.lineno}")
        out.append((not negated, lets[0] if lets else "*"))
        if len(node.orelse) == 1 and isinstance(node.orelse[0], ast.If):
            node = node.orelse[0]
        else:
            break
    return out


def _consts():
    """ROOTS, default modes, and friends from /repo's AST"""
    tree = ast.parse(open(os.path.join(vlib.REPO, SETUP_PY)).read())
    fns = {n.name: n for n in tree.body if isinstance(n, ast.FunctionDef)}
    need = ["check_states", "get_states", "set_states", "unset_states", "push_states", "pop_states",
            "_state_check_chain", "_parametric_object_iteration"]
    for n in need:
        if n not in fns:
            raise ExtractError(f"function {n} not found in {SETUP_PY}")
    roots = None
    for n in tree.body:
        if isinstance(n, ast.Assign) and len(n.targets) == 1 and isinstance(n.targets[0], ast.Name) \
                and n.targets[0].id == "ROOTS":
            roots = ast.literal_eval(n.value)
    if not (isinstance(roots, list) and roots and all(isinstance(r, str) for r in roots)):
        raise ExtractError("ROOTS literal not found")

    def one(fn, key, k=1):
        vals = _get_default(fns[fn], key)
        if len(vals) != k or not all(isinstance(v, str) for v in vals):
            raise ExtractError(f"default of {key} in {fn}: expected {k} literal(s), found {vals}")
        return vals

    c = {"roots": roots,
         "dCheckMode": one("check_states", "check_mode")[0],
         "dCheckOpts": one("check_states", "check_opts")[0],
         "dGetMode": one("get_states", "get_mode")[0],
         "dSetMode": one("set_states", "set_mode")[0],
         "dUnsetMode": one("unset_states", "unset_mode")[0],
         "dPushMode": one("push_states", "push_mode")[0]}
    c["dPopGetMode"], c["dPopUnsetMode"] = one("pop_states", "pop_mode", 2)
    # literals of check_states: pool_scope of forced roots, the read-only type, the type whose vm is destroyed
    scopes, cmp_types = set(), []
    for node in ast.walk(fns["check_states"]):
        if isinstance(node, ast.Assign) and isinstance(node.targets[0], ast.Subscript) \
                and isinstance(node.targets[0].slice, ast.Constant) and node.targets[0].slice.value == "pool_scope" \
                and isinstance(node.value, ast.Constant):
            scopes.add(node.value.value)
        if isinstance(node, ast.Compare) and isinstance(node.left, ast.Name) and node.left.id == "params_obj_type" \
                and isinstance(node.ops[0], ast.Eq) and isinstance(node.comparators[0], ast.Constant):
            cmp_types.append((node.lineno, node.comparators[0].value))
    if len(scopes) != 1:
        raise ExtractError(f"pool_scope of forced roots: {scopes}")
    cmp_types = [v for _, v in sorted(cmp_types)]
    if len(cmp_types) != 3 or cmp_types[1] != "nets":
        raise ExtractError(f"type literals compared in check_states: {cmp_types}")
    c["rootScope"] = scopes.pop()
    c["readonlyType"], _, c["destroyType"] = cmp_types
    for fn in ("get_states", "set_states", "unset_states"):
        ro = [n.comparators[0].value for n in ast.walk(fns[fn]) if isinstance(n, ast.Compare)
              and isinstance(n.left, ast.Name) and n.left.id == "params_obj_type" and isinstance(n.ops[0], ast.Eq)
              and isinstance(n.comparators[0], ast.Constant)]
        if sorted(ro) != sorted([c["readonlyType"], "nets"]):
            raise ExtractError(f"read-only type literal of {fn}: {ro}")
    c["chains"] = [(fn.split("_")[0], ex, let) for fn in ("get_states", "set_states", "unset_states")
                   for ex, let in _chain(fns[fn])]
    return c


def _lean_str(s):
    return json.dumps(s, ensure_ascii=True)


def extract(ctx):
    c = _consts()
    lines = [
        "/-",
        "GENERATED by harness/props/c12.py:extract from /repo/avocado_i2n/states/setup.py (AST) on every run.",
        "Do not edit by hand.  A literal that is no longer found makes the extraction fail closed.",
        "-/",
        "namespace I2N.Extracted.Policy",
        "",
        "def roots : List String := [" + ", ".join(_lean_str(r) for r in c["roots"]) + "]",
    ]
    for k in ("dCheckMode", "dGetMode", "dSetMode", "dUnsetMode", "dPushMode", "dPopGetMode", "dPopUnsetMode",
              "dCheckOpts", "rootScope", "readonlyType", "destroyType"):
        lines.append(f"def {k} : String := {_lean_str(c[k])}")
    lines.append('/-- the if/elif chains on the mode letters, as (function, state_exists?, letter or "*") -/')
    lines.append("def chains : List (String × Bool × String) := [" + ", ".join(
        f"({_lean_str(f)}, {'true' if ex else 'false'}, {_lean_str(l)})" for f, ex, l in c["chains"]) + "]")
    lines += ["", "end I2N.Extracted.Policy", ""]
    path = os.path.join(vlib.LEAN, "I2N", "Extracted", "Policy.lean")
    new = "\n".join(lines)
    old = open(path).read() if os.path.exists(path) else None
    if new != old:
        with open(path, "w") as fh:
            fh.write(new)
    ctx.extra["extracted"] = {k: v for k, v in c.items() if k != "chains"}
    _extract_gen(ctx)
    return c


def _extract_gen(ctx):
    """second tie: one iteration of check/get/set/unset/push/pop_states translated to Lean from the CURRENT source
    (raises pygen.Unsupported when a function left the translated subset; run.py records that as a proof problem — a
    broken proof obligation, not a crash)"""
    import pygen_pxpolicy
    if pygen_pxpolicy.extract_policy(ctx):
        ctx.notes.append("I2N/Extracted/GenPolicy.lean changed: the source of check/get/set/unset/push/pop_states or "
                         "_state_check_chain differs from the one the committed file was generated from (getOne/setOne/"
                         "unsetOne/checkOne/pushOne/popOne/stateCheckChain_matches_source are re-checked)")
    ctx.extra["regenerated"] = ("lean/I2N/Extracted/GenPolicy.lean (one iteration of check_states, get_states, "
                                "set_states, unset_states, push_states, pop_states, and _state_check_chain per value "
                                "of `do`, via harness/pygen_pxpolicy.py + harness/pygen.py; equality theorems "
                                "getOne/setOne/unsetOne/checkOne/pushOne/popOne/stateCheckChain_matches_source)")
    # third tie: ONE level of the recursive generator _parametric_object_iteration (harness/pygen_pxiter.py)
    import pygen_pxiter
    if pygen_pxiter.extract_iter(ctx):
        ctx.notes.append("I2N/Extracted/GenIter.lean changed: the source of _parametric_object_iteration differs from "
                         "the one the committed file was generated from (iterLevel_matches_source / "
                         "iterObjects_matches_source are re-checked)")
    ctx.extra["regenerated_iter"] = ("lean/I2N/Extracted/GenIter.lean (one level of the recursive generator "
                                     "_parametric_object_iteration with the recursive call as a function argument and "
                                     "the shared list `composites` as state, via harness/pygen_pxiter.py; equality "
                                     "theorems iterLevel_matches_source, iterObjects_matches_source; hypothesis "
                                     "topStable, witness iterObjects_unstable_witness)")


def _load_consts():
    global ROOTS, DEFAULTS
    if ROOTS is None:
        c, _fresh = vlib.consts_with_fallback(PROP, _consts)
        ROOTS = list(c["roots"])
        DEFAULTS = c
    return DEFAULTS


# ---------------------------------------------------------------------------------------------------------------
# the implementation side: real code + in-memory backend

class World:
    def __init__(self):
        self.store = {}
        self.calls = []

    def obj(self, key):
        return self.store.setdefault(key, {"root": False, "names": set()})

    def load(self, store):
        self.store = {tuple(k): {"root": bool(r), "names": set(n)} for k, r, n in store}

    def snapshot(self):
        return {k: (o["root"], frozenset(o["names"])) for k, o in self.store.items() if o["root"] or o["names"]}


W = World()
_IMPL = None
_scr = None


def _key(params):
    typ = params["object_type"].split("/")[-1]
    return (typ, params.get("nets", ""), "" if typ == "nets" else params.get("vms", ""),
            params.get("images", "") if typ == "images" else "")


class _Mem:
    """in-memory backend: a set of names and a root flag per object"""
    bname = "?"

    @classmethod
    def _log(cls, kind, params, arg=""):
        W.calls.append((kind, cls.bname, _key(params), arg))

    @classmethod
    def show(cls, params, object=None):
        cls._log("show", params)
        return sorted(W.obj(_key(params))["names"])

    @classmethod
    def get(cls, params, object=None):
        cls._log("get", params, params["get_state"])

    @classmethod
    def set(cls, params, object=None):
        cls._log("set", params, params["set_state"])
        W.obj(_key(params))["names"].add(params["set_state"])

    @classmethod
    def unset(cls, params, object=None):
        cls._log("unset", params, params["unset_state"])
        W.obj(_key(params))["names"].discard(params["unset_state"])

    @classmethod
    def check_root(cls, params, object=None):
        cls._log("check_root", params)
        return W.obj(_key(params))["root"]

    @classmethod
    def get_root(cls, params, object=None):
        cls._log("get_root", params, params.get("pool_scope", "-"))

    @classmethod
    def set_root(cls, params, object=None):
        cls._log("set_root", params, params.get("pool_scope", "-"))
        W.obj(_key(params))["root"] = True

    @classmethod
    def unset_root(cls, params, object=None):
        cls._log("unset_root", params, params.get("pool_scope", "-"))
        W.obj(_key(params))["root"] = False


class _Vm:
    def __init__(self, name):
        self.name = name

    def destroy(self, gracefully=True):
        W.calls.append(("destroy", "", ("vms", "", self.name, ""), "true" if gracefully else "false"))


class _Env:
    def get_vm(self, name):
        return _Vm(name)


BACKEND_NAMES = {"mem": False, "mem2": False, "memsrc": True}     # name -> subclass of SourcedStateBackend


def _impl(module_path=None):
    """import the real modules (or a mutated copy of setup.py for the mutation sanity runs), register the backends"""
    global _IMPL, _scr
    # mutation sanity (design.d/C12.md): run the harness against a mutated copy of setup.py, /repo is not edited
    module_path = module_path or os.environ.get("C12_MUTANT") or None
    if _scr is None:
        _scr = tempfile.mkdtemp(prefix="i2n-verif-c12-")
    os.chdir(_scr)
    if _IMPL is not None:
        return _IMPL
    from avocado.core import exceptions
    from virttest.utils_params import Params, ParamNotFound
    from avocado_i2n.states import pool
    if module_path is None:
        from avocado_i2n.states import setup as ss
    else:
        import importlib.util
        spec = importlib.util.spec_from_file_location("avocado_i2n.states.setup_mutant", module_path,
                                                      submodule_search_locations=None)
        ss = importlib.util.module_from_spec(spec)
        ss.__package__ = "avocado_i2n.states"
        spec.loader.exec_module(ss)
    MemA = type("MemA", (_Mem, ss.StateBackend), {"bname": "mem"})
    MemB = type("MemB", (_Mem, ss.StateBackend), {"bname": "mem2"})
    MemS = type("MemS", (_Mem, pool.SourcedStateBackend), {"bname": "memsrc"})
    backends = {"mem": MemA, "mem2": MemB, "memsrc": MemS}
    impl = {"ss": ss, "Params": Params, "exc": exceptions, "ParamNotFound": ParamNotFound, "backends": backends,
            "saved": dict(ss.BACKENDS)}
    _IMPL = impl
    return impl


def cleanup_impl():
    global _scr
    if _scr and os.path.isdir(_scr):
        import shutil
        os.chdir("/")
        shutil.rmtree(_scr, ignore_errors=True)
        _scr = None


def classify(impl, e):
    exc = impl["exc"]
    if isinstance(e, exc.TestAbortError):
        return "abort"
    if isinstance(e, exc.TestError):
        return "invalidPolicy"
    if isinstance(e, impl["ParamNotFound"]):
        return "paramNotFound"
    if isinstance(e, ValueError):
        return "valueError"
    if isinstance(e, KeyError):
        return "keyError"
    if isinstance(e, IndexError):
        return "indexError"
    return "other:" + type(e).__name__


def key_str(k):
    return ",".join(k)


def calls_str(calls):
    return ";".join(f"{kind}:{b}:{key_str(k)}:{arg}" for kind, b, k, arg in calls)


def store_str(snap):
    lines = [f"{key_str(k)}:{1 if r else 0}:{' '.join(sorted(n))}" for k, (r, n) in snap.items()]
    return ";".join(sorted(lines))


def impl_op(impl, op, params):
    """run one public function of the real module; returns (result string, calls, store snapshot)"""
    ss = impl["ss"]
    fn = getattr(ss, op + "_states")
    W.calls = []
    p = impl["Params"](params)
    saved = dict(ss.BACKENDS)
    ss.BACKENDS.clear()
    ss.BACKENDS.update(impl["backends"])
    try:
        r = fn(p, _Env())
        res = "ok:false" if (op == "check" and not r) else "ok:true"
    except Exception as e:          # noqa: the class of the exception is the observable
        res = "err:" + classify(impl, e)
    finally:
        ss.BACKENDS.clear()
        ss.BACKENDS.update(saved)
    return res, list(W.calls), W.snapshot()


# ---------------------------------------------------------------------------------------------------------------
# the spec oracle: README table + set-of-names store (independent of the Lean model)

# README.md, "get_mode / set_mode / unset_mode" table: letter -> action, per (operation, setup present?)
DOC = {
    ("get", True): {"a": "abort", "r": "reuse", "i": "ignore"},
    ("get", False): {"a": "abort", "i": "ignore"},
    ("set", True): {"a": "abort", "r": "reuse", "f": "force"},
    ("set", False): {"a": "abort", "f": "force"},
    ("unset", True): {"r": "reuse", "f": "force"},
    ("unset", False): {"a": "abort", "i": "ignore"},
}
FULL_TYPES = ["nets", "nets/vms", "nets/vms/images"]
F7 = "abort-creates-root-via-default-check-mode"
F_DELEGATE = "push-pop-delegate-reads-object-scoped-keys"
F9S = "push-pop-ignore-skip-types"
F9R = "push-pop-touch-readonly-image"


class SpecRaise(Exception):
    def __init__(self, kind, calls=None, obj=None):
        self.kind = kind
        self.calls = calls or []
        self.obj = obj


def spec_objects(impl, params):
    """the stateful objects addressed by the parameters, components before their composite, with the parameters
    of each (resolved with virttest's own object_params)"""
    P = impl["Params"](params)
    out = []
    for net in P.objects("nets"):
        pn = P.object_params(net)
        pn["nets"] = net
        for vm in pn.objects("vms"):
            pv = pn.object_params(vm)
            pv["vms"] = vm
            for im in pv.objects("images"):
                pi = pv.object_params(im)
                pi["images"] = im
                out.append((("images", net, vm, im), "nets/vms/images", pi.object_params("images")))
            out.append((("vms", net, vm, ""), "nets/vms", pv.object_params("vms")))
        out.append((("nets", net, "", ""), "nets", pn.object_params("nets")))
    return out


def spec_root_phase(o, cmode, destroy, key, b, vmname, calls, scope):
    """root prerequisite of every state check (code comments of check_states; check_mode is undocumented).
    Returns False when the check answers "does not exist" because the root is missing."""
    c1, c2 = cmode[0], cmode[1]
    calls.append(("check_root", b, key, ""))
    if not o["root"]:
        if c2 == "f":
            calls.append(("set_root", b, key, "own"))
            o["root"] = True
        elif c2 == "r":
            return False
        else:
            raise SpecRaise("invalidPolicy")
    elif c1 == "f":
        if destroy:
            calls.append(("destroy", "", ("vms", "", vmname, ""), "true"))
        else:
            calls.append(("unset_root", b, key, "own"))
        calls.append(("set_root", b, key, "own"))
    else:
        calls.append(("get_root", b, key, scope))
    return True


def spec_exists(o, state, key, b, calls, root_ok):
    if not root_ok:
        return False
    if state in ROOTS:
        return True
    calls.append(("show", b, key, ""))
    return state in o["names"]


def spec_do(do, o, state, mode, cmode, key, b, sourced, vmname, scope):
    """one object, one of get/set/unset: returns (action, new object, calls) or raises SpecRaise carrying the
    calls made so far and the object as the root prerequisite left it (for the classification of F7)"""
    o2 = {"root": o["root"], "names": set(o["names"])}
    calls = []
    try:
        return _spec_do(do, o2, calls, state, mode, cmode, key, b, sourced, vmname, scope)
    except SpecRaise as e:
        raise SpecRaise(e.kind, calls, o2)


def _spec_do(do, o2, calls, state, mode, cmode, key, b, sourced, vmname, scope):
    # nested check: the type is the last component there, so the vm is never destroyed
    root_ok = spec_root_phase(o2, cmode, False, key, b, vmname, calls, scope)
    present = spec_exists(o2, state, key, b, calls, root_ok)
    letter = mode[0] if present else mode[1]
    action = DOC[(do, present)].get(letter, "invalid")
    isroot = state in ROOTS
    if action == "abort":
        raise SpecRaise("abort")
    if action == "invalid":
        raise SpecRaise("invalidPolicy")
    if action == "ignore":
        return action, o2, calls
    if do == "get":       # reuse
        calls.append(("get_root", b, key, scope) if isroot else ("get", b, key, state))
    elif do == "set" and action == "force":
        if present:
            if isroot:
                calls.append(("unset_root", b, key, scope))
                o2["root"] = False
            elif not sourced:
                calls.append(("unset", b, key, state))
                o2["names"].discard(state)
        elif not isroot:
            calls.append(("check_root", b, key, ""))
            if not o2["root"]:
                raise SpecRaise("invalidPolicy")     # "Cannot force set state without a root state"
        if isroot:
            calls.append(("set_root", b, key, scope))
            o2["root"] = True
        else:
            calls.append(("set", b, key, state))
            o2["names"].add(state)
    elif do == "unset" and action == "force":
        if isroot:
            calls.append(("unset_root", b, key, scope))
            o2["root"] = False
        else:
            calls.append(("unset", b, key, state))
            o2["names"].discard(state)
    return action, o2, calls


def spec_op(impl, op, params, store, strict=True, guards=True):
    """the whole call on a set-of-names store {key: {"root", "names"}} (modified in place up to a raise).
    strict: a raise leaves the object it happens on unaltered (the property).  strict=False keeps the root a
    forcing check_mode created before the raise (finding F7).  guards=False: push/pop do not look at skip_types
    and read-only images (finding F9).  Returns (result, calls, info)."""
    d = _load_consts()
    calls = []
    info = {"actions": [], "bypassed": set()}

    def obj(key):
        return store.setdefault(key, {"root": False, "names": set()})

    for key, ftype, rp in spec_objects(impl, params):
        skipped = set()
        if ftype in rp.objects("skip_types"):
            skipped.add(F9S)
        if ftype == "nets/vms/images" and rp.get("image_readonly", "no") == "yes":
            skipped.add(F9R)
        if skipped and (guards or op not in ("push", "pop")):
            continue
        if skipped and ftype.split("/")[-1] in rp.objects("skip_types"):
            continue        # F9 variant: the nested set/get/unset sees the last type component only ("nets")
        b = rp["states"]
        sourced = BACKEND_NAMES[b]
        cmode = rp.get("check_mode", d["dCheckMode"])
        scope = rp.get("pool_scope", "-")
        vmname = rp.get("vms", "")
        o = obj(key)
        steps = []
        if op == "check":
            state = rp.get("check_state")
            if not state:
                continue
            o2 = {"root": o["root"], "names": set(o["names"])}
            c2 = []
            try:
                root_ok = spec_root_phase(o2, cmode, ftype == d["destroyType"], key, b, vmname, c2, scope)
                ex = spec_exists(o2, state, key, b, c2, root_ok)
            except SpecRaise as e:
                return "err:" + e.kind, calls + c2, info
            calls += c2
            store[key] = o2
            if not ex:
                return "ok:false", calls, info
            continue
        elif op in ("get", "set", "unset"):
            state = rp.get(op + "_state")
            if state:
                steps = [(op, op, rp.get(op + "_mode", d["d" + op.title() + "Mode"]))]
        elif op == "push":
            state = rp.get("push_state")
            if state and state not in ROOTS:
                steps = [("push", "set", rp.get("push_mode", d["dPushMode"]))]
        elif op == "pop":
            state = rp.get("pop_state")
            if state and state not in ROOTS:
                steps = [("pop.get", "get", rp.get("pop_mode", d["dPopGetMode"])),
                         ("pop.unset", "unset", rp.get("pop_mode", d["dPopUnsetMode"]))]
        if steps and skipped:
            info["bypassed"] |= skipped
        for label, do, mode in steps:
            try:
                action, o2, c2 = spec_do(do, store[key], state, mode, cmode, key, b, sourced, vmname, scope)
            except SpecRaise as e:
                if not strict:
                    store[key] = e.obj
                return "err:" + e.kind, calls + e.calls, info
            info["actions"].append((label, action))
            calls += c2
            store[key] = o2
    return "ok:true", calls, info


def snap_of(store):
    return {k: (o["root"], frozenset(o["names"])) for k, o in store.items() if o["root"] or o["names"]}


def store_of(snap):
    return {k: {"root": r, "names": set(n)} for k, (r, n) in snap.items()}


def judged(case_op):
    """is this call inside the documented space the oracle speaks about?"""
    return case_op.get("judged", False)


MAX_PER_KEY = 3


def _violate(ctx, key, what, rep):
    ctx.count("violation." + key)
    if sum(1 for v in ctx.violations if v["key"] == key) < MAX_PER_KEY:
        ctx.violate(key, what, rep)


def judge(ctx, impl, case, i, op, params, before, res, calls, after):
    """compare the implementation's own output of one judged call with the spec oracle"""
    rep = {"kind": "seq", "backends": case["backends"], "store": case["store"], "ops": case["ops"][:i + 1]}

    def variant(strict, guards):
        store = store_of(before)
        want_res, want_calls, info = spec_op(impl, op, params, store, strict, guards)
        return want_res, want_calls, snap_of(store), info

    def matches(v):
        return res == v[0] and after == v[2] and list(calls) == list(v[1])

    want = variant(True, True)
    for a in want[3]["actions"]:
        ctx.count(f"doc.{a[0]}.{a[1]}")
    ctx.count("oracle." + want[0])
    if matches(want):
        return
    # the known deviations, each recognised only by an exact match of result, store and calls of its variant
    lenient = variant(False, True)
    if res == lenient[0] and after == lenient[2] and res.startswith("err:"):
        dflt = "default " if not any(k.startswith("check_mode") for k in params) else ""
        _violate(ctx, F7, f"call #{i} {op}_states raised {res[4:]} after the nested check_states ({dflt}check_mode with "
                 f"second letter f) had created the missing root state: before={store_str(before)} "
                 f"after={store_str(after)}; an abort or invalid policy must not alter any state", rep)
        return
    if op in ("push", "pop"):
        for strict in (True, False):
            v = variant(strict, False)
            if matches(v) or (not strict and res == v[0] and after == v[2]):
                for key in sorted(v[3]["bypassed"]):
                    _violate(ctx, key, f"call #{i} {op}_states processed an object whose type is in skip_types / a "
                             f"read-only image (get/set/unset/check skip it): before={store_str(before)} "
                             f"after={store_str(after)} predicted={store_str(want[2])}", rep)
                if not strict:
                    _violate(ctx, F7, f"call #{i} {op}_states raised {res[4:]} after the nested check_states had "
                             f"created the missing root state", rep)
                return
    if op in ("push", "pop"):
        stems = ("set_state_", "set_mode_") if op == "push" else ("get_state_", "get_mode_", "unset_state_", "unset_mode_")
        scoped = sorted(k for k in params if k.startswith(stems))
        if scoped:
            _violate(ctx, F_DELEGATE, f"call #{i} {op}_states with {scoped} in the parameters: {op} delegates to "
                     f"{'set' if op == 'push' else 'get and unset'}_states by writing the GENERIC {stems[0][:-1]} key, an "
                     f"object-scoped key of the delegate operation overrides it: result {res} (table: {want[0]}), "
                     f"before={store_str(before)} after={store_str(after)} predicted={store_str(want[2])}", rep)
            return
    if res != want[0]:
        _violate(ctx, f"outcome-differs-from-doc-table:{op}",
                 f"call #{i} {op}_states returned {res}, the documented policy table gives {want[0]}", rep)
    elif after != want[2]:
        diff = {key_str(k): (before.get(k), after.get(k), want[2].get(k)) for k in set(after) | set(want[2])
                if after.get(k) != want[2].get(k)}
        kind = "raise-alters-store" if res.startswith("err:") else "store-differs-from-set-model"
        _violate(ctx, f"{kind}:{op}", f"call #{i} {op}_states -> {res}: (before, after, predicted) per differing "
                 f"object: {diff}", rep)
    else:
        _violate(ctx, f"documented-action-not-performed:{op}",
                 f"call #{i} {op}_states performed backend calls [{calls_str(calls)}]; the documented actions are "
                 f"[{calls_str(want[1])}]", rep)


# ---------------------------------------------------------------------------------------------------------------
# running cases:  case = {"backends": [...], "store": [[key, root, names]...], "ops": [{"op", "params", "judged"}]}

def op_line(op, params):
    return "\t".join(["op", op] + [f"{k}={v}" for k, v in params.items()])


def case_lines(case):
    lines = ["reset", "\t".join(["backends"] + [f"{n}:{1 if BACKEND_NAMES[n] else 0}" for n in case["backends"]])]
    for k, r, names in case["store"]:
        lines.append("\t".join(["obj", key_str(k), "1" if r else "0", " ".join(names)]))
    for o in case["ops"]:
        lines.append(op_line(o["op"], o["params"]))
    return lines


def run_cases(ctx, cases, impl=None, oracle=True, model=True):
    impl = impl or _impl()
    _load_consts()
    lines, expect = [], []
    for ci, case in enumerate(cases):
        cl = case_lines(case)
        nset = len(cl) - len(case["ops"])
        lines += cl
        expect += [(ci, -1, "ok")] * nset
        W.load(case["store"])
        impl["backends_active"] = case["backends"]
        saved_b = impl["backends"]
        impl["backends"] = {n: saved_b[n] for n in case["backends"]}
        try:
            for i, o in enumerate(case["ops"]):
                before = W.snapshot()
                res, calls, after = impl_op(impl, o["op"], o["params"])
                expect.append((ci, i, f"{res} | {calls_str(calls)} | {store_str(after)}"))
                ctx.count("op." + o["op"])
                ctx.count("impl." + res)
                if oracle and judged(o):
                    judge(ctx, impl, case, i, o["op"], o["params"], before, res, calls, after)
        finally:
            impl["backends"] = saved_b
        ctx.case({"kind": case.get("kind", "seq"), "n_ops": len(case["ops"]), "n_objects": len(case["store"]),
                  "store": vlib.hashlib.sha1(json.dumps(case["store"], sort_keys=True).encode()).hexdigest()[:12],
                  "ops": vlib.hashlib.sha1(json.dumps(case["ops"], sort_keys=True).encode()).hexdigest()[:12],
                  "first": {"op": case["ops"][0]["op"], "params": case["ops"][0]["params"]} if case["ops"] else None},
                 nontrivial=True, sample_every=2000)
    if not model:
        return
    out = vlib.driver("drv_policy", lines)
    for (ci, i, want), got in zip(expect, out):
        if want != got:
            case = cases[ci]
            ctx.disagree(f"{case['ops'][i]['op'] if i >= 0 else 'setup'}",
                         {"kind": "seq", "backends": case["backends"], "store": case["store"],
                          "ops": case["ops"][:i + 1]}, got, want)
            break


# ---------------------------------------------------------------------------------------------------------------
# generators

LETTERS = ["a", "r", "i", "f", "x"]
STATES = ["a", "b", "launch"]
TYPES = {"nets": "nets", "vms": "nets/vms", "images": "nets/vms/images"}


def base_params(vms, images, nets=("net1",), backends=("mem", "mem", "mem")):
    """vms: list of names; images: {vm: [images]}"""
    p = {"nets": " ".join(nets), "vms": " ".join(vms), "states_chain": "nets vms images",
         "states_nets": backends[0], "states_vms": backends[1], "states_images": backends[2]}
    for vm in vms:
        p[f"images_{vm}"] = " ".join(images[vm])
    return p


def table_rows():
    """the whole documented table (and every other letter) on one net / one vm / one image"""
    rows = []
    for typ in ("nets", "vms", "images"):
        for op in ("check", "get", "set", "unset"):
            for m in itertools.product(LETTERS, repeat=2):
                mode = "".join(m)
                for present in (True, False):
                    for root in (True, False):
                        for rootkw in (False, True):
                            cmodes = [None] if op == "check" else [None, "rr", "ff", "xr", "ri"]
                            for cmode in cmodes:
                                for b in (("mem", "memsrc") if op == "set" else ("mem",)):
                                    rows.append((typ, op, mode, present, root, rootkw, cmode, b))
    return rows


def table_case(row, idx=0):
    typ, op, mode, present, root, rootkw, cmode, b = row
    state = ROOTS[idx % len(ROOTS)] if rootkw else "launch"
    p = base_params(["vm1"], {"vm1": ["image1"]}, backends=(b, b, b))
    p[f"{op}_state_{typ}"] = state
    p[f"{op}_mode"] = mode
    if cmode is not None:
        p["check_mode"] = cmode
    key = {"nets": ("nets", "net1", "", ""), "vms": ("vms", "net1", "vm1", ""),
           "images": ("images", "net1", "vm1", "image1")}[typ]
    store = [[list(key), root, ["launch", "other"] if present else ["other"]]]
    # the other two objects carry states that must not be touched
    for k in (("nets", "net1", "", ""), ("vms", "net1", "vm1", ""), ("images", "net1", "vm1", "image1")):
        if k != key:
            store.append([list(k), idx % 2 == 0, ["launch"]])
    return {"kind": "table", "backends": ["mem", "mem2", "memsrc"], "store": store,
            "ops": [{"op": op, "params": p, "judged": True}]}


def gen_universe(rng):
    nets = ["net1"] if rng.random() < 0.8 else ["net1", "net2"]
    vms = rng.sample(["vm1", "vm2", "vm3"], rng.randint(1, 3))
    vms.sort()
    images = {vm: (["image1"] if rng.random() < 0.5 else ["image1", "image2"]) for vm in vms}
    return nets, vms, images


def gen_store(rng, nets, vms, images, extra=True):
    store = []
    allvms = ["vm1", "vm2", "vm3"] if extra else vms
    for net in nets + (["net9"] if extra else []):
        store.append([["nets", net, "", ""], rng.random() < 0.6, rng.sample(STATES, rng.randint(0, 2))])
        for vm in allvms:
            store.append([["vms", net, vm, ""], rng.random() < 0.6, rng.sample(STATES, rng.randint(0, 2))])
            for im in ["image1", "image2"]:
                store.append([["images", net, vm, im], rng.random() < 0.6, rng.sample(STATES, rng.randint(0, 3))])
    return store


def gen_mode(rng, op, valid_bias=0.8):
    if rng.random() < valid_bias:
        do = {"push": "set", "pop": "get", "check": None}.get(op, op)
        if do is None:
            return rng.choice(["rf", "rr", "ff", "fr", "rf", "rr"])
        return rng.choice(list(DOC[(do, True)])) + rng.choice(list(DOC[(do, False)]))
    return rng.choice(LETTERS) + rng.choice(LETTERS)


def scoped_keys(rng, stem, nets, vms, images):
    """a few ways of addressing objects with a parameter `stem`: returns list of key names"""
    forms = []
    r = rng.random()
    if r < 0.25:
        forms.append(stem)
    elif r < 0.55:
        forms.append(f"{stem}_{rng.choice(['nets', 'vms', 'images'])}")
    elif r < 0.7:
        forms.append(f"{stem}_{rng.choice(vms)}")
    elif r < 0.85:
        forms.append(f"{stem}_{rng.choice(['vms', 'images'])}_{rng.choice(vms)}")
    elif r < 0.93:
        vm = rng.choice(vms)
        forms.append(f"{stem}_{rng.choice(images[vm])}_{vm}")
    else:
        forms.append(f"{stem}_{rng.choice(['image1', 'image2'])}")
    return forms


def gen_op(rng, nets, vms, images, malformed=False):
    op = rng.choice(["check", "get", "set", "unset", "push", "pop", "get", "set", "unset"])
    names = list(BACKEND_NAMES)
    bk = tuple(rng.choice(names) for _ in range(3)) if rng.random() < 0.5 else (rng.choice(names),) * 3
    # address a sub-universe: objects outside must stay untouched
    use_vms = sorted(rng.sample(vms, rng.randint(1, len(vms))))
    p = base_params(use_vms, images, nets=nets if rng.random() < 0.8 else nets[:1], backends=bk)
    for _ in range(rng.randint(1, 2)):
        for k in scoped_keys(rng, f"{op}_state", nets, use_vms, images):
            p[k] = rng.choice(STATES + STATES + ROOTS[:1] + [rng.choice(ROOTS)]) if rng.random() < 0.9 else ""
    if rng.random() < 0.7:
        for k in scoped_keys(rng, f"{op}_mode", nets, use_vms, images):
            p[k] = gen_mode(rng, op, 0.85)
    if rng.random() < 0.45:
        # full test-node parameters: the states and modes of the OTHER operations are defined as well (a setup node
        # gets one state, sets another and cleans up a third) and must not influence this call
        for other in ("get", "set", "unset"):
            if other == op or rng.random() < 0.3:
                continue
            # push/pop are implemented through set / get+unset and overwrite the GENERIC keys of those operations: only
            # the generic form is "foreign" there (the object-scoped forms are the known finding F_DELEGATE)
            delegate = (other, op) in (("set", "push"), ("get", "pop"), ("unset", "pop"))
            for k in ([f"{other}_state"] if delegate else scoped_keys(rng, f"{other}_state", nets, use_vms, images)):
                p.setdefault(k, rng.choice(STATES + STATES + ROOTS[:1]))
            if rng.random() < 0.6:
                for k in ([f"{other}_mode"] if delegate else scoped_keys(rng, f"{other}_mode", nets, use_vms, images)):
                    p.setdefault(k, gen_mode(rng, other, 0.9))
    if op != "check" and rng.random() < 0.5:
        for k in scoped_keys(rng, "check_mode", nets, use_vms, images):
            p[k] = gen_mode(rng, "check", 0.9)
    if rng.random() < 0.4:
        p["skip_types"] = " ".join(rng.sample(FULL_TYPES, rng.randint(1, 2)))
    if rng.random() < 0.25:
        # per-object customisation of the skipped types (skip_types_<vm>, skip_types_<image>_<vm>, ...): resolved by the
        # per-object parameters only, may differ from (or re-include what) the suite-wide value (excludes)
        for k in scoped_keys(rng, "skip_types", nets, use_vms, images):
            p[k] = " ".join(rng.sample(FULL_TYPES, rng.randint(0, 2)))
    if rng.random() < 0.3:
        for k in scoped_keys(rng, "image_readonly", nets, use_vms, images):
            p[k] = rng.choice(["yes", "yes", "no"])
    if rng.random() < 0.2:
        p["pool_scope"] = rng.choice(["own", "own shared", "shared"])
    if rng.random() < 0.2:
        p[f"{op}_location"] = "/loc"
    is_judged = True
    if malformed:
        is_judged = False
        r = rng.random()
        if r < 0.2:
            p["skip_types"] = " ".join(rng.sample(FULL_TYPES + ["images", "vms"], rng.randint(1, 3)))
        elif r < 0.4:
            p[f"{op}_mode"] = rng.choice(["", "r", "f", "raf", "a", "ffi"])
        elif r < 0.5:
            p["check_mode"] = rng.choice(["", "r", "rfx"])
        elif r < 0.6:
            p[rng.choice(["states_images", "states_vms", "states_nets"])] = "nosuch"
        elif r < 0.65:
            del p[rng.choice(["states_images", "states_vms", "states_nets"])]
        elif r < 0.75:
            p[f"check_state_{rng.choice(['images', 'vms', rng.choice(use_vms), 'image1'])}"] = rng.choice(STATES)
        elif r < 0.8:
            p["states_chain"] = rng.choice(["", "vms images", "nets vms", "images", "nets vms images nets", "vms"])
        elif r < 0.85:
            p["image_readonly"] = rng.choice(["maybe", "on", "off", "true"])
        elif r < 0.9:
            p["check_opts"] = rng.choice(["soft_boot=no", "soft_boot=yes x=y", "a=b"])
        elif r < 0.95:
            p[f"vms_{rng.choice(nets)}"] = " ".join(rng.sample(["vm1", "vm2", "vm3"], 2) + ["vm1"])
        else:
            p[f"{op}_state_{rng.choice(use_vms)}_images"] = rng.choice(STATES)
    return {"op": op, "params": p, "judged": is_judged}


def gen_seq(rng, max_ops, malformed=False):
    nets, vms, images = gen_universe(rng)
    ops = [gen_op(rng, nets, vms, images, malformed and rng.random() < 0.6) for _ in range(rng.randint(1, max_ops))]
    return {"kind": "malformed" if malformed else "seq", "backends": ["mem", "mem2", "memsrc"],
            "store": gen_store(rng, nets, vms, images), "ops": ops}


# ---------------------------------------------------------------------------------------------------------------

def correspondence(ctx):
    rng = ctx.rng
    thorough = ctx.tier == "thorough" or ctx.extra.get("drift")
    _load_consts()
    ctx.rule = ("table cases: one net/vm/image, one call of check/get/set/unset_states for EVERY pair of mode letters over "
                "{a,r,i,f,x} x state present/absent x root present/absent x root keyword/ordinary state x object type "
                "nets/vms/images x check_mode {default,rr,ff,xr,ri} (x plain/sourced backend for set), exhaustive; "
                "sequence cases: 1-2 nets, 1-3 vms with 1-2 images, a random initial store (also of objects the "
                "parameters do not address), then a random sequence of check/get/set/unset/push/pop calls with "
                "randomly scoped parameters (generic, _type, _object, _type_object, _image_vm), skip_types, "
                "read-only images, three registered backends; a separate malformed stream (short/long modes, unknown "
                "backend, inner type names in skip_types, nested check_state overrides, odd states_chain) is compared "
                "with the model only; each call is compared on result, ordered backend calls and resulting store; "
                "non-trivial = every case (each executes at least one real call); distinct by content hash")
    try:
        corpus = os.path.join(vlib.VERIF, "corpus", "C12")
        if os.path.isdir(corpus):
            for f in sorted(os.listdir(corpus)):
                replay(ctx, {"case": json.load(open(os.path.join(corpus, f)))})
        rows = table_rows()
        ctx.extra["exhaustive"] = {"table_rows": len(rows)}
        cases = [table_case(r, i) for i, r in enumerate(rows)]
        for i in range(0, len(cases), 3000):
            run_cases(ctx, cases[i:i + 3000])
        n_seq, n_mal, max_ops = (20000, 5000, 20) if thorough else (4000, 1200, 10)
        seqs = [gen_seq(rng, max_ops) for _ in range(n_seq)] + [gen_seq(rng, max_ops, True) for _ in range(n_mal)]
        for i in range(0, len(seqs), 500):
            run_cases(ctx, seqs[i:i + 500])
    finally:
        cleanup_impl()


def search(ctx, reason):
    """a proof or the correspondence broke: hunt on the implementation with the spec oracle only"""
    rng = ctx.rng
    _load_consts()
    try:
        cases = [table_case(r, i) for i, r in enumerate(table_rows())]
        run_cases(ctx, cases, model=False)
        if not ctx.violations:
            for _ in range(20):
                run_cases(ctx, [gen_seq(rng, 6) for _ in range(500)], model=False)
                if ctx.violations:
                    break
        if ctx.violations:
            v = ctx.violations[0]
            c = v["case"]

            def fails(ops):
                sub = vlib.Ctx(ctx.prop, ctx.tier, ctx.seed)
                try:
                    run_cases(sub, [dict(c, ops=ops)], model=False)
                except Exception:
                    return False
                return any(x["key"] == v["key"] for x in sub.violations)
            if len(c["ops"]) > 1:
                c["ops"] = vlib.shrink_list(c["ops"][:-1], lambda ops: fails(ops + [c["ops"][-1]])) + [c["ops"][-1]] \
                    if fails(c["ops"]) else c["ops"]
    finally:
        cleanup_impl()


def replay(ctx, payload):
    c = payload["case"]
    _load_consts()
    case = {"kind": "replay", "backends": c.get("backends", ["mem", "mem2", "memsrc"]),
            "store": [[list(k), r, list(n)] for k, r, n in c["store"]],
            "ops": [{"op": o["op"], "params": dict(o["params"]), "judged": o.get("judged", True)} for o in c["ops"]]}
    try:
        run_cases(ctx, [case])
    finally:
        if payload.get("kind"):
            cleanup_impl()
