"""C13 — pool access respects the enabled scopes and prefers the closest source (engine E3 `pool`).

Seam (the one `selftests/isolation/test_state_setup.py::StatesPoolTest` uses): the real
`SourcedStateBackend` / `RootSourcedStateBackend` methods run with a stub `transport` object and stub
`_show/_get/_set/_unset` (`_check_root/_get_root/_set_root/_unset_root`) class attributes that record every
*contact* — which call went to which source, in order.  The Lean model (`I2N/Model/Pool.lean`, run through
`drv_pool`) returns the same ordered contact list; independently a spec oracle written against the words of the
property judges the implementation's own contact list.
"""
import ast
import itertools
import os
import re
import shutil
import tempfile

import vlib

PROP = "C13"
ENGINE = "pool"
TARGETS = ["I2N.Props.C13", "drv_pool"]
PROPS_FILE = "I2N/Props/C13.lean"
POOL_PY = "avocado_i2n/states/pool.py"
ANCHORS = {POOL_PY: [
    "SourcedStateBackend.get_sources", "SourcedStateBackend.get_source_scope", "SourcedStateBackend.show",
    "SourcedStateBackend.get", "SourcedStateBackend.set", "SourcedStateBackend.unset",
    "RootSourcedStateBackend.check_root", "RootSourcedStateBackend.get_root", "RootSourcedStateBackend.set_root",
    "RootSourcedStateBackend.unset_root", "QCOW2ImageTransfer.compare_chain", "TransferOps.compare"],
    "avocado_i2n/states/qcow2.py": ["QCOW2ExtBackend"],
    "avocado_i2n/states/ramfile.py": ["RamfileBackend"]}
TRUSTED = [
    "modelled, not verified: virttest Params.objects (duplicates removed, first occurrence kept), Params.get_list "
    "(whitespace split) and Params.object_params (`key_<net>` overrides `key`) — the real Params class is used on the "
    "implementation side, so a change there shows as a disagreement",
    "the cache validity outcome (QCOW2ImageTransfer.compare_chain / TransferOps.compare) is an input of the model: "
    "that equal checksums mean equal content is C14's assumption",
    "pool_scope strings are generated canonically (names joined by single spaces); RootSourcedStateBackend compares the "
    "raw string with == and a substring test, which the model reproduces on the token list",
    "reads of the local cache (`_show` inside get/set, `_check_root`) are not counted as contacting a scope: the "
    "property itself requires them (download only when the local copy differs; refuse an update without local state)",
    "RootSourcedStateBackend.get_root without `own` in the scope requests the download unconditionally; skipping an "
    "identical copy is then left to TransferOps.download (C14 skip_when_equal)",
    "harness/pygen.py (Python AST -> Lean, fails closed) regenerates I2N/Extracted/GenPool.lean from the source of "
    "SourcedStateBackend.get_source_scope on every run; sourceScope_matches_source proves the hand written sourceScope "
    "equal to it for all inputs.  Trusted: the translator; the atom table (own_params['nets_gateway'] = Env.gateway, "
    "source_params['nets_gateway'] = Env.srcGateway, ... own_params['shared_pool'].lstrip(':') = lstripColon sharedPool; "
    "the reads are total, i.e. the keys exist)",
    "GenPool.lean also holds genProximity, regenerated from the nested function `proximity` of get_sources (the sort "
    "key); proximity_matches_source proves the hand written proximity equal to it for all inputs.  Trusted in addition: "
    "`source.split(':')` yields exactly (net, path) — Src is the parsed pair; source_params = "
    "params.object_params(net) if net else params is bound to Env.srcGateway / Env.srcHost as for get_source_scope",
]

SCOPES = ["own", "swarm", "cluster", "shared"]

# --------------------------------------------------------------------------------------------------------------
# extraction of the literal tables of /repo into lean/I2N/Extracted/Pool.lean (fail closed)
# --------------------------------------------------------------------------------------------------------------


class ExtractError(RuntimeError):
    pass


def _find(tree, qual):
    body = tree.body
    node = None
    for part in qual.split("."):
        node = next((n for n in body if isinstance(n, (ast.FunctionDef, ast.ClassDef)) and n.name == part), None)
        if node is None:
            raise ExtractError(f"{qual} not found in {POOL_PY}")
        body = node.body
    return node


def _is_pool_scope_subscript(n):
    return (isinstance(n, ast.Subscript) and isinstance(n.slice, ast.Constant) and n.slice.value == "pool_scope")


def _lean_str(s):
    if not re.fullmatch(r"[A-Za-z0-9_/.\- ]*", s):
        raise ExtractError(f"unexpected characters in extracted literal {s!r}")
    return '"' + s + '"'


def extract_tables(repo=None):
    """AST walk of states/pool.py (+ the documented default of pool_scope).  Only literals are read, the shape of the
    surrounding code is NOT pinned (a swapped comparison must surface as a disagreement, not as an extraction error);
    what is pinned is how many literals of each kind there are."""
    repo = repo or vlib.REPO
    tree = ast.parse(open(os.path.join(repo, POOL_PY)).read())
    out = {}
    # get_source_scope: the string literals returned, in source order
    f = _find(tree, "SourcedStateBackend.get_source_scope")
    rets_pos = sorted((n.lineno, n.col_offset, n.value.value) for n in ast.walk(f)
                      if isinstance(n, ast.Return) and isinstance(n.value, ast.Constant) and isinstance(n.value.value, str))
    rets = [r[2] for r in rets_pos]
    if len(rets) != 5:
        raise ExtractError(f"get_source_scope: expected 5 returned scope literals, found {rets}")
    out["scope_returns"] = rets
    # proximity: the `score += <int>` literals, in source order
    f = _find(tree, "SourcedStateBackend.get_sources")
    incs = sorted((n.lineno, n.value.value) for n in ast.walk(f) if isinstance(n, ast.AugAssign)
                  and isinstance(n.op, ast.Add) and isinstance(n.value, ast.Constant) and isinstance(n.value.value, int))
    if len(incs) != 4:
        raise ExtractError(f"get_sources.proximity: expected 4 score increments, found {incs}")
    out["prox"] = [i[1] for i in incs]
    # show/get/set/unset: the literal compared with `source_scope`, and the literal tested for membership in `scopes`
    for op in ("show", "get", "set", "unset"):
        f = _find(tree, f"SourcedStateBackend.{op}")
        skip, local = [], []
        for n in ast.walk(f):
            if isinstance(n, ast.Compare) and len(n.ops) == 1:
                l, r = n.left, n.comparators[0]
                if isinstance(l, ast.Name) and l.id == "source_scope" and isinstance(r, ast.Constant):
                    skip.append(r.value)
                if isinstance(l, ast.Constant) and isinstance(l.value, str) and isinstance(r, ast.Name) and r.id == "scopes":
                    local.append(l.value)
        if len(skip) != 1 or len(local) != 1:
            raise ExtractError(f"SourcedStateBackend.{op}: expected one `source_scope == <lit>` and one `<lit> in scopes`,"
                               f" found {skip} / {local}")
        out[f"{op}_skip"], out[f"{op}_local"] = skip[0], local[0]
    # root backend: literals compared with params["pool_scope"], in source order
    want = {"check_root": 1, "get_root": 2, "set_root": 2, "unset_root": 2}
    for op, k in want.items():
        f = _find(tree, f"RootSourcedStateBackend.{op}")
        lits = []
        for n in ast.walk(f):
            if isinstance(n, ast.Compare) and len(n.ops) == 1:
                l, r = n.left, n.comparators[0]
                if _is_pool_scope_subscript(l) and isinstance(r, ast.Constant):
                    lits.append((n.lineno, n.col_offset, r.value))
                elif _is_pool_scope_subscript(r) and isinstance(l, ast.Constant):
                    lits.append((n.lineno, n.col_offset, l.value))
        lits = [x[2] for x in sorted(lits)]
        if len(lits) != k:
            raise ExtractError(f"RootSourcedStateBackend.{op}: expected {k} comparisons with params['pool_scope'], found {lits}")
        out[op] = lits
    f = _find(tree, "RootSourcedStateBackend.check_root")
    vmtypes = [[e.value for e in n.elts] for n in ast.walk(f) if isinstance(n, ast.List)
               and all(isinstance(e, ast.Constant) and isinstance(e.value, str) for e in n.elts)]
    if len(vmtypes) != 1:
        raise ExtractError(f"check_root: expected one literal list of vm object types, found {vmtypes}")
    out["vm_types"] = vmtypes[0]
    # compare_chain: the vm object types and the two file suffixes
    f = _find(tree, "QCOW2ImageTransfer.compare_chain")
    vmtypes = [[e.value for e in n.elts] for n in ast.walk(f) if isinstance(n, ast.List)
               and all(isinstance(e, ast.Constant) and isinstance(e.value, str) for e in n.elts)]
    sufs = sorted({n.right.value for n in ast.walk(f) if isinstance(n, ast.BinOp) and isinstance(n.op, ast.Add)
                   and isinstance(n.right, ast.Constant) and isinstance(n.right.value, str)
                   and isinstance(n.left, ast.Name) and n.left.id == "next_state"})
    if len(vmtypes) != 1 or len(sufs) != 2:
        raise ExtractError(f"compare_chain: expected one list of vm object types and two file suffixes, found {vmtypes} / {sufs}")
    out["chain_vm_types"] = vmtypes[0]
    out["chain_suffixes"] = sufs           # sorted: [".qcow2", ".state"]
    # the documented scope names: default of pool_scope in the shipped configuration
    cfg = open(os.path.join(repo, "tp_folder/configs/groups-base.cfg")).read()
    m = re.findall(r"^\s*pool_scope\s*=\s*(.*?)\s*$", cfg, flags=re.M)
    if len(m) != 1 or not m[0].split():
        raise ExtractError(f"groups-base.cfg: expected one pool_scope default, found {m}")
    out["all_scopes"] = m[0].split()
    return out


def render_extracted(t):
    def lst(xs):
        return "[" + ", ".join(_lean_str(x) for x in xs) + "]"
    r = t["scope_returns"]
    lines = [
        "/- GENERATED on every run by harness/props/c13.py:extract from /repo/avocado_i2n/states/pool.py and",
        "   /repo/tp_folder/configs/groups-base.cfg — do not edit.  Literals only; the control flow is mirrored by",
        "   hand in I2N/Model/Pool.lean and tied to the code by the correspondence run. -/",
        "namespace I2N.Extracted.Pool",
        "",
        "/-- `get_source_scope`: the returned literals in source order (other gateway, other host, the shared pool's",
        "path, the swarm pool's path, anything else) -/",
        f"abbrev scopeOtherGateway : String := {_lean_str(r[0])}",
        f"abbrev scopeOtherHost : String := {_lean_str(r[1])}",
        f"abbrev scopeSharedPath : String := {_lean_str(r[2])}",
        f"abbrev scopeSwarmPath : String := {_lean_str(r[3])}",
        f"abbrev scopeElse : String := {_lean_str(r[4])}",
        "",
        "/-- `get_sources.proximity`: the four `score +=` literals in source order -/",
        f"abbrev proxGateway : Nat := {t['prox'][0]}",
        f"abbrev proxHost : Nat := {t['prox'][1]}",
        f"abbrev proxSwarmPath : Nat := {t['prox'][2]}",
        f"abbrev proxOtherPath : Nat := {t['prox'][3]}",
        "",
        "/-- `SourcedStateBackend.<op>`: the literal in `source_scope == <lit>` and in `<lit> in scopes` -/",
    ]
    for op in ("show", "get", "set", "unset"):
        lines.append(f"abbrev {op}Skip : String := {_lean_str(t[op + '_skip'])}")
        lines.append(f"abbrev {op}Local : String := {_lean_str(t[op + '_local'])}")
    lines += [
        "",
        "/-- `RootSourcedStateBackend.<op>`: literals compared with `params[\"pool_scope\"]`, in source order -/",
        f"abbrev checkRootLocal : String := {_lean_str(t['check_root'][0])}",
        f"abbrev getRootNotIn : String := {_lean_str(t['get_root'][0])}",
        f"abbrev getRootLocal : String := {_lean_str(t['get_root'][1])}",
        f"abbrev setRootLocal : String := {_lean_str(t['set_root'][0])}",
        f"abbrev setRootPool : String := {_lean_str(t['set_root'][1])}",
        f"abbrev unsetRootLocal : String := {_lean_str(t['unset_root'][0])}",
        f"abbrev unsetRootPool : String := {_lean_str(t['unset_root'][1])}",
        f"abbrev rootVmTypes : List String := {lst(t['vm_types'])}",
        "",
        "/-- `QCOW2ImageTransfer.compare_chain`: object types that carry a vm state file, and the file suffixes -/",
        f"abbrev chainVmTypes : List String := {lst(t['chain_vm_types'])}",
        f"abbrev chainImageSuffix : String := {_lean_str(t['chain_suffixes'][0])}",
        f"abbrev chainStateSuffix : String := {_lean_str(t['chain_suffixes'][1])}",
        "",
        "/-- the documented scope names (default of `pool_scope` in tp_folder/configs/groups-base.cfg) -/",
        f"abbrev allScopes : List String := {lst(t['all_scopes'])}",
        "",
        "end I2N.Extracted.Pool",
        "",
    ]
    return "\n".join(lines)


def extract(ctx):
    """Regenerate lean/I2N/Extracted/Pool.lean (literal tables) and lean/I2N/Extracted/GenPool.lean (the control flow of
    get_source_scope translated by harness/pygen.py).  Both fail closed."""
    try:
        _extract_tables(ctx)
    finally:
        _extract_gen(ctx)


def _extract_gen(ctx):
    """second tie: the control flow of get_source_scope translated to Lean (raises pygen.Unsupported when the function
    left the translated subset; run.py records that as a proof problem)"""
    import pygen
    if pygen.extract_pool(ctx):
        ctx.notes.append("I2N/Extracted/GenPool.lean changed: the source of get_source_scope differs from the one the "
                         "committed file was generated from (sourceScope_matches_source is re-checked)")
    ctx.extra["regenerated"] = ("lean/I2N/Extracted/GenPool.lean (SourcedStateBackend.get_source_scope, "
                                "get_sources.proximity via harness/pygen.py)")


def _extract_tables(ctx):
    """Regenerate lean/I2N/Extracted/Pool.lean.  Fails closed: when a literal is no longer where it was, the proofs
    count as broken for this run (a proof problem can never end in exit 0) and the correspondence still runs against the
    last extracted tables, so that a concrete failing input is looked for."""
    path = os.path.join(vlib.LEAN, "I2N", "Extracted", "Pool.lean")
    try:
        text = render_extracted(extract_tables())
    except ExtractError as e:
        ctx.proof_problems.append(f"extraction of the scope literals from {POOL_PY} failed (theorems are about stale "
                                  f"literals): {e}")
        if not os.path.exists(path):
            raise
        return
    os.makedirs(os.path.dirname(path), exist_ok=True)
    old = open(path).read() if os.path.exists(path) else None
    if old != text:
        with open(path, "w") as fh:
            fh.write(text)
        if old is not None:
            ctx.notes.append("I2N/Extracted/Pool.lean changed: a literal of states/pool.py moved since the last run")
    ctx.extra["extracted"] = "lean/I2N/Extracted/Pool.lean"


# --------------------------------------------------------------------------------------------------------------
# implementation side: the real classes with recording stubs
# --------------------------------------------------------------------------------------------------------------

_scr = None


def _scratch():
    global _scr
    if _scr is None:
        _scr = tempfile.mkdtemp(prefix="i2n-verif-c13-")
    return _scr


def _cleanup():
    global _scr
    if _scr and os.path.isdir(_scr):
        os.chdir("/")
        shutil.rmtree(_scr, ignore_errors=True)
    _scr = None


class Impl:
    """The real SourcedStateBackend / RootSourcedStateBackend code (from `poolmod`, by default /repo's
    avocado_i2n.states.pool) with the class attributes the selftests substitute, substituted by recorders."""

    def __init__(self, poolmod=None):
        os.chdir(_scratch())
        if poolmod is None:
            from avocado_i2n.states import pool as poolmod
        from virttest.utils_params import Params
        self.Params = Params
        self.pool = poolmod
        me = self
        self.log = []
        self.case = None

        class Ops:
            @staticmethod
            def compare(cache_path, pool_path, params):
                m = re.search(r"img(\d+)\.qcow2$", pool_path)
                i = int(m.group(1)) if m else -1
                ok = pool_path.startswith(":" + me.case["shared"] + "/") and cache_path.endswith(f"img{i}.qcow2")
                me.log.append(f"pool.compare#{i}" if ok else f"pool.compare?{cache_path}?{pool_path}")
                return me.case["valid"][i] if 0 <= i < len(me.case["valid"]) else False

        class Transport:
            ops = Ops

            @classmethod
            def show(cls, params, object=None):
                loc = params["show_location"]
                me.log.append("show@" + loc)
                return list(me.case["mirrors"].get(loc, []))

            @classmethod
            def compare_chain(cls, state, cache_dir, pool_dir, params):
                ok = state == me.case["state"] and cache_dir == me.case["own"][2] and params["get_location"] == pool_dir
                me.log.append("compare@" + pool_dir if ok else f"compare?{state}?{cache_dir}?{pool_dir}")
                return bool(me.case["valid"].get(pool_dir, False))

            @classmethod
            def get(cls, params, object=None):
                me.log.append("get@" + params["get_location"])

            @classmethod
            def set(cls, params, object=None):
                me.log.append("set@" + params["set_location"])

            @classmethod
            def unset(cls, params, object=None):
                me.log.append("unset@" + params["unset_location"])

            @classmethod
            def check_root(cls, params, object=None):
                me.log.append("pool.check_root")
                return me.case["pool"]

            @classmethod
            def get_root(cls, params, object=None):
                me.log.append("pool.get_root")

            @classmethod
            def set_root(cls, params, object=None):
                me.log.append("pool.set_root")

            @classmethod
            def unset_root(cls, params, object=None):
                me.log.append("pool.unset_root")

        class ChainOps:
            @staticmethod
            def compare(cache_path, pool_path, params):
                c = me.case
                cpre, ppre = c["cache_dir"] + "/vm1-id/", c["pool_dir"] + "/vm1-id/"
                rel = cache_path[len(cpre):]
                ok = cache_path.startswith(cpre) and pool_path == ppre + rel
                me.log.append(rel if ok else f"compare?{cache_path}?{pool_path}")
                return rel not in c["differing"]

        def next_dependency(cls, state, params):
            c = me.case
            if me.pos >= len(c["chain"]) or c["chain"][me.pos] != state:
                me.log.append(f"dependency?{state}")
            me.pos += 1
            return c["chain"][me.pos] if me.pos < len(c["chain"]) else ""

        self.Chain = type("RecTransfer", (poolmod.QCOW2ImageTransfer,), {
            "ops": ChainOps, "get_dependency": classmethod(next_dependency)})

        def route(tag):
            def f(cache_path, pool_path, params):
                me.log.append(f"{tag} {cache_path} {pool_path}")
                return True
            return staticmethod(f)

        self.Route = type("RecTransferOps", (poolmod.TransferOps,), {
            "compare_remote": route("remote"), "compare_link": route("link"), "compare_local": route("local")})

        def rec(tag, ret=None):
            def f(cls, params, object=None):
                me.log.append(tag)
                return ret(me) if ret else None
            return classmethod(f)

        self.State = type("RecSourced", (poolmod.SourcedStateBackend,), {
            "transport": Transport,
            "_show": rec("local.show", lambda m: list(m.case["cache"])),
            "_get": rec("local.get"), "_set": rec("local.set"), "_unset": rec("local.unset")})
        self.Root = type("RecRootSourced", (poolmod.RootSourcedStateBackend,), {
            "transport": Transport,
            "_check_root": rec("local.check_root", lambda m: m.case["local"]),
            "_get_root": rec("local.get_root"), "_set_root": rec("local.set_root"),
            "_unset_root": rec("local.unset_root")})

    @staticmethod
    def _err(e):
        if isinstance(e, ValueError):
            return "valueError"
        if isinstance(e, RuntimeError) and "requires local" in str(e):
            return "noLocalState"
        if isinstance(e, RuntimeError) and "Invalid pool scope" in str(e):
            return "invalidScope"
        return "exc:" + type(e).__name__

    def run(self, case):
        """returns (result, [contacts])"""
        self.case = case
        self.log = []
        self.pos = 0
        if case["kind"] == "chain":
            params = self.Params({"vms": "vm1", "object_id": "vm1-id", "images": " ".join(case["images"]),
                                  "object_type": case["otype"]})
            try:
                r = self.Chain.compare_chain(case["chain"][0] if case["chain"] else "", case["cache_dir"],
                                             case["pool_dir"], params)
                res = "true" if r else "false"
            except Exception as e:       # noqa
                res = self._err(e)
            return res, list(self.log)
        if case["kind"] == "cmp":
            try:
                self.Route.compare(case["cache"], case["pool"], self.Params({}))
                res = self.log[0] if len(self.log) == 1 else "calls:" + ";".join(self.log)
            except Exception as e:       # noqa
                res = self._err(e)
            return res, []
        if case["kind"] == "state":
            gw, host, swarm, shared = case["own"]
            d = {"nets": "net1", "vms": "vm1", "images": "image1", "object_type": "nets/vms/images",
                 "object_id": "vm1-id", "pool_scope": " ".join(case["scopes"]), "swarm_pool": swarm,
                 "shared_pool": shared, "nets_gateway": gw, "nets_host": host,
                 f"{case['op']}_state": case["state"], f"{case['op']}_location": " ".join(case["locs"])}
            for net, (g, h) in case["nets"].items():
                if g is not None:
                    d[f"nets_gateway_{net}"] = g
                if h is not None:
                    d[f"nets_host_{net}"] = h
            params = self.Params(d)
            try:
                r = getattr(self.State, case["op"])(params, None)
                res = "ok:" + ",".join(sorted(set(r))) if case["op"] == "show" else "ok"
            except Exception as e:       # noqa: the class of the exception is the observable
                res = self._err(e)
        else:
            n = len(case["valid"])
            d = {"nets": "net1", "vms": "vm1", "images": " ".join(f"image{i + 1}" for i in range(n)),
                 "object_type": "nets/vms" if case["is_vm"] else "nets/vms/images",
                 "pool_scope": " ".join(case["scopes"]), "shared_pool": case["shared"], "vms_base_dir": "/base",
                 "image_name": "img0"}
            for i in range(n):
                d[f"image_name_image{i + 1}"] = f"img{i}"
            params = self.Params(d)
            try:
                r = getattr(self.Root, case["op"])(params, None)
                res = ("true" if r else "false") if case["op"] == "check_root" else "ok"
            except Exception as e:       # noqa
                res = self._err(e)
        return res, list(self.log)


def case_line(c):
    """the driver line of a case"""
    if c["kind"] == "state":
        nets = ";".join(f"{n}={'~' if g is None else g},{'~' if h is None else h}" for n, (g, h) in c["nets"].items())
        mir = ";".join(f"{k}={','.join(v)}" for k, v in c["mirrors"].items())
        val = ";".join(f"{k}={1 if v else 0}" for k, v in c["valid"].items())
        return "|".join(["state", c["op"], " ".join(c["scopes"]), ",".join(c["own"]), nets, " ".join(c["locs"]),
                         " ".join(c["cache"]), mir, val, c["state"]])
    if c["kind"] == "chain":
        return "|".join(["chain", " ".join(c["images"]), "1" if c["otype"] in ("vms", "nets/vms") else "0",
                         " ".join(c["chain"]), " ".join(c["differing"])])
    if c["kind"] == "cmp":
        return "|".join(["cmp", c["cache"], c["pool"]])
    return "|".join(["root", c["op"], " ".join(c["scopes"]), "1" if c["local"] else "0", "1" if c["pool"] else "0",
                     "".join("1" if v else "0" for v in c["valid"]), "1" if c["is_vm"] else "0"])


# --------------------------------------------------------------------------------------------------------------
# the spec oracle: judges the implementation's own contacts by the words of the property
# --------------------------------------------------------------------------------------------------------------

def spec_attrs(c, loc):
    """(same gateway, same host, path is the own pool, path is the shared pool) of a well-formed source"""
    net, path = loc.split(":")
    gw, host, swarm, shared = c["own"]
    g, h = (gw, host)
    if net:
        og, oh = c["nets"].get(net, (None, None))
        g = gw if og is None else og
        h = host if oh is None else oh
    return g == gw, h == host, path == swarm, path == shared.lstrip(":")


def spec_scope(c, loc):
    """the scope of a source in the words of the property: a source behind another gateway is `cluster`, one on
    another host behind the same gateway is `swarm`, on this host the own pool path is `own` and every other path
    is `shared`.  Returns a set (two answers are tolerated when own and shared pool are configured to the same path)."""
    same_gw, same_host, is_own, is_shared = spec_attrs(c, loc)
    if not same_gw:
        return {"cluster"}
    if not same_host:
        return {"swarm"}
    if is_own and is_shared:
        return {"own", "shared"}
    return {"own"} if is_own else {"shared"}


def spec_permitted(c, loc):
    """may the transport be pointed at this source?  None = ambiguous configuration, not judged"""
    sc = spec_scope(c, loc)
    if len(sc) > 1:
        if "shared" in c["scopes"]:
            return None
        return False
    s = next(iter(sc))
    return s != "own" and s in c["scopes"]


def closeness(c, loc):
    a = spec_attrs(c, loc)
    return (a[0], a[1], a[2])


def well_formed(c):
    return all(l.count(":") == 1 for l in c["locs"])


def oracle_state(ctx, c, res, contacts):
    """every clause of the property that speaks about show/get/set/unset, on the implementation's own output"""
    op, scopes = c["op"], c["scopes"]

    def bad(key, what):
        ctx.violate(f"{op}:{key}", what + f" (result {res}, contacts {contacts})", c)
    if not well_formed(c):
        # outside the property's quantifier (not a list of sources); nothing may be contacted
        if any("@" in x for x in contacts):
            bad("malformed-source-contacted", "a malformed location list still led to a transport contact")
        return
    locs = list(dict.fromkeys(c["locs"]))
    perm = {l: spec_permitted(c, l) for l in locs}
    ambiguous = any(v is None for v in perm.values())
    pool = [x.split("@", 1) for x in contacts if "@" in x]
    odd = [x for x in contacts if "?" in x]
    if odd:
        bad("transport-call-with-foreign-parameters", f"transport called with inconsistent arguments {odd}")
    # 1. only sources whose scope is enabled are contacted
    for call, loc in pool:
        if loc not in perm:
            bad("unknown-source-contacted", f"{call} went to {loc} which is not in {op}_location")
        elif perm[loc] is False:
            bad("scope-not-enabled", f"{call} went to {loc} of scope {sorted(spec_scope(c, loc))} with pool_scope={scopes}")
    for x in contacts:
        if x in ("local.get", "local.set", "local.unset") and "own" not in scopes:
            bad("local-without-own", f"{x} although `own` is not enabled")
    if op == "show" and "local.show" in contacts and "own" not in scopes:
        bad("local-without-own", "the cache was listed although `own` is not enabled")
    if ambiguous:
        ctx.count("oracle.ambiguous-own-is-shared")
        return
    permitted = [l for l in locs if perm[l]]
    if op == "show":
        if not res.startswith("ok:"):
            bad("unexpected-error", "listing failed")
            return
        names = [n for n in res[3:].split(",") if n]
        allowed = set(c["cache"]) if "own" in scopes else set()
        for l in permitted:
            allowed |= set(c["mirrors"].get(l, []))
        extra = [n for n in names if n not in allowed]
        if extra:
            bad("reported-but-nowhere", f"states {extra} are reported present but are neither in the enabled cache nor in a "
                f"permitted source")
        if any(call != "show" for call, _ in pool):
            bad("foreign-call", "listing made a transport call other than show")
        if permitted:
            # observation, not part of the property: the intersection over the mirrors restarts when it runs empty, so a
            # state can be listed although the closest permitted source (the only one `get` asks) lacks it
            best = max(permitted, key=lambda l: closeness(c, l))
            if any(n not in c["mirrors"].get(best, []) and not ("own" in scopes and n in c["cache"]) for n in names):
                ctx.count("observation.show-lists-state-missing-in-closest-source")
    elif op == "get":
        if res != "ok":
            bad("unexpected-error", "fetching failed")
            return
        used = list(dict.fromkeys(loc for _, loc in pool))
        if not permitted:
            if used:
                bad("contact-without-permitted-source", "no source is permitted but the transport was used")
        else:
            best = max(closeness(c, l) for l in permitted)
            if len(used) != 1:
                bad("not-exactly-one-source", f"fetching must use exactly the closest permitted source, used {used}")
            elif used[0] in perm and perm[used[0]] and closeness(c, used[0]) != best:
                bad("not-closest", f"fetched from {used[0]} {closeness(c, used[0])} although a permitted source with "
                    f"(same gateway, same host, own path) = {best} is listed")
            if len(used) == 1:
                src = used[0]
                in_pool = c["state"] in c["mirrors"].get(src, [])
                local = c["state"] in c["cache"]
                want = in_pool and (not local or not c["valid"].get(src, False))
                got = sum(1 for call, _ in pool if call == "get")
                if got != (1 if want else 0):
                    bad("download-iff-differs", f"download requested {got} times; state in source={in_pool}, local copy={local}, "
                        f"cache valid={c['valid'].get(src, False)}")
                if "local.get" in contacts and any(call == "get" for call, _ in pool) and \
                        contacts.index("local.get") < max(i for i, x in enumerate(contacts) if x.startswith("get@")):
                    bad("local-get-before-download", "the local backend was asked for the state before it was downloaded")
        if any(call not in ("show", "compare", "get") for call, _ in pool):
            bad("foreign-call", "fetching made a transport call other than show/compare/get")
        if ("own" in scopes) != (contacts.count("local.get") == 1):
            bad("local-get", "`_get` must run exactly once iff `own` is enabled")
    elif op in ("set", "unset"):
        local = c["state"] in c["cache"]
        if op == "set" and "own" not in scopes and not local:
            if res != "noLocalState":
                bad("update-without-local-state-not-refused", "updating the pool without the local state must be refused "
                    "with RuntimeError('Updating state pool requires local states')")
            if pool:
                bad("update-without-local-state-contacted", "the refused update still contacted a mirror")
            return
        if res != "ok":
            bad("unexpected-error", f"{op} failed")
            return
        reached = sorted(loc for call, loc in pool if call == op)
        if reached != sorted(permitted):
            bad("mirrors-not-reached-exactly-once", f"{op} reached {reached}, the permitted mirrors are {sorted(permitted)}")
        if any(call != op for call, _ in pool):
            bad("foreign-call", f"{op} made a transport call other than {op}")
        if ("own" in scopes) != (contacts.count(f"local.{op}") == 1):
            bad(f"local-{op}", f"`_{op}` must run exactly once iff `own` is enabled")
        if op == "set" and "local.set" in contacts and contacts.index("local.set") > min(
                [i for i, x in enumerate(contacts) if "@" in x] or [len(contacts)]):
            bad("upload-before-local-set", "a mirror was updated before the local state was saved")


def oracle_root(ctx, c, res, contacts):
    op, scopes = c["op"], c["scopes"]

    def bad(key, what):
        ctx.violate(f"{op}:{key}", what + f" (pool_scope={' '.join(scopes)!r}, result {res}, contacts {contacts})", c)
    pool = [x for x in contacts if x.startswith("pool.")]
    if any("?" in x for x in contacts):
        bad("transport-call-with-foreign-parameters", "the shared pool was compared under a foreign path")
    if pool and "shared" not in scopes:
        bad("pool-contact-without-shared-scope", f"the shared pool was contacted ({pool}) although `shared` is not enabled")
    for x in contacts:
        if x in ("local.get_root", "local.set_root", "local.unset_root") and "own" not in scopes:
            bad("local-without-own", f"{x} although `own` is not enabled")
    if op == "check_root":
        if res == "true" and not (c["local"] or ("shared" in scopes and c["pool"])):
            bad("reported-but-nowhere", "the root is reported present but is neither local nor in the permitted shared pool")
        if res not in ("true", "false"):
            bad("unexpected-error", "check_root failed")
    elif op == "get_root":
        if res != "ok":
            bad("unexpected-error", "get_root failed")
        elif "own" in scopes and "shared" in scopes:
            invalid = not all(c["valid"])
            want = c["pool"] and (not c["local"] or invalid)
            got = contacts.count("pool.get_root")
            if got != (1 if want else 0):
                bad("download-iff-differs", f"download requested {got} times; root in pool={c['pool']}, local root={c['local']}, "
                    f"images identical={c['valid']}")
    elif op == "set_root":
        if "shared" in scopes and "own" not in scopes and not c["local"]:
            if res not in ("noLocalState", "invalidScope"):
                bad("update-without-local-state-not-refused", "updating the pool root without the local root must be refused")
            if pool:
                bad("update-without-local-state-contacted", "the refused update still contacted the pool")
        elif res == "ok":
            if ("shared" in scopes) != ("pool.set_root" in contacts) or ("own" in scopes) != ("local.set_root" in contacts):
                bad("mirrors-not-reached", "a successful set_root did not reach exactly the permitted places")
        elif res != "invalidScope":
            bad("unexpected-error", "set_root failed")
    elif op == "unset_root":
        if res == "ok":
            if ("shared" in scopes) != ("pool.unset_root" in contacts) or ("own" in scopes) != ("local.unset_root" in contacts):
                bad("mirrors-not-reached", "a successful unset_root did not reach exactly the permitted places")
        elif res != "invalidScope":
            bad("unexpected-error", "unset_root failed")
    if res == "invalidScope":
        ctx.count(f"root.{op}.refused-invalid-scope")
        if contacts:
            bad("refused-but-contacted", "the operation was refused after something was contacted")


def oracle_chain(ctx, c, res, compared):
    """"differs from the source": the cache is valid exactly when every file backing the state — every image's file of
    the state and of each of its backing states, plus the vm state file of the requested state — equals the pool's"""
    def bad(key, what):
        ctx.violate(f"compare_chain:{key}", what + f" (verdict {res}, compared {compared})", c)
    is_vm = c["otype"] in ("vms", "nets/vms")
    files = []
    for i, st in enumerate(c["chain"]):
        files += [f"{img}/{st}.qcow2" for img in c["images"]]
        if is_vm and i == 0:
            files.append(f"{st}.state")
    if any("?" in x for x in compared):
        bad("foreign-paths", "a comparison was made between paths that do not belong to the same file of cache and source")
        return
    differs = [f for f in files if f in c["differing"]]
    if res not in ("true", "false"):
        bad("unexpected-error", "compare_chain failed")
    elif (res == "true") != (not differs):
        bad("verdict", f"files {differs} differ from the source")
    if [f for f in compared if f not in files]:
        bad("foreign-file", "a file outside the backing chain was compared")
    if res == "true" and set(compared) != set(files):
        bad("valid-without-comparing-all", f"declared valid although {sorted(set(files) - set(compared))} were not compared")


def oracle_cmp(ctx, c, res, _):
    if c["pool"].count(":") == 1 and not re.fullmatch(r"(remote|link|local) \S+ \S*", res):
        ctx.violate("compare:not-routed", f"TransferOps.compare did not reach exactly one comparator ({res})", c)


ORACLES = {"state": oracle_state, "root": oracle_root, "chain": oracle_chain, "cmp": oracle_cmp}


# --------------------------------------------------------------------------------------------------------------
# running cases through implementation + model
# --------------------------------------------------------------------------------------------------------------

def nontrivial(c):
    if c["kind"] == "root":
        return c["scopes"] != ["own"]
    if c["kind"] == "chain":
        return len(c["chain"]) * len(c["images"]) > 1
    if c["kind"] == "cmp":
        return True
    return well_formed(c) and any(spec_permitted(c, l) for l in c["locs"])


def branch_counts(ctx, c, res, contacts):
    if c["kind"] in ("chain", "cmp"):
        ctx.count("op.compare_chain" if c["kind"] == "chain" else "op.compare-routing")
        ctx.count(f"{c['kind']}.{res.split()[0]}")
        if c["kind"] == "chain":
            ctx.count(f"chain.len={len(c['chain'])}")
        return
    op = c["op"]
    ctx.count(f"op.{op}")
    ctx.count(f"scopes.n={len(c['scopes'])}")
    if c["kind"] == "state":
        ctx.count(f"sources.n={len(c['locs'])}")
        if op == "get":
            if any(x.startswith("get@") for x in contacts):
                ctx.count("get.download")
            elif any(x.startswith("compare@") for x in contacts):
                ctx.count("get.cache-valid")
            elif any(x.startswith("show@") for x in contacts):
                ctx.count("get.not-in-source")
            else:
                ctx.count("get.no-permitted-source")
        if op in ("set", "unset", "show"):
            ctx.count(f"{op}.mirrors={sum(1 for x in contacts if '@' in x)}")
    if not res.startswith("ok") and res not in ("true", "false"):
        ctx.count(f"error.{op}.{res}")


def run_cases(ctx, cases, impl=None, oracle=True, model=True, record=True):
    """implementation + spec oracle on every case; the same lines through drv_pool; first difference reported"""
    impl = impl or Impl()
    outs = []
    for c in cases:
        res, contacts = impl.run(c)
        outs.append(res + " # " + " ".join(contacts))
        if oracle:
            ORACLES[c["kind"]](ctx, c, res, contacts)
        if record:
            branch_counts(ctx, c, res, contacts)
            ctx.case(c, nontrivial=nontrivial(c), sample_every=20011)
    if model:
        got = vlib.driver("drv_pool", [case_line(c) for c in cases])
        for c, want, g in zip(cases, outs, got):
            if want != g:
                ctx.disagree(f"{c['kind']}:{c.get('op', '')}", c, g, want)
                break
    return outs


# --------------------------------------------------------------------------------------------------------------
# generators
# --------------------------------------------------------------------------------------------------------------

OWN = ["gw1", "h1", "/own", "/shared"]
NETS = {"net2": ("gw1", "h1"), "net3": ("gw1", "h2"), "net4": ("gw2", "h3"), "net5": ("gw2", "h1"),
        "net6": (None, None)}
#: the five source kinds of the property's quantifier …
BASE_KINDS = [":/shared",        # the shared pool path on this host
              ":/own",           # the own pool path
              "net2:/data",      # another worker on this host (own pool elsewhere)
              "net3:/own",       # another worker behind the same gateway
              "net4:/own"]       # a worker behind another gateway
#: … and the traps around them
EXTRA_KINDS = [":/other",        # another local path
               "net2:/own",      # another worker's name for the very same directory
               "net5:/own",      # other gateway, same host *name*
               "net6:/own"]      # a net without parameters of its own (inherits gateway and host)


def scope_subsets():
    out = []
    for k in range(len(SCOPES) + 1):
        for sub in itertools.combinations(SCOPES, k):
            out.append(list(sub))
    return out


def subsets(xs):
    for k in range(len(xs) + 1):
        for sub in itertools.combinations(xs, k):
            yield list(sub)


def state_cases_for(locs, scopes, own=OWN, nets=NETS, ops=("show", "get", "set", "unset")):
    """all placements of the state `s` among cache and listed sources × cache validity, per operation"""
    used = {l.split(":")[0] for l in locs if l.count(":") == 1}
    nets = {n: list(v) for n, v in nets.items() if n in used}
    uniq = list(dict.fromkeys(locs))
    base = {"kind": "state", "scopes": scopes, "own": own, "nets": nets, "locs": locs, "state": "s"}
    for op in ops:
        if op == "unset":
            yield dict(base, op=op, cache=[], mirrors={l: [] for l in uniq}, valid={})
            continue
        for cache in ([], ["s"]):
            if op == "set":
                yield dict(base, op=op, cache=cache, mirrors={l: [] for l in uniq}, valid={})
                continue
            for placed in subsets(uniq):
                mirrors = {l: (["s"] if l in placed else []) for l in uniq}
                if op == "show":
                    yield dict(base, op=op, cache=cache, mirrors=mirrors, valid={})
                else:
                    for v in (False, True):
                        if v and not (cache and placed):
                            continue        # validity is only ever asked when both copies exist
                        yield dict(base, op=op, cache=cache, mirrors=mirrors, valid={l: v for l in uniq})


def lists_upto(kinds, n):
    for k in range(n + 1):
        for combo in itertools.product(kinds, repeat=k):
            yield list(combo)


def exhaustive_state(kinds, maxlen):
    for locs in lists_upto(kinds, maxlen):
        for scopes in scope_subsets():
            yield from state_cases_for(locs, scopes)


def exhaustive_root():
    for op in ("check_root", "get_root", "set_root", "unset_root"):
        for scopes in sorted(scope_subsets(), key=len, reverse=True):     # realistic settings first
            for perm in ([scopes] if len(scopes) < 2 else [scopes, scopes[::-1]]):
                for local in (False, True):
                    for pool in (False, True):
                        for valid in ([True], [False], [True, True], [True, False], [False, True], [False, False]):
                            for is_vm in (False, True):
                                yield {"kind": "root", "op": op, "scopes": perm, "local": local, "pool": pool,
                                       "valid": valid, "is_vm": is_vm, "shared": "/shared"}


def exhaustive_chain(maxchain=3):
    """all chains of <= maxchain states x 1..2 images x vm/image object x every set of differing files (+ one foreign)"""
    for otype in ("vms", "nets/vms", "images", "nets/vms/images"):
        is_vm = otype in ("vms", "nets/vms")
        for images in (["image1"], ["image1", "image2"]):
            for n in range(maxchain + 1):
                chain = ["s", "b1", "b2"][:n]
                files = [f"{img}/{st}.qcow2" for st in chain for img in images] + ([f"{chain[0]}.state"] if chain and is_vm else [])
                extra = ["image1/zz.qcow2", "b1.state"]
                if len(files) > 5 and otype in ("nets/vms", "images"):
                    continue                      # the same shapes as "vms" / "nets/vms/images"
                for diff in subsets(files):
                    for ex in ([], extra):
                        yield {"kind": "chain", "images": images, "otype": otype, "chain": chain, "differing": diff + ex,
                               "cache_dir": "/own", "pool_dir": "net3:/own"}


def random_chain_case(rng):
    names = ["s", "b1", "b2", "b3", "b4"]
    chain = rng.sample(names, rng.randint(0, 5))
    if chain and rng.random() < 0.1:
        chain.append(rng.choice(chain))            # a repeated name (not a realistic chain; outputs must still agree)
    images = ["image1", "image2", "image3"][:rng.randint(1, 3)]
    files = [f"{img}/{st}.qcow2" for st in names for img in images] + [f"{st}.state" for st in names]
    return {"kind": "chain", "images": images, "otype": rng.choice(["vms", "nets/vms", "images", "nets/vms/images"]),
            "chain": chain, "differing": [f for f in files if rng.random() < 0.08],
            "cache_dir": rng.choice(["/own", "/mnt/local/images/swarm"]),
            "pool_dir": rng.choice([":/shared", "net3:/own", "c1.h1:/path/1", ":/shared;"])}


def cmp_cases():
    for pool in (":/p/f.qcow2", ":/p;/f.qcow2", ":/p/f;.qcow2;", "host:/p/f.qcow2", "c1.h1:/p;/f", ":", "host:", "/p/f.qcow2",
                 "a:b:c", "::", ";:/p", ":;"):
        yield {"kind": "cmp", "cache": "/own/vm1/image1/s.qcow2", "pool": pool}


def random_state_case(rng, maxlen=5):
    """bigger worlds: own parameters drawn (empty gateway/host strings as in the selftests, own pool = shared pool,
    a shared pool written with a leading colon), several state names, per-source validity, scope names in any order"""
    gws, hosts = ["gw1", "gw2", ""], ["h1", "h2", "h3", ""]
    swarm = rng.choice(["/own", "/own", "/mnt/local/images/swarm"])
    shared = rng.choice(["/shared", "/shared", ":/shared", "/mnt/local/images/shared", swarm])
    own = [rng.choice(gws), rng.choice(hosts), swarm, shared]
    nets = {}
    for n in ("net2", "net3", "net4", "net5", "net6", "c1.h1"):
        nets[n] = [rng.choice(gws + [None]), rng.choice(hosts + [None])]
    paths = [swarm, shared.lstrip(":"), "/data", "/other", "/own", "/shared"]
    pool = [f"{n}:{p}" for n in [""] + list(nets) for p in paths]
    locs = [rng.choice(pool) for _ in range(rng.randint(0, maxlen))]
    if locs and rng.random() < 0.15:
        locs.append(rng.choice(locs))                     # a duplicate
    scopes = [s for s in SCOPES if rng.random() < 0.6]
    rng.shuffle(scopes)
    names = ["s", "t", "u"]
    uniq = list(dict.fromkeys(locs))
    c = {"kind": "state", "op": rng.choice(["show", "get", "set", "unset"]), "scopes": scopes, "own": own,
         "nets": {n: v for n, v in nets.items() if any(l.startswith(n + ":") for l in locs)}, "locs": locs,
         "state": "s", "cache": [n for n in names if rng.random() < 0.5],
         "mirrors": {l: [n for n in names if rng.random() < 0.5] for l in uniq},
         "valid": {l: rng.random() < 0.5 for l in uniq}}
    return c


def malformed_state_case(rng):
    c = random_state_case(rng, 3)
    junk = rng.choice(["/nocolon", "a:b:c", "net2:/x:/y", "::", "net3"])
    c["locs"].insert(rng.randint(0, len(c["locs"])), junk)
    if rng.random() < 0.5:
        c["scopes"] = c["scopes"] + [rng.choice(["owner", "Shared", "all", "none"])]
    return c


def odd_scope_case(rng):
    """scope tokens outside the four names (the model must still agree; the oracle ignores unknown names)"""
    c = random_state_case(rng, 3)
    c["scopes"] = c["scopes"] + [rng.choice(["owner", "Shared", "all", "none", "swarm2"])]
    return c


# --------------------------------------------------------------------------------------------------------------
# entry points
# --------------------------------------------------------------------------------------------------------------

CHUNK = 25000


def _known_keys():
    return {f["key"] for f in vlib.known_findings().get("findings", []) if f.get("property") == PROP}


def _new_violations(ctx):
    known = _known_keys()
    return [v for v in ctx.violations if v["key"] not in known]


def _run_stream(ctx, gen, impl, **kw):
    buf = []
    for c in gen:
        buf.append(c)
        if len(buf) >= CHUNK:
            run_cases(ctx, buf, impl, **kw)
            buf = []
    if buf:
        run_cases(ctx, buf, impl, **kw)


def correspondence(ctx, impl=None):
    rng = ctx.rng
    thorough = ctx.tier == "thorough" or ctx.extra.get("drift")
    ctx.rule = ("one case = one call of the real SourcedStateBackend.show/get/set/unset (or RootSourcedStateBackend."
                "check_root/get_root/set_root/unset_root) with recording stubs for transport and the local backend, for one "
                "pool_scope subset, one <op>_location list, one placement of the state among cache and sources and one "
                "cache-validity outcome; the same case through drv_pool; compared: result/error class and the ordered "
                "contact list; non-trivial = at least one listed source is permitted (root: pool_scope other than 'own'); "
                "distinct by content hash; PLUS the end-to-end stream: random sequences of show/get/set/unset on the real stack "
                "SourcedStateBackend -> QCOW2ImageTransfer -> TransferOps -> image_lock over real directories (4 local pools with "
                "state files, lock files, junk; image and vm states), the model fed with the observed raw listings, contacts "
                "checked against the changes on disk")
    try:
        impl = impl or Impl()
        corpus = os.path.join(vlib.VERIF, "corpus", "C13")
        if os.path.isdir(corpus):
            import json
            for f in sorted(os.listdir(corpus)):
                run_cases(ctx, [json.load(open(os.path.join(corpus, f)))], impl)
        # the root backend: the whole space; cache validation: all small backing chains
        _run_stream(ctx, exhaustive_root(), impl)
        _run_stream(ctx, exhaustive_chain(), impl)
        _run_stream(ctx, cmp_cases(), impl)
        _run_stream(ctx, (random_chain_case(rng) for _ in range(20000 if thorough else 2000)), impl)
        # the property's quantifier, exhaustively: 16 scope subsets × all lists of <= 3 sources × placements × validity
        if thorough:
            _run_stream(ctx, exhaustive_state(BASE_KINDS + EXTRA_KINDS, 3), impl)
            _run_stream(ctx, (c for locs in lists_upto(BASE_KINDS, 4) if len(locs) == 4 for sc in scope_subsets()
                              for c in state_cases_for(locs, sc)), impl)
            ctx.extra["exhaustive"] = ("16 pool_scope subsets x all lists of <=3 sources from 9 source kinds (and all lists "
                                       "of 4 from the 5 kinds of the property) x all placements of the state x cache "
                                       "validity x {show,get,set,unset}; root backend: whole space")
        else:
            _run_stream(ctx, exhaustive_state(BASE_KINDS, 3), impl)
            _run_stream(ctx, exhaustive_state(BASE_KINDS + EXTRA_KINDS, 2), impl)
            ctx.extra["exhaustive"] = ("16 pool_scope subsets x all lists of <=3 sources from the 5 source kinds of the "
                                       "property (and all lists of <=2 from 9 kinds incl. trap kinds) x all placements of the "
                                       "state x cache validity x {show,get,set,unset}; root backend: whole space")
            trap3 = [l for l in lists_upto(BASE_KINDS + EXTRA_KINDS, 3) if len(l) == 3 and any(k in EXTRA_KINDS for k in l)]
            sample = rng.sample(trap3, 150)
            _run_stream(ctx, (c for locs in sample for sc in scope_subsets() for c in state_cases_for(locs, sc)), impl)
        n_rand, n_mal = (60000, 4000) if thorough else (6000, 600)
        _run_stream(ctx, (random_state_case(rng) for _ in range(n_rand)), impl)
        _run_stream(ctx, (malformed_state_case(rng) for _ in range(n_mal)), impl)
        _run_stream(ctx, (odd_scope_case(rng) for _ in range(n_mal)), impl)
        # end to end: the real stack down to the files and lock files of real directories (harness/poolint.py)
        import poolint
        poolint.run(ctx, 3000 if thorough else 400)
        # run.py searches only when no violation at all was seen; a listed (known) finding must not mask a new break
        if (ctx.disagreements or ctx.proof_problems) and ctx.violations and not _new_violations(ctx):
            search(ctx, "proof" if ctx.proof_problems else "correspondence", impl)
    finally:
        _cleanup()


def search(ctx, reason, impl=None):
    """a proof or the correspondence broke: hunt on the implementation with the spec oracle only, then shrink"""
    rng = ctx.rng
    try:
        impl = impl or Impl()
        streams = [exhaustive_root(), exhaustive_chain(), exhaustive_state(BASE_KINDS + EXTRA_KINDS, 2),
                   (random_state_case(rng) for _ in range(40000)), exhaustive_state(BASE_KINDS + EXTRA_KINDS, 3)]
        for gen in streams:
            buf = []
            for c in gen:
                buf.append(c)
                if len(buf) >= 5000:
                    run_cases(ctx, buf, impl, model=False, record=False)
                    buf = []
                    if _new_violations(ctx):
                        break
            if buf and not _new_violations(ctx):
                run_cases(ctx, buf, impl, model=False, record=False)
            if _new_violations(ctx):
                break
        if _new_violations(ctx):
            v = _new_violations(ctx)[0]
            v["case"] = shrink_case(v["case"], v["key"], impl)
    finally:
        _cleanup()


def shrink_case(c, key, impl):
    """fewer sources / scopes / names while the same oracle clause keeps failing"""
    if c["kind"] != "state":
        return c

    def fails(cand):
        sub = vlib.Ctx(PROP, "quick", 0)
        try:
            run_cases(sub, [cand], impl, model=False, record=False)
        except Exception:
            return False
        return any(v["key"] == key for v in sub.violations)

    def with_locs(locs):
        return dict(c, locs=locs)
    if len(c["locs"]) >= 2:
        c = with_locs(vlib.shrink_list(c["locs"], lambda l: fails(with_locs(l))))
    if len(c["scopes"]) >= 2:
        c = dict(c, scopes=vlib.shrink_list(c["scopes"], lambda s: fails(dict(c, scopes=s))))
    return c


def replay(ctx, payload, impl=None):
    try:
        if payload["case"].get("kind") == "e2e":
            import poolint
            poolint.run(ctx, 0, specs=[payload["case"]])
            return
        run_cases(ctx, [payload["case"]], impl or Impl())
    finally:
        _cleanup()
