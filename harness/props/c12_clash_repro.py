"""The `NoClash` input of the translator tie of C12 on the REAL code (development tool, not part of ./check):

    /venv/bin/python harness/props/c12_clash_repro.py

An object type that is literally called `get_state`.  `get_states` reads the state to get (`root`, through the key
`get_state_get_state`), hands it to the nested check as `check_state`, and `_state_check_chain` then writes
`state_params[<type>] = <object name>` for every component of the object, i.e. `state_params["get_state"] = "a"`.  The
tests `state_params["get_state"] in ROOTS` and the backend call that follow see `a`, not `root`: the code checks the
ROOT state and then calls `get` (of the state `a`), where the hand model (`doOne`, which keeps the value it read first)
calls `get_root`.  The generated Lean (`genGetOne`) does what the code does: `getOne_clash_witness` in Props/C12.lean.
Prints the backend calls of the real code; exits 1 if they are not the ones the witness theorem states for `genGetOne`.
"""
import os
import sys
import tempfile

CALLS = []
ROOT = {"present": True}


class _Rec:
    @classmethod
    def show(cls, params, object=None):
        CALLS.append(("show", params["object_type"], ""))
        return []

    @classmethod
    def get(cls, params, object=None):
        CALLS.append(("get", params["object_type"], params["get_state"]))

    @classmethod
    def check_root(cls, params, object=None):
        CALLS.append(("check_root", params["object_type"], ""))
        return ROOT["present"]

    @classmethod
    def get_root(cls, params, object=None):
        CALLS.append(("get_root", params["object_type"], params.get("pool_scope", "-")))

    @classmethod
    def set_root(cls, params, object=None):
        CALLS.append(("set_root", params["object_type"], params.get("pool_scope", "-")))


class _Vm:
    def destroy(self, gracefully=True):
        CALLS.append(("destroy", "", ""))


class _Env:
    def get_vm(self, name):
        return _Vm()


def main():
    os.chdir(tempfile.mkdtemp(prefix="i2n-verif-c12-clash-"))
    from virttest.utils_params import Params
    from avocado_i2n.states import setup as ss
    saved = dict(ss.BACKENDS)
    ss.BACKENDS["mem"] = type("MemR", (_Rec, ss.StateBackend), {})
    try:
        p = Params({"states_chain": "get_state", "get_state": "a", "get_state_get_state": "root", "states": "mem",
                    "vms": "vm1", "get_mode": "ra", "check_mode": "rr"})
        ss.get_states(p, _Env())
    finally:
        ss.BACKENDS.clear()
        ss.BACKENDS.update(saved)
    print("backend calls of the real get_states:", CALLS)
    want = [("check_root", "get_state", ""), ("get_root", "get_state", "-"), ("get", "get_state", "a")]
    print("genGetOne (getOne_clash_witness):    ", want)
    print("hand model doOne:                     check_root, get_root, get_root")
    return 0 if CALLS == want else 1


if __name__ == "__main__":
    sys.exit(main())
