"""Mutation sanity for C10 (development tool, not part of ./check):

    /venv/bin/python harness/props/c10_mutants.py [name-prefix ...]

For every mutant: copy ONE module of /repo to a scratch dir, apply one textual edit there, load the copy as a module of
its package (so that relative imports work), put the mutated function onto the real class and run a reduced C10
correspondence (rule, machine and verdict cases with the spec oracle).  /repo is not touched.  Reported per mutant:
model-vs-implementation disagreements and the violation keys that are not the known findings of the unmutated code.
"""
import importlib
import importlib.util
import os
import shutil
import sys
import tempfile
import time

sys.path.insert(0, os.path.dirname(os.path.dirname(os.path.abspath(__file__))))
import warnings  # noqa: E402
warnings.filterwarnings("ignore")
import logging  # noqa: E402
logging.disable(logging.WARNING)
import vlib  # noqa: E402
from props import c10  # noqa: E402

NODE = ("avocado_i2n/cartgraph/node.py", "avocado_i2n.cartgraph.node", "TestNode")
RUNNER = ("avocado_i2n/plugins/runner.py", "avocado_i2n.plugins.runner", "TestRunner")
GRAPH = ("avocado_i2n/cartgraph/graph.py", "avocado_i2n.cartgraph.graph", "TestGraph")

MUTANTS = {
    "M1 off-by-one in reruns_left": (NODE, ["should_rerun"], [
        ("reruns_left = 0 if max_tries == 1 else max_tries - total_runs",
         "reruns_left = 0 if max_tries == 1 else max_tries - total_runs + 1")]),
    "M2 swapped set difference for rerun statuses": (NODE, ["should_rerun"], [
        ("rerun_statuses_violated = {*test_statuses} - {*rerun_status}",
         "rerun_statuses_violated = {*rerun_status} - {*test_statuses}")]),
    "M3 dropped guard max_tries<0": (NODE, ["should_rerun"], [
        ("        if max_tries < 0:\n            raise ValueError(\"Number of max_tries cannot be less than zero\")\n", "")]),
    "M4 wrong scope: unfiltered results for stateful nodes": (NODE, ["should_rerun"], [
        ("test_statuses = [r[\"status\"].lower() for r in self.shared_filtered_results]",
         "test_statuses = [r[\"status\"].lower() for r in self.shared_results]")]),
    "M5 stop statuses only checked against the last result": (NODE, ["should_rerun"], [
        ("stop_statuses_found = {*stop_status} & {*test_statuses}",
         "stop_statuses_found = {*stop_status} & {*test_statuses[-1:]}")]),
    "M6 retry counter from own results only": (RUNNER, ["run_test_node"], [
        ("run_times = len(node.shared_results)", "run_times = len(node.results)")]),
    "M7 result looked up by name only": (RUNNER, ["run_test_node"], [
        ("if x[\"name\"].name == name and x[\"name\"].uid == uid", "if x[\"name\"].name == name")]),
    "M8 placeholder not removed": (RUNNER, ["run_test_node"], [
        ("                node.results.remove(node_result)\n", "")]),
    "M9 verdict: any -> all": (RUNNER, ["all_results_ok"], [
        ("shared_status &= any(", "shared_status &= all(")]),
    "M10 first-run shortcut dropped in default_run_decision": (NODE, ["default_run_decision"], [
        ("should_run = len(self.shared_results) == 0 or self.should_rerun(worker)",
         "should_run = self.should_rerun(worker)")]),
    "M11 replay guard dropped in traverse_node": (GRAPH, ["traverse_node"], [
        ("        if len(test_node.results) == 0:\n", "        if True:\n")]),
    "M12 status validation skipped for stop_status": (NODE, ["should_rerun"], [
        ("for status, status_type in [(rerun_status, \"rerun\"), (stop_status, \"stop\")]:",
         "for status, status_type in [(rerun_status, \"rerun\")]:")]),
    # revert of /repo commit 7ba7970: a failed creation pre-step leaves no trace on the object root
    "M13 revert 7ba7970 (failed pre-step not recorded)": (GRAPH, ["traverse_terminal_node"], [
        ("            test_node.results += pre_node.results[len(test_node.results) :]\n", "")]),
    # the failed attempt is recorded, but from the wrong offset (the whole copy again)
    "M14 failed pre-step recorded from offset 0": (GRAPH, ["traverse_terminal_node"], [
        ("test_node.results += pre_node.results[len(test_node.results) :]", "test_node.results += pre_node.results[0:]")]),
    # the pre-node starts from an empty result list instead of a copy
    "M15 pre-node results not copied": (GRAPH, ["traverse_terminal_node"], [
        ("pre_node.results = list(test_node.results)", "pre_node.results = []")]),
}
KNOWN = {"verdict:unreported-test-ignored", "verdict:retried-test-reported-failed"}


def load_mut(scratch, rel, modname, edits):
    src = open(os.path.join(vlib.REPO, rel)).read()
    for old, new in edits:
        assert src.count(old) == 1, (old, src.count(old))
        src = src.replace(old, new)
    path = os.path.join(scratch, modname.split(".")[-1] + "_mut.py")
    with open(path, "w") as fh:
        fh.write(src)
    spec = importlib.util.spec_from_file_location(modname + "_mut", path)
    mod = importlib.util.module_from_spec(spec)
    mod.__package__ = modname.rsplit(".", 1)[0]
    spec.loader.exec_module(mod)
    return mod


def main():
    only = sys.argv[1:]
    scratch = tempfile.mkdtemp(prefix="i2n-verif-c10m-")
    try:
        for name, ((rel, modname, cls), fns, edits) in MUTANTS.items():
            if only and not any(name.startswith(o) for o in only):
                continue
            ctx = vlib.Ctx("C10", "quick", 1)
            c10.extract(ctx)
            c10.impl()
            mod = load_mut(scratch, rel, modname, edits)
            real_cls = getattr(importlib.import_module(modname), cls)
            saved = {f: real_cls.__dict__[f] for f in fns}
            mutated = {f: getattr(mod, cls).__dict__[f] for f in fns}
            setattr(mod, cls, real_cls)      # the mutated functions' global class name means the real (seamed) class
            for f in fns:
                setattr(real_cls, f, mutated[f])
            t = time.time()
            try:
                c10.run_rule_cases(ctx, [c10.gen_rule_random(ctx.rng) for _ in range(6000)])
                c10.run_rule_cases(ctx, list(c10.gen_rule_exhaustive("quick"))[::7])
                c10.run_machine_cases(ctx, [c10.gen_machine_case(ctx.rng) for _ in range(600)])
                c10.run_verdict_cases(ctx, [c10.gen_verdict_case(ctx.rng) for _ in range(150)], suite_every=10)
            except Exception as e:      # noqa
                print("   harness exception:", type(e).__name__, str(e)[:200])
            finally:
                for f in fns:
                    setattr(real_cls, f, saved[f])
                c10.cleanup_impl()
            keys = {}
            for v in ctx.violations:
                keys[v["key"]] = keys.get(v["key"], 0) + 1
            new = {k: n for k, n in keys.items() if k not in KNOWN}
            where = ctx.disagreements[0]["where"] if ctx.disagreements else "-"
            print(f"{name}: disagreements={len(ctx.disagreements)} ({where}) new-violations={new} [{time.time() - t:.0f}s]")
    finally:
        shutil.rmtree(scratch, ignore_errors=True)


if __name__ == "__main__":
    main()
