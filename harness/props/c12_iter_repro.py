"""Reproduction of `iterObjects_unstable_witness` (Props/C12.lean) on the real `_parametric_object_iteration`
(development tool, not part of ./check):   /venv/bin/python harness/props/c12_iter_repro.py

Expected output (pinned tree):
  unstable: raised IndexError after []            (the generated recursion: indexError, nothing yielded;
                                                   the hand model iterObjects: net1/vm1, net1)
  standard: net1/vm1/image1, net1/vm1/image2, net1/vm1, net1
"""
from virttest.utils_params import Params
from avocado_i2n.states import setup as ss


def run(d):
    out = []
    try:
        for sp in ss._parametric_object_iteration(Params(d)):
            out.append((sp["object_name"], sp["object_type"]))
    except Exception as e:  # noqa
        return f"raised {type(e).__name__} after {[o[0] for o in out]}"
    return ", ".join(o[0] for o in out)


if __name__ == "__main__":
    print("unstable:", run({"nets": "net1", "vms": "vm1", "states_chain": "nets vms", "states_chain_net1": "nets"}))
    print("standard:", run({"nets": "net1", "vms": "vm1", "images_vm1": "image1 image2",
                            "states_chain": "nets vms images"}))
