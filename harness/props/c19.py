"""C19 — tunnel end point parameters mirror each other (engine E4 `net`, tunnel part).

Seam: the real `VMTunnel` (and the real `VMNode`, `VMInterface`, `VMNetconfig`) on a stub platform object
(`name`, `params`), the way selftests/isolation/test_vm_network.py builds its mock vms; netconfigs are attached
directly (no `validate()`), so that deliberately inconsistent address plans can be generated.
"""
import copy
import ipaddress
import itertools
import json
import os
import subprocess
import types

import vlib

PROP = "C19"
ENGINE = "net"
TARGETS = ["I2N.Props.C19"]          # the driver has no exe entry in the lakefile: it is run as a script
PROPS_FILE = "I2N/Props/C19.lean"
ANCHORS = {"avocado_i2n/vmnet/tunnel.py": ["VMTunnel.__init__", "VMTunnel._get_peer_variant",
                                          "VMTunnel.connects_nodes", "VMTunnel.left_params", "VMTunnel.right_params"],
           "avocado_i2n/vmnet/netconfig.py": ["VMNetconfig.has_interface", "VMNetconfig.can_add_interface",
                                             "VMNetconfig.mask_bit", "VMNetconfig._get_network_ip"],
           "avocado_i2n/vmnet/node.py": ["VMNode.check_interface"]}
TRUSTED = ["modelled, not verified: virttest.utils_params.Params.object_params on *structured* keys "
           "(stem + qualifiers); its string form (endswith/split) is modelled separately (objectParamsStr) and both "
           "are compared with the real Params on every run, the equivalence of the two for well-formed names is "
           "tested, not proved",
           "node identity (`node == self.left`) is an explicit id; IPv4 strings in connects_nodes are well-formed "
           "dotted quads (malformed addresses are outside the model)",
           "the driver is run by the Lean interpreter (`lake env lean --run Driver/Tunnel.lean`) unless a compiled "
           "drv_tunnel exists",
           "harness/pygen.py (Python AST -> Lean `do` block, fails closed) regenerates I2N/Extracted/GenTunnel.lean from "
           "the source of VMTunnel._get_peer_variant on every run; peerVariant_matches_source proves the hand written "
           "peerVariant equal to it for all dictionaries.  Trusted: that the printed `do` block means what the Python "
           "means on the translated subset (dict literals, d[\"k\"] reads raising KeyError, d[\"k\"] = e on local "
           "dictionaries, if/elif/else, ==, return of a tuple; Lean hoists the reads to the front of a statement in "
           "Python's left-to-right order; aliasing of dictionaries and reads in short-circuited positions are refused)"]

LOCALS = ["nic", "internetip", "custom"]
REMOTES = ["custom", "externalip", "modeconfig"]
PEERS = ["ip", "dynip"]
AUTHS = ["none", "pubkey", "psk"]
GEN_STEMS = ["vpnconn", "vpn_side", "vpnconn_lan_type", "vpnconn_remote_type", "vpnconn_lan_net",
             "vpnconn_lan_netmask", "vpnconn_remote_net", "vpnconn_remote_netmask", "vpnconn_remote_modeconfig_ip",
             "vpnconn_peer_type", "vpnconn_peer_ip", "vpnconn_activation", "vpnconn_key_type", "vpnconn_psk",
             "vpnconn_psk_foreign_id", "vpnconn_psk_foreign_id_type", "vpnconn_psk_own_id", "vpnconn_psk_own_id_type"]
BAD_TYPES = ["", "NIC", "Custom", "nic.", "lan", "site", "none", "extip", "internet_ip", "psk2", "dynamic", "IP",
             "nic2", "pub"]
NODE_NAMES = ["vm1", "vm2", "vm3", "vm4", "client", "server", "gw", "rw", "büro"]
TUNNEL_NAMES = ["vpn1", "vpn2", "tun", "ipsec0", "s2s", "vpn1fwd"]
EXC = ["ParamNotFound", "KeyError", "IndexError", "AttributeError", "ValueError"]

_scr = None


def scratch():
    global _scr
    if _scr is None:
        import tempfile
        _scr = tempfile.mkdtemp(prefix="i2n-verif-c19-")
    return _scr


def cleanup_scratch():
    global _scr
    if _scr:
        import shutil
        os.chdir("/")
        shutil.rmtree(_scr, ignore_errors=True)
        _scr = None


_mods = {}


def impl(tunnel_module=None):
    """the real classes; `tunnel_module` lets the mutation runs substitute a patched copy of tunnel.py"""
    os.chdir(scratch())
    if "m" not in _mods:
        from avocado_i2n.vmnet.tunnel import VMTunnel
        from avocado_i2n.vmnet.node import VMNode
        from avocado_i2n.vmnet.interface import VMInterface
        from avocado_i2n.vmnet.netconfig import VMNetconfig
        from virttest.utils_params import Params
        _mods["m"] = (VMTunnel, VMNode, VMInterface, VMNetconfig, Params)
    m = _mods["m"]
    if _mods.get("tunnel_override") is not None:
        return (_mods["tunnel_override"],) + m[1:]
    return m


def exc_name(e):
    for n in EXC:
        if type(e).__name__ == n or any(b.__name__ == n for b in type(e).__mro__):
            return n
    raise e


# ---------------------------------------------------------------------------------------------------------
# regenerated model: the source of _get_peer_variant translated to Lean (second tie, see harness/pygen.py)

def extract(ctx):
    """lean/I2N/Extracted/GenTunnel.lean from /repo's AST.  Raises (pygen.Unsupported) when the function left the
    translated subset: run.py records that as a proof problem, the theorems then stand for an earlier tree only."""
    import pygen
    if pygen.extract_tunnel(ctx):
        ctx.notes.append("I2N/Extracted/GenTunnel.lean changed: the source of VMTunnel._get_peer_variant differs from "
                         "the one the committed file was generated from (peerVariant_matches_source is re-checked)")
    ctx.extra["regenerated"] = "lean/I2N/Extracted/GenTunnel.lean (VMTunnel._get_peer_variant via harness/pygen.py)"


# ---------------------------------------------------------------------------------------------------------
# driver

def run_driver(lines, timeout=1500):
    exe = os.path.join(vlib.LEAN, ".lake", "build", "bin", "drv_tunnel")
    srcs = [os.path.join(vlib.LEAN, "Driver", "Tunnel.lean"), os.path.join(vlib.LEAN, "I2N", "Model", "Tunnel.lean")]
    if os.path.exists(exe) and all(os.path.getmtime(exe) >= os.path.getmtime(s) for s in srcs):
        cmd = [exe]
    else:
        cmd = ["lake", "env", "lean", "--run", "Driver/Tunnel.lean"]
    data = "\n".join(lines) + "\n"
    p = subprocess.run(cmd, cwd=vlib.LEAN, input=data, stdout=subprocess.PIPE, stderr=subprocess.PIPE, text=True,
                       timeout=timeout)
    if p.returncode != 0:
        raise RuntimeError(f"tunnel driver failed: {p.stderr[-500:]} {p.stdout[-300:]}")
    out = p.stdout.split("\n")
    if out and out[-1] == "":
        out.pop()
    if len(out) != len(lines):
        raise RuntimeError(f"tunnel driver: {len(lines)} operations but {len(out)} answers")
    return out


def tok(s):
    assert not any(c in s for c in " \n;=\r\t"), s
    return "=" + s


def dtok(d):
    if d is None:
        return "N"
    return " ".join(["D", str(len(d))] + [tok(k) + " " + tok(v) for k, v in d.items()])


def show(d):
    return ";".join(sorted(f"{k}={v}" for k, v in d.items()))


# ---------------------------------------------------------------------------------------------------------
# cases.  A case is JSON:  {"nodes": [{"id", "name", "params": [[stem, [quals], value]], "ifaces": [[nic, ifid, ip, mask]]}],
#   "n1": id, "n2": id, "name": tunnel name, "local"/"remote"/"peer"/"auth": dict|None, "str": bool, "clean": bool,
#   "pairs": [[ida, idb]...]}

def render(stem, quals):
    return "_".join([stem] + list(quals))


def netkey(ip, mask):
    net = ipaddress.ip_interface(f"{ip}/{mask}").network
    return (str(net.network_address), mask)


def build(case):
    """the Python objects and the driver lines of one case"""
    VMTunnel, VMNode, VMInterface, VMNetconfig, Params = impl()
    lines = ["reset"]
    registry, nodes, ifobjs = {}, {}, []
    for n in case["nodes"]:
        p = Params()
        for stem, quals, val in n["params"]:
            p[render(stem, quals)] = val
        node = VMNode(types.SimpleNamespace(name=n["name"], params=p, remote_sessions=[]))
        for nic, ifid, ip, mask in n["ifaces"]:
            iface = VMInterface(nic, Params({"mac": "00:00:00:00:00:00", "ip": ip, "netmask": mask}))
            iface.node = node
            key = netkey(ip, mask)
            if key not in registry:
                nc = VMNetconfig()
                nc.net_ip, nc.netmask = key
                registry[key] = nc
            registry[key].interfaces[ip] = iface
            iface.netconfig = registry[key]
            node.interfaces[nic] = iface
            ifobjs.append((iface, ifid))
        nodes[n["id"]] = node
    ids = {id(i): k for i, k in ifobjs}
    for n in case["nodes"]:
        lines.append(f"node {n['id']} {tok(n['name'])}")
        for stem, quals, val in n["params"]:
            lines.append(" ".join(["param", str(n["id"]), str(len(quals)), tok(stem)] + [tok(q) for q in quals] + [tok(val)]))
        for nic, ifid, ip, mask in n["ifaces"]:
            nc = nodes[n["id"]].interfaces[nic].netconfig
            mem = [f"{tok(mip)} {ids[id(mi)]}" for mip, mi in nc.interfaces.items()]
            lines.append(" ".join(["iface", str(n["id"]), tok(nic), str(ifid), tok(ip), tok(mask), tok(nc.net_ip),
                                   tok(nc.netmask), str(len(mem))] + mem))
    op = "tunnelstr" if case.get("str") else "tunnel"
    lines.append(" ".join([op, str(case["n1"]), str(case["n2"]), tok(case["name"]), dtok(case["local"]),
                           dtok(case["remote"]), dtok(case["peer"]), dtok(case["auth"])]))
    for a, b in case.get("pairs", []):
        lines.append(f"connects {a} {b}")
    return nodes, lines


def run_impl(case, nodes):
    """answers of the real code, in the driver's format, plus the raw objects for the oracle"""
    VMTunnel = impl()[0]
    n1, n2 = nodes[case["n1"]], nodes[case["n2"]]
    cp = lambda d: None if d is None else dict(d)
    answers, obs = ["ok"] * 0, {}
    try:
        t = VMTunnel(case["name"], n1, n2, cp(case["local"]), cp(case["remote"]), cp(case["peer"]), cp(case["auth"]))
    except Exception as e:
        obs["error"] = exc_name(e)
        return ["err " + obs["error"]] + ["bad-op"] * len(case.get("pairs", [])), obs
    lp, rp = dict(t.left_params), dict(t.right_params)
    net = lambda nc: "none" if nc is None else f"{nc.net_ip}/{nc.netmask}"
    answers.append(f"ok params={show(dict(t.params))} left={show(lp)} right={show(rp)} lnet={net(t.left_net)} "
                   f"rnet={net(t.right_net)} liface={t.left_iface.ip} riface={t.right_iface.ip}")
    obs.update(tunnel=t, left=lp, right=rp, conn={})
    for a, b in case.get("pairs", []):
        try:
            r = "true" if t.connects_nodes(nodes[a], nodes[b]) else "false"
        except Exception as e:
            r = "err " + exc_name(e)
        obs["conn"][(a, b)] = r
        answers.append(r)
    return answers, obs


# ---------------------------------------------------------------------------------------------------------
# the spec oracle: judges the implementation's own dictionaries (never looks at the model)

DOC_REMOTE_OF_LOCAL = {"NIC": "CUSTOM", "INTERNETIP": "EXTERNALIP", "CUSTOM": "CUSTOM"}      # __init__ docstring
DOC_LOCAL_OF_REMOTE = {"CUSTOM": "NIC", "EXTERNALIP": "INTERNETIP", "MODECONFIG": "NIC"}


def node_by_id(case, i):
    return [n for n in case["nodes"] if n["id"] == i][0]


def role_ip(node, role):
    nic = [v for s, q, v in node["params"] if s == role and not q]
    if not nic:
        return None
    ips = [ip for n, _, ip, _ in node["ifaces"] if n == nic[-1]]
    return ips[-1] if ips else None


def oracle(ctx, case, obs):
    """mirror relations on left_params/right_params of a successfully built tunnel over clean nodes"""
    lp, rp = obs["left"], obs["right"]
    lt = (case["local"] or {"type": "nic"})["type"]
    rt = (case["remote"] or {"type": "custom"})["type"]
    pt = (case["peer"] or {"type": "ip"})["type"]
    slim = {k: case[k] for k in ("nodes", "n1", "n2", "name", "local", "remote", "peer", "auth")}
    slim = dict(slim, clean=True, pairs=[])

    def bad(key, what):
        ctx.violate(key, what, slim)

    # each side's local network is the other side's remote network
    for (A, an, B, bn) in ((lp, "left", rp, "right"), (rp, "right", lp, "left")):
        for f in ("net", "netmask"):
            lan, rem = A.get("vpnconn_lan_" + f), B.get("vpnconn_remote_" + f)
            if lan != rem:
                if an == "left" and lt == "custom" and rem is None:
                    bad("custom-local-right-remote-net-missing",
                        f"local type 'custom': the left end has vpnconn_lan_{f}={lan!r} but the right end gets no "
                        f"vpnconn_remote_{f} at all (its vpnconn_remote_type is {B.get('vpnconn_remote_type')!r})")
                else:
                    bad("lan-remote-mirror", f"{an} vpnconn_lan_{f}={lan!r} but {bn} vpnconn_remote_{f}={rem!r} "
                                             f"(local={lt}, remote={rt})")
    # ground truth of the networks
    n1, n2 = node_by_id(case, case["n1"]), node_by_id(case, case["n2"])
    if lt == "nic":
        ip = role_ip(n1, (case["local"] or {}).get("nic", "lan_nic"))
        mask = [m for _, _, i, m in n1["ifaces"] if i == ip][-1]
        want = str(ipaddress.ip_interface(f"{ip}/{mask}").network.network_address)
        if lp.get("vpnconn_lan_net") != want or lp.get("vpnconn_lan_netmask") != mask:
            bad("lan-net-wrong", f"left lan net {lp.get('vpnconn_lan_net')}/{lp.get('vpnconn_lan_netmask')}, "
                                 f"the nic is in {want}/{mask}")
    if lt == "custom" and (lp.get("vpnconn_lan_net"), lp.get("vpnconn_lan_netmask")) != (case["local"]["lnet"], case["local"]["lmask"]):
        bad("lan-net-wrong", "left custom lan net is not lnet/lmask")
    if lt == "internetip" and ("vpnconn_lan_net" in lp or "vpnconn_remote_net" in rp):
        bad("point-has-net", "left point (internetip) has a lan net / right has a remote net")
    if rt in ("externalip", "modeconfig") and ("vpnconn_lan_net" in rp or "vpnconn_remote_net" in lp):
        bad("point-has-net", f"right point ({rt}) has a lan net / left has a remote net")
    if rt == "modeconfig" and lp.get("vpnconn_remote_modeconfig_ip") != case["remote"]["modeconfig_ip"]:
        bad("modeconfig-ip", "left vpnconn_remote_modeconfig_ip is not the requested one")
    # peers point at each other (the same nic role on both nodes)
    role = (case["peer"] or {}).get("nic", "internet_nic")
    ip1, ip2 = role_ip(n1, role), role_ip(n2, role)
    if rp.get("vpnconn_peer_ip") != ip1 or obs["tunnel"].left_iface.ip != ip1:
        bad("peer-ip", f"right vpnconn_peer_ip={rp.get('vpnconn_peer_ip')!r}, the left end point is {ip1}")
    if pt == "ip" and (lp.get("vpnconn_peer_ip") != ip2 or obs["tunnel"].right_iface.ip != ip2):
        bad("peer-ip", f"left vpnconn_peer_ip={lp.get('vpnconn_peer_ip')!r}, the right end point is {ip2}")
    if pt == "dynip" and ("vpnconn_peer_ip" in lp or lp.get("vpnconn_activation") != "PASSIVE"):
        bad("peer-ip", "road warrior peer: left has a fixed peer ip or is not PASSIVE")
    if rp.get("vpnconn_activation") != "ALWAYS" or (pt == "ip" and lp.get("vpnconn_activation") != "ALWAYS"):
        bad("peer-ip", "activation is not ALWAYS")
    # sides, names, key type
    if (lp.get("vpn_side"), rp.get("vpn_side")) != ("left", "right") or lp.get("vpnconn") != case["name"] \
            or rp.get("vpnconn") != case["name"]:
        bad("sides", f"vpn_side {lp.get('vpn_side')}/{rp.get('vpn_side')}, vpnconn {lp.get('vpnconn')}/{rp.get('vpnconn')}")
    at = "none" if case["auth"] is None else case["auth"]["type"]
    want_kt = {"none": "NONE", "pubkey": "PUBLIC", "psk": "PSK"}[at]
    if lp.get("vpnconn_key_type") != want_kt or rp.get("vpnconn_key_type") != want_kt:
        bad("key-type", f"key types {lp.get('vpnconn_key_type')}/{rp.get('vpnconn_key_type')} for auth {at}")
    # pre-shared-key identities are swapped
    psk_keys = ["vpnconn_psk", "vpnconn_psk_own_id", "vpnconn_psk_foreign_id", "vpnconn_psk_own_id_type",
                "vpnconn_psk_foreign_id_type"]
    if at == "psk":
        a = case["auth"]
        idt = lambda s: "IP" if s == "" else "CUSTOM"
        wantl = [a["psk"], a["left_id"], a["right_id"], idt(a["left_id"]), idt(a["right_id"])]
        wantr = [a["psk"], a["right_id"], a["left_id"], idt(a["right_id"]), idt(a["left_id"])]
        if [lp.get(k) for k in psk_keys] != wantl or [rp.get(k) for k in psk_keys] != wantr:
            bad("psk-ids", f"psk parameters left={[lp.get(k) for k in psk_keys]} right={[rp.get(k) for k in psk_keys]}")
        if lp.get("vpnconn_psk_own_id") != rp.get("vpnconn_psk_foreign_id") or \
                lp.get("vpnconn_psk_foreign_id") != rp.get("vpnconn_psk_own_id"):
            bad("psk-ids", "own/foreign ids are not swapped")
    elif any(k in lp or k in rp for k in psk_keys):
        bad("psk-ids", "psk parameters without psk authentication")
    # the right-hand configuration is the documented counterpart
    want_rr = DOC_REMOTE_OF_LOCAL[lt.upper()]
    want_rl = "CUSTOM" if (lt == "custom" and rt == "custom") else DOC_LOCAL_OF_REMOTE[rt.upper()]
    got = (lp.get("vpnconn_lan_type"), lp.get("vpnconn_remote_type"), lp.get("vpnconn_peer_type"),
           rp.get("vpnconn_lan_type"), rp.get("vpnconn_remote_type"), rp.get("vpnconn_peer_type"))
    want = (lt.upper(), rt.upper(), pt.upper(), want_rl, want_rr, "IP")
    if got != want:
        bad("counterpart", f"types (left lan/remote/peer, right lan/remote/peer) {got}, documented {want}")


def oracle_connects(ctx, case, obs):
    done = set()
    for (a, b), r in obs["conn"].items():
        if (b, a) in obs["conn"] and (b, a) not in done and a != b:
            done.add((a, b))
            r2 = obs["conn"][(b, a)]
            if r != r2:
                errs = [x for x in (r, r2) if x.startswith("err")]
                key = "connects-order-raises-" + errs[0].split()[1] if errs else "connects-order"
                c = dict(case, pairs=[[a, b], [b, a]])
                ctx.violate(key, f"connects_nodes({a},{b}) -> {r} but connects_nodes({b},{a}) -> {r2}", c)


# ---------------------------------------------------------------------------------------------------------
# generators

def gen_subnets(rng):
    subs = []
    for _ in range(rng.randint(3, 6)):
        bits = rng.choice([8, 12, 16, 16, 20, 24, 24, 24, 28, 30])
        base = rng.choice([10, 10, 172, 192, 100]) << 24 | rng.getrandbits(24)
        net = ipaddress.ip_network((base >> (32 - bits) << (32 - bits), bits))
        subs.append(net)
    return subs


def gen_ip(rng, net):
    hosts = net.num_addresses
    return str(net.network_address + rng.randint(1, max(1, hosts - 2)))


def gen_network(rng, n_nodes=None, names=None):
    """2-4 nodes with 1-3 nics each over a small pool of subnets (shared subnets are frequent)"""
    subs = gen_subnets(rng)
    n_nodes = n_nodes or rng.choice([2, 2, 3, 3, 4])
    names = names or rng.sample(NODE_NAMES, n_nodes)
    nodes, ifid = [], 0
    for k in range(n_nodes):
        roles = ["internet_nic", "lan_nic"] + (["dmz_nic"] if rng.random() < 0.3 else [])
        params, ifaces = [["vms", [], names[k]]], []
        used = set()
        # the role -> nic name mapping is per vm: some guests name or order their nics differently
        nicnames = [f"b{j + 1}" for j in range(len(roles))]
        r = rng.random()
        if r < 0.25:
            rng.shuffle(nicnames)
        elif r < 0.35:
            nicnames = [f"e{j}" for j in range(len(roles))]
        for j, role in enumerate(roles):
            nic = nicnames[j]
            params.append([role, [], nic])
            net = rng.choice(subs)
            ip = gen_ip(rng, net)
            while ip in used:
                ip = gen_ip(rng, rng.choice(subs))
            used.add(ip)
            mask = str(net.netmask)
            if rng.random() < 0.1:           # an interface configured with another mask than its neighbours
                mask = str(ipaddress.ip_network((0, rng.choice([8, 16, 24]))).netmask)
            ifid += 1
            ifaces.append([nic, ifid, ip, mask])
        nodes.append({"id": k + 1, "name": names[k], "params": params, "ifaces": ifaces})
    return nodes, subs


def gen_custom(rng, nodes, subs):
    """lnet/lmask/rnet/rmask: fresh nets, nets of existing nics (same or wider mask)"""
    def one():
        r = rng.random()
        if r < 0.35:
            net = rng.choice(gen_subnets(rng))
        elif r < 0.7:
            net = rng.choice(subs)
        else:
            net = rng.choice(subs)
            net = net.supernet(new_prefix=rng.choice([p for p in (8, 12, 16, 20, 24) if p <= net.prefixlen] or [net.prefixlen]))
        return str(net.network_address), str(net.netmask)
    (ln, lm), (rn, rm) = one(), one()
    return {"lnet": ln, "lmask": lm, "rnet": rn, "rmask": rm}


def mk_conf(rng, lt, rt, pt, at, nodes, subs, explicit_nics=True):
    local = {"type": lt}
    if lt == "nic":
        local["nic"] = rng.choice(["lan_nic", "lan_nic", "internet_nic"])
    if lt == "custom":
        local.update(gen_custom(rng, nodes, subs))
    remote = {"type": rt}
    if rt == "custom":
        remote["nic"] = rng.choice(["lan_nic", "lan_nic", "internet_nic"])
    if rt == "modeconfig":
        remote["modeconfig_ip"] = f"172.30.{rng.randint(0, 255)}.{rng.randint(1, 254)}"
    peer = {"type": pt, "nic": rng.choice(["internet_nic", "internet_nic", "lan_nic"])}
    if at == "none":
        auth = None
    elif at == "pubkey":
        auth = {"type": "pubkey"}
    else:
        auth = {"type": "psk", "psk": rng.choice(["secret", "s3cr3t", "x"]),
                "left_id": rng.choice(["", "arnold@vm1", "left"]), "right_id": rng.choice(["", "arnold@vm2", "left"])}
    return local, remote, peer, auth


def all_pairs(nodes):
    ids = [n["id"] for n in nodes]
    return [[a, b] for a in ids for b in ids]


def gen_case(rng, combo, clean=True, odd=False):
    lt, rt, pt, at = combo
    nodes, subs = gen_network(rng)
    n1, n2 = rng.sample([n["id"] for n in nodes], 2)
    local, remote, peer, auth = mk_conf(rng, lt, rt, pt, at, nodes, subs)
    name = rng.choice(TUNNEL_NAMES)
    case = {"nodes": nodes, "n1": n1, "n2": n2, "name": name, "local": local, "remote": remote, "peer": peer,
            "auth": auth, "str": False, "clean": clean, "pairs": all_pairs(nodes)}
    if not clean:
        # node parameters that overwrite generated ones (documented: "used as overwrite dictionary")
        for n in nodes:
            for _ in range(rng.randint(1, 3)):
                stem = rng.choice(GEN_STEMS)
                # (a repeated qualifier such as [name, name] is outside the structured-key boundary: the real
                # split("_"+obj)[0] cuts at the FIRST occurrence; it is generated in the odd-names stream only)
                quals = rng.choice([[], [name], [name, n["name"]], [n["name"]]] + ([[name, name]] if odd else []))
                n["params"].append([stem, quals, rng.choice(["OVR", "1.2.3.0", "CUSTOM", "NIC"])])
    return case


WITNESS_CONNECTS = {
    "nodes": [{"id": 1, "name": "vm1", "params": [["internet_nic", [], "b1"], ["lan_nic", [], "b2"]],
               "ifaces": [["b1", 11, "10.1.0.1", "255.255.0.0"], ["b2", 12, "172.17.0.1", "255.255.0.0"]]},
              {"id": 2, "name": "vm2", "params": [["internet_nic", [], "b1"], ["lan_nic", [], "b2"]],
               "ifaces": [["b1", 21, "10.2.0.1", "255.255.0.0"], ["b2", 22, "172.18.0.1", "255.255.0.0"]]}],
    "n1": 1, "n2": 2, "name": "vpn1",
    "local": {"type": "custom", "lnet": "10.0.0.0", "lmask": "255.0.0.0", "rnet": "192.168.0.0", "rmask": "255.255.255.0"},
    "remote": {"type": "custom", "nic": "lan_nic"}, "peer": {"type": "ip", "nic": "internet_nic"}, "auth": None,
    "str": False, "clean": True, "pairs": [[1, 2], [2, 1]]}


def gen_bad_types(rng):
    """unsupported type strings in one or several of the four positions (the others valid and complete)"""
    out = []
    for pos in range(4):
        for bad in BAD_TYPES:
            combo = [rng.choice(LOCALS), rng.choice(REMOTES), rng.choice(PEERS), rng.choice(["pubkey", "psk"])]
            c = gen_case(rng, combo)
            c["pairs"] = []
            d = [c["local"], c["remote"], c["peer"], c["auth"]][pos]
            d["type"] = bad
            # keep the nic keys so that _get_peer_variant itself does not fail on a missing key
            c["local"].setdefault("nic", "lan_nic")
            c["remote"].setdefault("nic", "lan_nic")
            c["bad"] = [pos]
            out.append(c)
    for _ in range(40):
        combo = [rng.choice(LOCALS), rng.choice(REMOTES), rng.choice(PEERS), rng.choice(["pubkey", "psk"])]
        c = gen_case(rng, combo)
        c["pairs"] = []
        c["local"].setdefault("nic", "lan_nic")
        c["remote"].setdefault("nic", "lan_nic")
        poss = sorted(rng.sample(range(4), rng.randint(2, 4)))
        for pos in poss:
            [c["local"], c["remote"], c["peer"], c["auth"]][pos]["type"] = rng.choice(BAD_TYPES)
        c["bad"] = poss
        out.append(c)
    return out


def gen_malformed(rng):
    """missing dictionary keys / missing roles / missing nics, None arguments: only the raised class is compared"""
    combo = [rng.choice(LOCALS), rng.choice(REMOTES), rng.choice(PEERS), rng.choice(AUTHS)]
    c = gen_case(rng, combo, clean=rng.random() < 0.7)
    c["clean"] = False           # never judged by the oracle
    for _ in range(rng.randint(1, 2)):
        r = rng.random()
        if r < 0.45:
            d = rng.choice([x for x in (c["local"], c["remote"], c["peer"], c["auth"]) if x])
            d.pop(rng.choice(list(d)), None)
        elif r < 0.6:
            k = rng.choice(["local", "remote", "peer", "auth"])
            c[k] = None
        elif r < 0.8:
            n = rng.choice(c["nodes"])
            n["params"] = [p for p in n["params"] if p[0] != rng.choice(["internet_nic", "lan_nic"])]
        else:
            n = rng.choice(c["nodes"])
            if len(n["ifaces"]) > 1:
                n["ifaces"].pop(rng.randrange(len(n["ifaces"])))
    if rng.random() < 0.3 and c["auth"] is not None:
        c["auth"]["type"] = rng.choice(["none", "psk", "pubkey", "x"])
    return c


ODD_NAMES = ["vm_1", "a_b", "lan", "net", "type", "ip", "vpn", "v", "vp", "x", "vm1", "vm11", "vm", "1", "psk", "id",
             "own_id", "vpn1", "vpn1_vm1", "_", "a_", "_a", "vm1vm2", "key", "side", "nic", "conn"]


def gen_odd_names(rng):
    """names outside the well-formed boundary (underscores, names equal to each other / to words of the keys / prefixes
    of each other): the *string* object_params of the model is compared with the real Params"""
    combo = [rng.choice(LOCALS), rng.choice(REMOTES), rng.choice(PEERS), rng.choice(AUTHS)]
    c = gen_case(rng, combo, clean=rng.random() < 0.6, odd=True)
    c["clean"] = False
    c["str"] = True
    c["pairs"] = []
    names = [rng.choice(ODD_NAMES) for _ in c["nodes"]]
    if rng.random() < 0.7:              # node objects keep distinct names most of the time
        while len(set(names)) < len(names):
            names = [rng.choice(ODD_NAMES) for _ in c["nodes"]]
    old = {n["name"]: nn for n, nn in zip(c["nodes"], names)}
    for n in c["nodes"]:
        n["params"] = [[s, [old.get(x, x) for x in q], v] for s, q, v in n["params"]]
        n["name"] = old[n["name"]]
    newname = rng.choice(ODD_NAMES)
    for n in c["nodes"]:
        n["params"] = [[s, [newname if x == c["name"] else x for x in q], v] for s, q, v in n["params"]]
    c["name"] = newname
    return c


# ---------------------------------------------------------------------------------------------------------
# execution

def run_cases(ctx, cases, judge=True):
    """impl + model on the same cases; compares the answer lines; applies the oracle to clean, successful cases"""
    all_lines, expect = [], []
    for ci, case in enumerate(cases):
        nodes, lines = build(case)
        ans, obs = run_impl(case, nodes)
        n_setup = len(lines) - 1 - len(case.get("pairs", []))
        all_lines += lines
        expect += [(ci, "setup", "ok")] * n_setup + [(ci, "tunnel", ans[0])] + \
                  [(ci, "connects", a) for a in ans[1:]]
        lt = (case["local"] or {}).get("type", "?")
        rt = (case["remote"] or {}).get("type", "?")
        pt = (case["peer"] or {}).get("type", "?")
        at = "none" if case["auth"] is None else case["auth"].get("type", "?")
        if "error" in obs:
            ctx.count("raised." + obs["error"])
            if case.get("bad") is not None and judge and obs["error"] != "ValueError":
                ctx.violate("unsupported-type-not-valueerror",
                            f"unsupported type at position(s) {case['bad']} raised {obs['error']}", case)
        else:
            ctx.count("built")
            if case.get("bad") is not None and judge:
                ctx.violate("unsupported-type-accepted", f"unsupported type at position(s) {case['bad']} accepted", case)
            for r in obs["conn"].values():
                ctx.count("connects." + r.replace(" ", "-"))
            if judge and case.get("clean") and not case.get("str"):
                ctx.count(f"judged.{lt}.{rt}.{pt}.{at}")
                oracle(ctx, case, obs)
            if judge and case.get("clean"):
                oracle_connects(ctx, case, obs)
        kind = "odd-names" if case.get("str") else ("bad-type" if case.get("bad") is not None else
                                                    ("clean" if case.get("clean") else "overrides/malformed"))
        ctx.count("kind." + kind)
        ctx.case({"kind": kind, "types": [lt, rt, pt, at], "name": case["name"],
                  "nodes": [[n["name"], [i[2] + "/" + i[3] for i in n["ifaces"]]] for n in case["nodes"]],
                  "ends": [case["n1"], case["n2"]], "local": case["local"], "n_pairs": len(case.get("pairs", []))},
                 nontrivial="error" not in obs or case.get("bad") is not None)
    out = run_driver(all_lines)
    seen = set()
    for (ci, op, want), got in zip(expect, out):
        if op == "connects" and want == "bad-op":
            continue
        if want != got and ci not in seen:
            seen.add(ci)
            if len(seen) <= 5:
                ctx.disagree(f"tunnel:{op}", cases[ci], diff(got, want), diff(want, got))


def diff(a, b):
    """the part of answer a that is not in answer b (answers are long)"""
    if not a.startswith("ok") or not b.startswith("ok"):
        return a[:300]
    sa, sb = a.split(" "), b.split(" ")
    out = []
    for x, y in zip(sa, sb):
        if x != y and "=" in x:
            f, _, body = x.partition("=")
            ys = set(y.partition("=")[2].split(";"))
            out.append(f + ": " + ";".join(e for e in body.split(";") if e not in ys)[:400])
    return " | ".join(out)[:1500]


def product():
    return list(itertools.product(LOCALS, REMOTES, PEERS, AUTHS))


def correspondence(ctx):
    rng = ctx.rng
    thorough = ctx.tier == "thorough" or ctx.extra.get("drift")
    per_combo = 400 if thorough else 20
    ctx.rule = ("one case = one random network (2-4 real VMNode objects with 1-3 real VMInterface/VMNetconfig each on a "
                "stub platform), one VMTunnel constructed between two of its nodes from a (local, remote, peer, auth) "
                "configuration, and connects_nodes for every ordered pair of nodes; the Lean model is run on the same "
                "input and params / left_params / right_params (sorted key=value), left/right net, end point "
                "interfaces, the raised exception class and every connects_nodes answer are compared; non-trivial = "
                "the tunnel was built (or an unsupported type was rejected); distinct by content hash")
    ctx.extra["exhaustive"] = "type product local{nic,internetip,custom} x remote{custom,externalip,modeconfig} x " \
                              "peer{ip,dynip} x auth{none,pubkey,psk} = 54 combinations, each x %d node pairs" % per_combo
    try:
        corpus = os.path.join(vlib.VERIF, "corpus", "C19")
        if os.path.isdir(corpus):
            for f in sorted(os.listdir(corpus)):
                replay(ctx, {"case": json.load(open(os.path.join(corpus, f)))})
        run_cases(ctx, [copy.deepcopy(WITNESS_CONNECTS)])
        cases = []
        for combo in product():
            for _ in range(per_combo):
                cases.append(gen_case(rng, combo, clean=True))
        for combo in product():
            for _ in range(max(2, per_combo // 10)):
                cases.append(gen_case(rng, combo, clean=False))
        cases += gen_bad_types(rng)
        for _ in range(3000 if thorough else 300):
            cases.append(gen_malformed(rng))
        for _ in range(3000 if thorough else 300):
            cases.append(gen_odd_names(rng))
        # every fifth well-formed case also through the string object_params (bridge structured <-> string keys)
        for c in [c for i, c in enumerate(cases) if i % 5 == 0 and not c.get("str") and c.get("bad") is None][:2000]:
            c2 = copy.deepcopy(c)
            c2["str"], c2["pairs"] = True, []
            cases.append(c2)
        for i in range(0, len(cases), 1500):
            run_cases(ctx, cases[i:i + 1500])
    finally:
        cleanup_scratch()


def search(ctx, reason):
    """proof or correspondence broke: bigger sample judged by the spec oracle only, then shrink the node list"""
    rng = ctx.rng
    try:
        cases = [gen_case(rng, combo, clean=True) for combo in product() for _ in range(60)] + gen_bad_types(rng)
        sub = vlib.Ctx(ctx.prop, ctx.tier, ctx.seed)
        for case in cases:
            nodes, _ = build(case)
            _, obs = run_impl(case, nodes)
            if "error" in obs:
                if case.get("bad") is not None and obs["error"] != "ValueError":
                    sub.violate("unsupported-type-not-valueerror", f"raised {obs['error']}", case)
            else:
                if case.get("bad") is not None:
                    sub.violate("unsupported-type-accepted", "unsupported type accepted", case)
                else:
                    oracle(sub, case, obs)
                    oracle_connects(sub, case, obs)
        kf = {(f["property"], f["key"]) for f in vlib.known_findings().get("findings", [])}
        for v in sub.violations:
            if (ctx.prop, v["key"]) in kf and any(w["key"] == v["key"] for w in ctx.violations):
                continue
            c = v["case"]
            keep = {c["n1"], c["n2"]} | {x for p in c.get("pairs", []) for x in p}

            def fails(ns, c=c, key=v["key"]):
                s2 = vlib.Ctx(ctx.prop, ctx.tier, ctx.seed)
                c2 = dict(c, nodes=ns)
                if not keep <= {n["id"] for n in ns}:
                    return False
                try:
                    nodes, _ = build(c2)
                    _, obs = run_impl(c2, nodes)
                    if "error" in obs:
                        return False
                    oracle(s2, c2, obs) if not c2.get("pairs") else oracle_connects(s2, c2, obs)
                except Exception:
                    return False
                return any(w["key"] == key for w in s2.violations)
            if c.get("bad") is None:
                c["nodes"] = vlib.shrink_list(c["nodes"], fails)
            ctx.violations.append(v)
    finally:
        cleanup_scratch()


def replay(ctx, payload):
    try:
        c = copy.deepcopy(payload["case"])
        c.setdefault("pairs", [])
        c.setdefault("clean", True)
        c["pairs"] = [list(p) for p in c["pairs"]]
        run_cases(ctx, [c])
    finally:
        if ctx.tier and not ctx.rule:
            cleanup_scratch()
