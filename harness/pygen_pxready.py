"""pygen_pxready — translator tie (see harness/pygen.py) for the per-node readiness, drop, pick and location functions of
avocado_i2n/cartgraph/node.py:

    TestNode.is_setup_ready / is_cleanup_ready      -> genIsSetupReady / genIsCleanupReady
    TestNode.drop_parent / drop_child               -> genDropParent / genDropChild
    TestNode.pick_parent / pick_child               -> genPickParent / genPickChild
    TestNode.shared_result_worker_ids               -> genSharedResultWorkerIds      (GenLoc.lean, C08)

`extract_ready(ctx)` regenerates lean/I2N/Extracted/GenReady.lean from /repo's CURRENT source (the environment variable
PYGEN_NODE_SRC names another file for mutation sanity runs); it is called by `extract(ctx)` of harness/props/c02.py.
The equality theorems `isSetupReady_matches_source`, … are in lean/I2N/Props/C02.lean.

Atom tables (trusted, see the docstring of pygen.py).  A node is a `Nat` (its index in the graph), a worker likewise:
  self.setup_nodes / self.cleanup_nodes      the keys of the dictionary in insertion order = `(g.node n).setup.map (·.1)`
  node.is_flat()                             `(g.node p).flat`
  worker.id in node.params['name']           `g.idIn w p`   (the substring test, as the model has it)
  worker.id in self._dropped_setup_nodes.get_workers(node)
                                             `w` is among `regWorkers droppedSetup (some (cls p))` of the class of `self`
                                             (EdgeRegister keyed by bridged form = the class; the registers of bridged
                                             copies are one object)
  <register>.register(node, worker)          `regAdd` on that register under the key (class of node, worker)
  <register>.get_counters()                  `regTotal`
"""
import os
import sys

sys.path.insert(0, os.path.dirname(os.path.abspath(__file__)))
import pygen  # noqa: E402
from pygen import Spec  # noqa: E402

NODE = "avocado_i2n/cartgraph/node.py"

NODES = ("list", "Nat")


def _ready_spec(which):
    """`which` = "setup" | "cleanup" """
    return Spec(
        "genIs" + which.capitalize() + "Ready",
        binders=[(which, "List Nat"), ("flat", "Nat → Bool"), ("idIn", "Nat → Bool"), ("dropped", "Nat → Bool")],
        params={"worker": None}, ret="bool", monad="pure",
        atoms={f"self.{which}_nodes": (which, NODES),
               "node.is_flat()": ("(flat node)", "bool"),
               "worker.id in node.params['name']": ("(idIn node)", "bool"),
               f"worker.id in self._dropped_{which}_nodes.get_workers(node)": ("(dropped node)", "bool")},
        doc=f"`TestNode.is_{which}_ready` of avocado_i2n/cartgraph/node.py.  `{which}` = `self.{which}_nodes` (in "
            f"dictionary order), `flat p` = `p.is_flat()`, `idIn p` = `worker.id in p.params[\"name\"]`, `dropped p` = "
            f"`worker.id in self._dropped_{which}_nodes.get_workers(p)`")


READY_PRELUDE = [
    "/-- `<register>.register(node, worker)` on one of the four edge registers of the class of `self` (bridged copies",
    "share the register objects); `key` = (class of `node`, worker).  The exception layer is OUTSIDE the state: what was",
    "registered before a `raise` stays registered, as in Python -/",
    "abbrev RegM := ExceptT String (StateM ClassRegs)",
    "def registerDroppedSetup (key : Nat × Nat) : RegM Unit :=",
    "  modify (fun r => { r with droppedSetup := regAdd r.droppedSetup key })",
    "def registerDroppedCleanup (key : Nat × Nat) : RegM Unit :=",
    "  modify (fun r => { r with droppedCleanup := regAdd r.droppedCleanup key })",
]


def _drop_spec(which, first=False):
    """`which` = "parent" | "child" """
    side = {"parent": "setup", "child": "cleanup"}[which]
    return Spec(
        "genDrop" + which.capitalize(),
        binders=[("isNeighbour", "Bool"), ("key", "Nat × Nat")],
        params={"test_node": None, "worker": None}, ret="unit", monad="RegM",
        atoms={f"test_node in self.{side}_nodes": ("isNeighbour", "bool")},
        calls={f"self._dropped_{side}_nodes.register(_1, _2)":
               (f"registerDropped{side.capitalize()} key", "unit", "action", ["_", "_"])},
        raises=[("ValueError", f"Invalid {which} to drop", '"ValueError"')],
        prelude=READY_PRELUDE if first else (),
        doc=f"`TestNode.drop_{which}` of avocado_i2n/cartgraph/node.py.  `isNeighbour` = `test_node in self.{side}_nodes`, "
            f"`key` = (class of `test_node`, `worker`); the state is the four registers of the class of `self`")


PICK_PRELUDE = [
    "/-- Python's `sorted(l, key=…)` for natural-number keys: stable, ascending (the insertion sort of the model) -/",
    "def sortedByKey (key : Nat → Nat) (l : List Nat) : List Nat := stableSort (fun a b => decide (key a ≤ key b)) l",
    "",
    "/-- `test_node._picked_by_<side>_nodes.register(self, worker)`: the register object belongs to the class of the picked",
    "node (bridged copies share it); `key` = (class of `self`, worker) -/",
    "abbrev PickM := ExceptT String (StateM State)",
    "def registerPickedByCleanup (g : Graph) (p : Nat) (key : Nat × Nat) : PickM Unit :=",
    "  modify (fun s => s.setCr (g.node p).cls (fun r => { r with pickedByCleanup := regAdd r.pickedByCleanup key }))",
    "def registerPickedBySetup (g : Graph) (p : Nat) (key : Nat × Nat) : PickM Unit :=",
    "  modify (fun s => s.setCr (g.node p).cls (fun r => { r with pickedBySetup := regAdd r.pickedBySetup key }))",
]

PRIORITY_SORT = ("sorted(_1, key=cmp_to_key(lambda x, y: TestNode.prefix_priority(x.long_prefix, y.long_prefix)))")


def _pick_spec(which, first=False):
    """`which` = "parent" | "child" """
    side, other = {"parent": ("setup", "cleanup"), "child": ("cleanup", "setup")}[which]
    return Spec(
        "genPick" + which.capitalize(),
        binders=[("g", "Graph"), (side, "List Nat"), ("flat", "Nat → Bool"), ("idIn", "Nat → Bool"),
                 ("dropped", "Nat → Bool"), ("picks", "Nat → Nat"), ("rank", "Nat → Nat"), ("key", "Nat × Nat")],
        params={"worker": None}, ret="Nat", monad="PickM",
        atoms={f"self.{side}_nodes": (side, NODES),
               "n.is_flat()": ("(flat n)", "bool"),
               "worker.id in n.params['name']": ("(idIn n)", "bool"),
               f"worker.id in self._dropped_{side}_nodes.get_workers(n)": ("(dropped n)", "bool")},
        calls={PRIORITY_SORT: ("(sortedByKey rank {1})", NODES, "pure", [NODES]),
               f"sorted(_1, key=lambda n: n._picked_by_{other}_nodes.get_counters())":
                   ("(sortedByKey picks {1})", NODES, "pure", [NODES]),
               "sorted(_1, key=lambda n: int(not n.is_flat()))":
                   ("(sortedByKey (fun n => if flat n then 0 else 1) {1})", NODES, "pure", [NODES])},
        stmts={f"test_node._picked_by_{other}_nodes.register(self, worker)":
               f"registerPickedBy{other.capitalize()} g test_node key"},
        raises=[("RuntimeError", f"Picked a {which} of a node without remaining", '"RuntimeError"')],
        index_error='"IndexError"',
        prelude=PICK_PRELUDE if first else (),
        doc=f"`TestNode.pick_{which}` of avocado_i2n/cartgraph/node.py.  `{side}` = `self.{side}_nodes` (dictionary order), "
            f"`flat p` = `p.is_flat()`, `idIn p` = `worker.id in p.params[\"name\"]`, `dropped p` = `worker.id in "
            f"self._dropped_{side}_nodes.get_workers(p)`, `picks p` = `p._picked_by_{other}_nodes.get_counters()` (read "
            f"before the only write, the last statement), `rank p` = the position of `p.long_prefix` in the order of "
            f"`prefix_priority` (an atom, exported as ranks), `key` = (class of `self`, `worker`)")


WORKER_IDS = "[w.id for s in TestSwarm.run_swarms.values() for w in s.workers]"

RESULT_IDS_SPEC = Spec(
    "genSharedResultWorkerIds",
    binders=[("shared", "List Result"), ("workerIds", "List String")],
    params={}, ret="sset", monad="pure",
    atoms={"self.shared_results": ("shared", ("list", "Result")),
           WORKER_IDS: ("workerIds", "slist")},
    fields={("Result", "['status']"): ("{0}.status", "str"), ("Result", "['name']"): ("{0}.name", "str")},
    local_types={"workers": "sset"}, prims={"substr": "strIn"},
    doc="`TestNode.shared_result_worker_ids` of avocado_i2n/cartgraph/node.py.  `shared` = `self.shared_results`, "
        "`workerIds` = the ids of all workers of `TestSwarm.run_swarms` in swarm / worker order; the result is a SET: the "
        "list stands for its elements (order and repetitions mean nothing)")


def loc_source(path=None):
    path = path or pygen._src("PYGEN_NODE_SRC", NODE)
    defs = [pygen.generate(path, "TestNode.shared_result_worker_ids", RESULT_IDS_SPEC)]
    return pygen.render_file("harness/pygen_pxready.py:extract_loc (called by harness/props/c08.py:extract) from "
                             "avocado_i2n/cartgraph/node.py", ["I2N.Model.Trav"], "I2N.Extracted.GenLoc", ["I2N.Trav"],
                             defs)


def extract_loc(ctx=None):
    return pygen.write_if_changed(pygen._lean_path("GenLoc.lean"), loc_source())


def ready_source(path=None):
    path = path or pygen._src("PYGEN_NODE_SRC", NODE)
    defs = [pygen.generate(path, "TestNode.is_setup_ready", _ready_spec("setup")),
            pygen.generate(path, "TestNode.is_cleanup_ready", _ready_spec("cleanup")),
            pygen.generate(path, "TestNode.drop_parent", _drop_spec("parent", first=True)),
            pygen.generate(path, "TestNode.drop_child", _drop_spec("child")),
            pygen.generate(path, "TestNode.pick_parent", _pick_spec("parent", first=True)),
            pygen.generate(path, "TestNode.pick_child", _pick_spec("child"))]
    return pygen.render_file("harness/pygen_pxready.py:extract_ready (called by harness/props/c02.py:extract) from "
                             "avocado_i2n/cartgraph/node.py", ["I2N.Model.Trav"], "I2N.Extracted.GenReady", ["I2N.Trav"],
                             defs)


def extract_ready(ctx=None):
    return pygen.write_if_changed(pygen._lean_path("GenReady.lean"), ready_source())


SOURCES = {"ready": ready_source, "loc": loc_source}

if __name__ == "__main__":
    for name in sys.argv[1:] or list(SOURCES):
        print(SOURCES[name]())
