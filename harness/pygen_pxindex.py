"""Translator ties (harness/pygen.py) for the small container / loop code of the engines `index` (C16) and `show` (C17).

C16  `EdgeRegister.register`, `get_counters`, `get_workers` of avocado_i2n/cartgraph/node.py
     -> lean/I2N/Extracted/GenIndex.lean (`genRegister`, `genGetCounters`, `genGetWorkers`), proved equal to the hand
        model of lean/I2N/Model/Index.lean through the adapter `flat` in lean/I2N/Props/C16.lean
        (`register_matches_source`, `getCounters_matches_source`, `getWorkers_matches_source`, `source_counters_exact`).

The registry (`self._registry`, a dict of dicts keyed by `node.bridged_form` / `worker.id`) is an insertion ordered
association list of association lists (lean/I2N/Lemmas/PyDict.lean: `keys`, `getD`, `get?`, `set`).

Atom table of the two readers (pure functions of the registry `reg` and the optional arguments):
  node, worker                        -> `node.isSome`, `worker.isSome`   (truthiness of an optional TestNode / TestWorker:
                                         neither class defines `__bool__` / `__len__`, so only `None` is false)
  node.bridged_form, worker.id        -> `node.getD ""`, `worker.getD ""` (the KEY of the argument; only evaluated by the
                                         code on the branch on which the argument is not None — a mutant that evaluates
                                         it for None changes the generated definition and the equality fails)
  self._registry.keys()               -> `keys reg`
  self._registry.get(_1, {}).keys()   -> `keys (getD reg _1 [])`          (call template: the default `{}` is part of the key)
  self._registry.get(_1, {}).get(_2, _3) -> `getD (getD reg _1 []) _2 _3` (the default `0` is TRANSLATED, not pinned)
Everything else — the counter / set initialisation, the conditional choice of the key lists, both loops, `+=`, `|=`,
the returns — is translated.

`register` lives in `StateT PyReg (Except PyErr)`: the two membership tests and the `if`s are translated
(`self._registry` -> its keys, `self._registry[node.bridged_form]` -> the inner keys or KeyError), the three
subscript stores are single statements pinned verbatim (`spec.stmts`) to the actions `setInnerEmpty`, `setCount … 0`,
`addCount … 1` of PyDict.lean; a changed constant or target in one of them makes the translation refuse.
"""
import ast
import os

import pygen
from pygen import Spec, Unsupported

NODE_PY = "avocado_i2n/cartgraph/node.py"

_READ_ATOMS = {
    "node": ("node.isSome", "bool"),
    "worker": ("worker.isSome", "bool"),
    "node.bridged_form": ('(node.getD "")', "str"),
    "worker.id": ('(worker.getD "")', "str"),
    "self._registry.keys()": ("(keys reg)", "slist"),
}
_READ_CALLS = {
    "self._registry.get(_1, {}).keys()": ("(keys (getD reg {1} []))", "slist", "pure", ("str",)),
    "self._registry.get(_1, {}).get(_2, _3)": ("(getD (getD reg {1} []) {2} {3})", "int", "pure", ("str", "str", "int")),
}


def index_specs():
    get_workers = Spec(
        "genGetWorkers", binders=[("reg", "PyReg"), ("node", "Option String")], params={"node": None}, ret="sset",
        monad="pure", atoms={k: v for k, v in _READ_ATOMS.items() if not k.startswith("worker")},
        calls={k: v for k, v in _READ_CALLS.items() if k.endswith(".keys()")},
        doc="`EdgeRegister.get_workers` of avocado_i2n/cartgraph/node.py, translated statement by statement (a Python set "
            "is a list of which only membership is observed; `reg` = `self._registry`, `node` = the key of the optional "
            "argument)")
    get_counters = Spec(
        "genGetCounters", binders=[("reg", "PyReg"), ("node", "Option String"), ("worker", "Option String")],
        params={"node": None, "worker": None}, ret="int", monad="pure", atoms=dict(_READ_ATOMS), calls=dict(_READ_CALLS),
        doc="`EdgeRegister.get_counters` of avocado_i2n/cartgraph/node.py, translated statement by statement")
    register = Spec(
        "genRegister", binders=[("node", "String"), ("worker", "String")], params={"node": None, "worker": None},
        ret="unit", monad="RegM",
        atoms={"node.bridged_form": ("node", "str"), "worker.id": ("worker", "str"),
               "self._registry": ("regKeys", "slist", "reads"),
               "self._registry[node.bridged_form]": ("innerKeys node", "slist", "raises")},
        stmts={"self._registry[node.bridged_form] = {}": "setInnerEmpty node",
               "self._registry[node.bridged_form][worker.id] = 0": "setCount node worker 0",
               "self._registry[node.bridged_form][worker.id] += 1": "addCount node worker 1"},
        doc="`EdgeRegister.register` of avocado_i2n/cartgraph/node.py: the two membership tests are translated, the three "
            "subscript stores are pinned to the actions of I2N/Lemmas/PyDict.lean")
    return [("EdgeRegister.get_workers", get_workers), ("EdgeRegister.get_counters", get_counters),
            ("EdgeRegister.register", register)]


def index_source(path=None):
    path = path or pygen._src("PYGEN_NODE_SRC", NODE_PY)
    defs = [pygen.generate(path, q, s) for q, s in index_specs()]
    return pygen.render_file("harness/pygen_pxindex.py:extract_index (called by harness/props/c16.py:extract) from "
                             + NODE_PY, ["I2N.Lemmas.PyDict"], "I2N.Extracted.GenIndex", ["I2N.PyDict"], defs)


def extract_index(ctx=None):
    return pygen.write_if_changed(pygen._lean_path("GenIndex.lean"), index_source())


# ---------------------------------------------------------------------------------------------------------------------
# C17: the combination loops of QCOW2VTBackend.show and RamfileBackend._show

QCOW2_PY = "avocado_i2n/states/qcow2.py"
RAMFILE_PY = "avocado_i2n/states/ramfile.py"
NAMES = ("list", "Name")


def show_specs():
    """Atom table of both loops: `params.objects('images')` -> `images` (the image names, in order); the per-image
    listing `super().show(image_params, object=object)` / `cls.image_state_backend.show(image_params, object=object)`
    with `image_params = params.object_params(image_name)` substituted -> `imageStates image_name`; the statement
    `image_params["images"] = image_name` is pinned to the empty action (it prepares the argument of the listing call:
    its meaning is inside that atom).  Translated: `states = None`, the loop, the `is None` test with both branches
    (`list(…)` / the comprehension with its membership test; `set(…)` / `.intersection(…)`), the `None -> []` / `set()`
    fallback behind the loop."""
    vt = Spec(
        "genVtShow", binders=[("images", "List Name"), ("imageStates", "Name → List Name")],
        params={"params": None, "object": None}, ret=NAMES, monad="pure",
        atoms={"params.objects('images')": ("images", NAMES),
               "super().show(params.object_params(image_name), object=object)": ("(imageStates image_name)", NAMES)},
        stmts={"image_params['images'] = image_name": ""}, local_types={"states": ("opt", NAMES)},
        type_defaults={"Name": "[]"},
        doc="`QCOW2VTBackend.show` of avocado_i2n/states/qcow2.py from `states = None` to its return, translated statement by statement (`images` = "
            "`params.objects('images')`, `imageStates i` = what `super().show` lists for image `i`)")
    ram = Spec(
        "genRamImagesStates", binders=[("images", "List Name"), ("imageStates", "Name → List Name")],
        params={"params": None, "object": None}, ret=("opt", ("set", "Name")), monad="pure",
        atoms={"params.objects('images')": ("images", NAMES),
               "cls.image_state_backend.show(params.object_params(image_name), object=object)":
                   ("(imageStates image_name)", NAMES)},
        stmts={"image_params['images'] = image_name": ""}, local_types={"images_states": ("opt", ("set", "Name"))},
        type_defaults={"Name": "[]"},
        doc="the combination part of `RamfileBackend._show` of avocado_i2n/states/ramfile.py (from `images_states = None` to "
            "the `None -> set()` fallback; the value of `images_states` behind it), translated statement by statement; a "
            "Python set is a list of which only membership is observed")
    return vt, ram


def _slice(path, qualname, var, to_end=False):
    """the statements of `qualname` from `<var> = None` up to (and including) the last top-level statement in front of
    the next one that does not mention `var` in a store position … precisely: from `<var> = None` to the last top-level
    statement that ASSIGNS `var`; as a function with the same parameters that returns `var`.  Fails closed."""
    tree = ast.parse(open(path).read(), filename=path)
    fn = pygen.find_function(tree, qualname)
    body = fn.body

    def assigns(st):
        return any(isinstance(x, ast.Name) and isinstance(x.ctx, ast.Store) and x.id == var for x in ast.walk(st))
    starts = [i for i, st in enumerate(body) if isinstance(st, ast.Assign) and len(st.targets) == 1
              and isinstance(st.targets[0], ast.Name) and st.targets[0].id == var
              and isinstance(st.value, ast.Constant) and st.value.value is None]
    if len(starts) != 1:
        raise Unsupported(f"{qualname}: `{var} = None` occurs {len(starts)} times at the top level")
    last = max(i for i, st in enumerate(body) if assigns(st))
    for st in body[:starts[0]]:
        if assigns(st):
            raise Unsupported(f"{qualname}: {var!r} is assigned in front of `{var} = None`")
    import copy
    new = copy.deepcopy(fn)
    new.decorator_list = []
    if to_end:                                              # … or to the end of the function (its own return)
        new.body = copy.deepcopy(body[starts[0]:])
    else:
        new.body = copy.deepcopy(body[starts[0]:last + 1]) + [ast.Return(value=ast.Name(id=var, ctx=ast.Load()))]
    ast.fix_missing_locations(new)
    # the rest of the function may only READ the variable
    return new, pygen.module_constants(tree)


def show_source(qcow2_path=None, ramfile_path=None):
    qcow2_path = qcow2_path or pygen._src("C17_QCOW2_SRC", QCOW2_PY)
    ramfile_path = ramfile_path or pygen._src("C17_RAMFILE_SRC", RAMFILE_PY)
    vt, ram = show_specs()
    fn, consts = _slice(qcow2_path, "QCOW2VTBackend.show", "states", to_end=True)   # (in front: one log call)
    d1 = pygen.translate(fn, vt, consts)
    fn, consts = _slice(ramfile_path, "RamfileBackend._show", "images_states")
    d2 = pygen.translate(fn, ram, consts)
    return pygen.render_file("harness/pygen_pxindex.py:extract_show (called by harness/props/c17.py:extract) from "
                             + QCOW2_PY + " and " + RAMFILE_PY, ["I2N.Model.Show"], "I2N.Extracted.GenShow", ["I2N.Show"],
                             [d1, d2])


def extract_show(ctx=None):
    return pygen.write_if_changed(pygen._lean_path("GenShow.lean"), show_source())


SOURCES = {"index": index_source, "show": show_source}

if __name__ == "__main__":
    import sys
    for name in sys.argv[1:] or list(SOURCES):
        print(SOURCES[name](), end="")
