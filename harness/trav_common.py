"""Shared correspondence of the traversal family (C01–C05, C08, C02, trace parts of C10): one case = one synthetic
graph + configuration + schedule + initial pools; the REAL traversal runs under virtual time, its event stream is
(a) compared block by block with the Lean model `drv_trav` and (b) judged by the verified monitors."""
import json
import multiprocessing
import os
import random
import tempfile
import time

import travlib
import vlib

PROFILES = ["mixed", "converge", "cleanup", "faulty"]
REPLAY_MONITORS = ("count", "attempt", "overlap", "uid")


def _class_info(spec, cls_idx_line):
    return cls_idx_line


def substring_ids(spec):
    """worker ids of which one is a substring of another (net1 / net11): the code identifies a worker's copies by
    `worker.id in name`, so a worker then acts on another worker's copies (finding F4) - outside the hypothesis
    `OwnerNames` of the theorems; such cases are judged by the monitors, and compared with the model where the model is
    known to follow the code (`model_covers_substring_case`)"""
    ids = [w["id"].split(".")[-1] for w in spec["workers"]] + [w["id"] for w in spec["workers"]]
    return any(a != b and a in b for a in ids for b in ids if not b.endswith("." + a))


def model_covers_substring_case(spec, res):
    """substring-id cases the Lean model is REQUIRED to reproduce block by block (a disagreement there is reported like any
    other): the pinned corpus cases - pre-parsed graphs without object roots, in which the only effect of a worker acting on a
    foreign copy is that its state requests and the states its test produces go to the pool of the copy's own worker
    (`Graph.netOf`).  Generated streams contain no substring ids; for other substring cases (replays, future corpus entries
    with object roots or lazy expansion) the comparison stays informative only - see design.d/C08.md for the three mechanisms
    the model does not follow yet."""
    ident = res.get("ident") or ()
    return (len(ident) > 0 and ident[0] == "corpus" and not spec.get("lazy") and not spec.get("parsed")
            and not any(c.get("root_of") for c in spec.get("classes", [])))


def classify(monitor, item, spec, res):
    """stable key of a monitor violation: <monitor>[:<feature>...] — features name the call site / input class"""
    cfg = spec["cfg"]
    if monitor == "attempt":
        # creation attempts (failed pre-steps included) are judged like executions; same input classes as `count`
        key = classify("count", item, spec, res)
        return key if key in ("count:mct>max_tries", "count:object-root-creation-hidden-from-retry-budget",
                              "count:worker-id-substring-of-another") else "attempt" + key[len("count"):]
    if substring_ids(spec):
        return monitor + ":worker-id-substring-of-another"
    feats = []
    cls = None
    parts = item.split("/")
    for p in parts:
        if p.startswith("class") and p[5:].isdigit():
            cls = int(p[5:])
    cname = res.get("class_names", {}).get(str(cls)) if cls is not None else None
    cdef = next((c for c in spec.get("classes", []) if c["name"] == cname), None)
    if monitor in ("overlap", "count"):
        mt = int(cfg.get("max_tries", 2 if cfg.get("replay") else 1) or 1)
        mct = cfg.get("max_concurrent_tries")
        if mct is not None and int(mct) > max(mt, 1) and monitor == "count":
            return "count:mct>max_tries"
        is_root = (cdef is not None and cdef.get("root_of")) or "o" in res.get("class_flags", {}).get(str(cls), "")
        if monitor == "count" and is_root and mt > 1:
            return "count:object-root-creation-hidden-from-retry-budget"
        if is_root:
            feats.append("object-root")
        if cdef is not None and cdef.get("set"):
            feats.append("stateful")
        if mt > 1:
            feats.append("retries")
        if mct is not None:
            feats.append(f"mct={mct}")
    elif monitor == "states":
        # where is the state at the end of the run?  (peer-own-only is the signature of F5)
        vmst = parts[-1]
        scope = cfg.get("pool_scope", "").split()
        removers = [w for w in res.get("unset_by", {}).get(vmst, []) if w != parts[0]]
        if (spec.get("lazy") or spec.get("lazyparsed")) and removers:
            # lazily expanded graph: the producing worker removed the (removable) state before the worker of the dependant
            # had picked the producer - involvement in a node is registered when it is picked, not when a dependant is expanded
            feats.append("lazy-expansion-state-removed-before-the-dependant-worker-picked-its-producer")
        elif removers and any(c.get("exclude") for c in spec.get("classes", [])):
            # pre-parsed graph with worker-asymmetric copies: the dependant exists for one worker only, the worker without it
            # removed the state before the other one picked the producer
            feats.append("pre-parsed-state-removed-before-the-dependant-worker-picked-its-producer")
        elif res.get("initial_peer_only", {}).get(vmst):
            feats.append("state-initially-only-in-a-peer-own-pool")
        elif spec["workers"][0]["spawner"] != "lxc" and "swarm" not in scope:
            feats.append("non-lxc-workers-share-although-swarm-scope-disabled")
        else:
            feats.append("other")
    elif monitor == "owner":
        feats.append(parts[-1].split(":")[0])
    elif monitor == "cleanup":
        feats.append(parts[1].split(":")[0])
        swarm = {w["id"]: w["swarm"] for w in spec["workers"]}
        if parts[-1] in swarm and swarm.get(parts[0]) != swarm.get(parts[-1]):
            feats.append("cross-swarm")
    elif monitor == "result":
        feats.append(item.split(":")[0])
        if item.startswith("raise"):
            feats.append(item.split(":")[-1])
    return ":".join([monitor] + feats)


def _one(args):
    seed, idx, profile, monitors, scratch = args
    import logging
    import warnings
    warnings.filterwarnings("ignore")
    logging.disable(logging.CRITICAL)
    os.chdir(scratch)
    rng = random.Random(seed * 1000003 + idx)
    spec = travlib.gen_spec(rng, profile)
    if rng.random() < 0.3 and not any(c.get("exclude") for c in spec["classes"]) and profile != "replay":
        # flat leaves expanded on demand during the traversal (monitors only, see DESIGN.md 11.2); not combined with
        # worker-asymmetric copies: the harness's stand-in for the lazy parser does not emulate incompatible workers
        spec["lazy"] = True
    return _run_spec(spec, monitors, (seed, idx, profile))


def _one_parsed(args):
    seed, idx, monitors, scratch = args[:4]
    import logging
    import warnings
    warnings.filterwarnings("ignore")
    logging.disable(logging.CRITICAL)
    os.chdir(scratch)
    os.environ["HOME"] = scratch
    import travparsed
    rng = random.Random(seed * 7000003 + idx)
    spec = travparsed.gen_parsed_spec(rng, idx)
    if len(args) > 4 and args[4]:
        spec["lazyparsed"] = True     # flat tests expanded by the REAL parser during the traversal
    return _run_spec(spec, monitors, (seed, idx, "lazyparsed" if spec.get("lazyparsed") else "parsed"))


def _run_spec(spec, monitors, ident):
    t0 = time.time()
    try:
        run_cls = None
        if spec.get("parsed"):
            import travparsed
            run_cls = travparsed.LazyParsedRun if spec.get("lazyparsed") else travparsed.ParsedRun
        res = travlib.run_case(spec, vlib.driver, monitors=monitors, run_cls=run_cls)
    except Exception as e:  # harness problem, not a verdict
        import traceback
        return {"ident": ident, "error": traceback.format_exc()[-1500:], "spec": spec}
    res["ident"] = ident
    res["wall"] = time.time() - t0
    res["spec"] = spec
    # helper facts for classification
    own_only = {}
    pool = spec.get("pool", {})
    for loc, sts in pool.items():
        if loc == "shared":
            continue
        for vm, st in sts:
            if [vm, st] not in pool.get("shared", []) or "shared" not in spec["cfg"].get("pool_scope", "").split():
                own_only[f"{vm}:{st}"] = True
    res["initial_peer_only"] = own_only
    return res


def family_run(ctx, monitors, n_cases, profiles=PROFILES, procs=14, corpus=None, label="trav", seed_offset=0, n_parsed=0,
               n_lazyparsed=0):
    scratch = ctx.mkscratch()
    # every 16th case: a timeout budget above 10 000 s with one legitimately long test the other workers wait for ("longwait")
    # ... and every 16th case replays a previous job (monitors only: replay is not in the traversal model)
    jobs = [(ctx.seed + seed_offset, i, "longwait" if i % 16 == 15 else "replay" if i % 16 == 7 else profiles[i % len(profiles)],
             monitors, scratch) for i in range(n_cases)]
    results = []
    # corpus of minimised past cases first
    if corpus and os.path.isdir(corpus):
        for f in sorted(os.listdir(corpus)):
            if f.endswith(".json"):
                os.chdir(scratch)
                results.append(_run_spec(json.load(open(os.path.join(corpus, f)))["spec"], monitors, ("corpus", f, "")))
    import travparsed
    if n_parsed:
        n_parsed = max(n_parsed, len(travparsed.SELECTIONS))     # every shipped-suite selection at least once per run
    pjobs = [(ctx.seed + seed_offset, i, monitors, scratch) for i in range(n_parsed)]
    # lazily parsed runs: the selections rotate with the seed
    # (the mixed-set selection is expanded lazily in every run: one node must serve both of its roles)
    nsel = len(travparsed.SELECTIONS)
    lazy_idx = ([travparsed.MIXED_SETS, travparsed.RESTRICTED_WORKER, travparsed.PARTLY_INCOMPATIBLE,
                 travparsed.PARTLY_INCOMPATIBLE + nsel,         # the same with a skewed schedule (first worker slow)
                 travparsed.MIXED_SETS_4, travparsed.MIXED_SETS_4 + nsel] if n_lazyparsed else []) + \
               [5 * (ctx.seed + seed_offset) + 3 * i for i in range(max(0, n_lazyparsed - 1))]
    pjobs += [(ctx.seed + seed_offset, i, monitors, scratch, True) for i in lazy_idx]
    with multiprocessing.get_context("fork").Pool(procs) as pool:
        pending = pool.imap_unordered(_one_parsed, pjobs, chunksize=1)     # the slow ones first
        for r in pool.imap_unordered(_one, jobs, chunksize=2):
            results.append(r)
        for r in pending:
            results.append(r)
    judge(ctx, results, monitors, label)
    return results


def judge(ctx, results, monitors, label="trav"):
    ctx.extra["max_picks_between_events"] = max([ctx.extra.get("max_picks_between_events", 0)] +
                                                [r.get("spin_seen", 0) for r in results if "error" not in r])
    for r in results:
        if "error" in r:
            raise RuntimeError(f"traversal harness failed on case {r['ident']}: {r['error']}")
        spec = r["spec"]
        if spec.get("lazyparsed"):
            ctx.count("graph=shipped-suite-expanded-lazily-by-the-real-parser")
            for name, want, got in r.get("lazy_vs_eager", []):
                ctx.violate("lazy-expansion-differs-from-eager-parse", f"{name}: eager parents {want}, lazily expanded parents {got}",
                            {"kind": label, "spec": spec, "monitor": "lazy_vs_eager", "item": name})
        if spec.get("parsed"):
            ctx.count("graph=parsed-shipped-suite")
            ctx.count("parsed:" + spec["parsed"]["tests_str"].replace("\n", ";") + " nets=" + spec["parsed"]["nets"])
        else:
            ctx.count("graph=synthetic")
        case = {"kind": label, "ident": list(r["ident"]), "workers": [w["id"] for w in spec["workers"]],
                "cfg": spec["cfg"], "classes": len(spec.get("classes", [])), "executions": r["n_exec"],
                "statuses": r["statuses"]}
        ctx.case(case, nontrivial=r["n_exec"] > 2)
        ctx.count(f"workers={len(spec['workers'])}")
        ctx.count(f"spawner={spec['workers'][0]['spawner']}")
        ctx.count("scope=" + ("full" if len(spec["cfg"].get("pool_scope", "").split()) == 4 else "narrowed"))
        ctx.count("retries" if int(spec["cfg"].get("max_tries", 1) or 1) > 1 else "no-retries")
        ctx.count("initial-pool" if spec.get("pool") else "empty-pool")
        ctx.count("lazy-expansion" if spec.get("lazy") else "pre-parsed")
        for k in ("sleep", "door"):
            if r["kinds"].get(k):
                ctx.count(f"runs-with-{k}")
        for st in r["statuses"]:
            ctx.count(f"status={st}")
        if r["kinds"].get("raise"):
            ctx.count("runs-with-raise")
        ctx.count("executions", r["n_exec"])
        replayed = bool(spec.get("previous_by_class") or spec["cfg"].get("replay"))
        if replayed:
            # replay of a previous job is not in the traversal model (stated gap; the retry RULES under replay are C10's):
            # no model comparison, and only the monitors whose meaning does not depend on what the previous job did
            ctx.count("replayed-job")
            r = dict(r, disagree=None, mon={k: v for k, v in r["mon"].items() if k in REPLAY_MONITORS})
        if substring_ids(spec) and not r["disagree"]:
            ctx.count("model-agrees:worker-id-substring-of-another")
        if r["disagree"] and substring_ids(spec) and not model_covers_substring_case(spec, r):
            # the residue of the former blanket skip (design.d/C08.md, "worker ids that are substrings of one another"): the
            # model now sends state requests to the pool of the copy's own worker, as the code does; it does not yet follow a
            # worker that creates an object on a foreign object root, the retry suffix two concurrent executions of ONE copy
            # leave in its prefix, or the parse-order tie-break between copies of a class during lazy expansion
            ctx.count("model-comparison-skipped:worker-id-substring-of-another")
        elif r["disagree"]:
            # (no exemption for `spec["monitors_only"]` any more: the mixed-set lazy cases that carried it are reproduced by the
            # model since the `edgeCode` repair - also when an old payload with the marking is replayed)
            ctx.disagree(f"trace#{r['ident']}:block{r['disagree']['block']}", {"spec": spec, "ident": list(r["ident"])},
                         r["disagree"]["model"], r["disagree"]["impl"])
        if "owner" in monitors:
            for what in r.get("excluded_runs", [])[:3]:
                ctx.violate("owner:excluded-by-worker-restriction", what,
                            {"kind": label, "spec": spec, "monitor": "owner", "item": what})
            for what in r.get("foreign_sessions", [])[:2]:
                ctx.violate("owner:session-of-another-worker" if not substring_ids(spec) else
                            "owner:worker-id-substring-of-another", what,
                            {"kind": label, "spec": spec, "monitor": "owner", "item": what})
        for m in monitors:
            v = r["mon"].get(m, "ok")
            if v != "ok":
                for item in v.split(" ; ")[:6]:
                    key = classify(m, item, spec, r)
                    ctx.violate(key, f"monitor {m}: {item}", {"kind": label, "spec": spec, "monitor": m, "item": item})


def replay_case(ctx, payload, monitors):
    os.chdir(ctx.mkscratch())
    r = _run_spec(payload["case"]["spec"], monitors, ("replay", 0, ""))
    judge(ctx, [r], monitors)


def shrink_spec(spec, still_fails):
    """greedy shrinking of a failing spec: drop leaf classes, workers, schedule entries, pool entries"""
    import copy
    cur = copy.deepcopy(spec)
    changed = True
    while changed:
        changed = False
        # classes without dependants
        for c in list(cur["classes"]):
            used = any([c["name"], vm] in (d.get("parents") or []) for d in cur["classes"] for vm in d["objs"])
            if used:
                continue
            cand = copy.deepcopy(cur)
            cand["classes"] = [d for d in cand["classes"] if d["name"] != c["name"]]
            if any(d.get("leaf") or not d.get("root_of") for d in cand["classes"]) and still_fails(cand):
                cur, changed = cand, True
                break
        if changed:
            continue
        if len(cur["workers"]) > 1:
            for w in list(cur["workers"]):
                cand = copy.deepcopy(cur)
                cand["workers"] = [x for x in cand["workers"] if x["id"] != w["id"]]
                cand["schedule"].pop(w["id"], None)
                cand["pool"].pop(w["id"], None)
                if still_fails(cand):
                    cur, changed = cand, True
                    break
        if changed:
            continue
        for loc in list(cur.get("pool", {})):
            for x in list(cur["pool"][loc]):
                cand = copy.deepcopy(cur)
                cand["pool"][loc].remove(x)
                if not cand["pool"][loc]:
                    del cand["pool"][loc]
                if still_fails(cand):
                    cur, changed = cand, True
                    break
            if changed:
                break
    return cur
