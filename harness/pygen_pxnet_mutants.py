"""Mutation sanity for the regenerated model of harness/pygen_pxnet.py (development tool, not part of ./check).

    /venv/bin/python harness/pygen_pxnet_mutants.py [NAME ...]

Same procedure as harness/pygen_mutants.py: every mutant is a copy of avocado_i2n/vmnet/netconfig.py with ONE small
textual edit (/repo is not touched); the translator is run on the copy, the generated Lean file is written in place of
the committed one and the Props file is built.  Expected: the translator refuses (`refused`) or an equality theorem
no longer compiles (`proof-breaks`).  At the end the generated file is restored from the real source and rebuilt.
"""
import json
import os
import shutil
import sys
import tempfile

HERE = os.path.dirname(os.path.abspath(__file__))
sys.path.insert(0, HERE)
import pygen  # noqa: E402
import pygen_pxnet  # noqa: E402
import vlib  # noqa: E402

N = "avocado_i2n/vmnet/netconfig.py"

ALLOC = ('        for val in self.range:\n'
         '            if self.range[val] is False:\n'
         '                self.range[val] = True\n'
         '                new_address = val\n'
         '                break\n'
         '        else:\n'
         '            raise IndexError("IP address range (%d) exhausted." % len(self.range))\n'
         '        net_ip = ipaddress.IPv4Address(str(self.net_ip))\n'
         '        return str(ipaddress.IPv4Address(str(net_ip + new_address)))\n')
HAS = ('            interface.ip in self.interfaces.keys()\n'
       '            and self.interfaces[interface.ip] == interface\n')
CAN_TEST = ('            interface_net_ip == self.net_ip\n'
            '            and interface.params["netmask"] != self.netmask\n')
CAN_RET = '        return interface_net_ip == self.net_ip\n'
CAN_HAS = '        if self.has_interface(interface):\n'
ADD = ('        self.interfaces[interface.ip] = interface\n'
       '        self.interfaces[interface.ip].netconfig = self\n'
       '        self.validate()\n')
TR_PART = '        source_part = int(source_ip) - int(ipaddress.IPv4Address(str(self.net_ip)))\n'
TR_SUM = '        translated_ip = ipaddress.IPv4Address(source_part + target_part)\n'
TR_TARGET = '        target_part = int(target_iface.network.network_address)\n'
MB_LOOP = '                binary_str += bin(int(octet))[2:].zfill(8)\n'
MB_RET = '            return str(len(binary_str.rstrip("0")))\n'

# name: ([(old, new)], expectation, what)
MUTANTS = {
    # ---- get_allocatable_address (allocate_matches_source)
    "alloc-no-mark": ([(ALLOC, ALLOC.replace('                self.range[val] = True\n', ''))], "refused",
                      "the address handed out is not marked as taken (M1 of the differential table)"),
    "alloc-test-inverted": ([(ALLOC, ALLOC.replace('is False', 'is True'))], "refused",
                            "the search looks for a TAKEN offset (the test is no longer the declared atom)"),
    "alloc-no-break": ([(ALLOC, ALLOC.replace('                break\n', ''))], "refused",
                       "the LAST free offset is handed out and all are marked"),
    "alloc-keyerror": ([(ALLOC, ALLOC.replace('raise IndexError', 'raise KeyError'))], "proof-breaks",
                       "exhaustion raises another exception"),
    "alloc-off-by-one": ([(ALLOC, ALLOC.replace('net_ip + new_address', 'net_ip + new_address + 1'))], "proof-breaks",
                         "the address after the free one is returned"),
    "alloc-mark-after": ([(ALLOC, ALLOC.replace('                self.range[val] = True\n                new_address = val\n',
                                                '                new_address = val\n').replace(
                                                    '        net_ip = ipaddress', '        self.range[new_address + 1] = True\n        net_ip = ipaddress'))],
                         "refused", "the NEXT offset is marked instead of the one handed out"),
    "alloc-else-returns": ([(ALLOC, ALLOC.replace('            raise IndexError("IP address range (%d) exhausted." % len(self.range))\n',
                                                  '            new_address = 0\n'))], "refused",
                           "an exhausted range silently hands out the network address"),
    # ---- has_interface / can_add_interface / add_interface
    "has-and-to-or": ([(HAS, HAS.replace('            and self', '            or self'))], "proof-breaks",
                      "has_interface: `and` -> `or` (KeyError for a missing address, True for a foreign object)"),
    "has-key-only": ([(HAS, '            interface.ip in self.interfaces.keys()\n')], "proof-breaks",
                     "has_interface: the identity test is dropped (same address = same interface)"),
    "has-ne": ([(HAS, HAS.replace('== interface', '!= interface'))], "proof-breaks",
               "has_interface: identity test inverted"),
    "can-drop-netmask-guard": ([(CAN_TEST, '            interface_net_ip == self.net_ip and False\n')], "proof-breaks",
                               "can_add_interface: the netmask misconfiguration is never reported (M3)"),
    "can-netmask-eq": ([(CAN_TEST, CAN_TEST.replace('!= self.netmask', '== self.netmask'))], "proof-breaks",
                       "can_add_interface: raises for EQUAL netmasks"),
    "can-and-to-or": ([(CAN_TEST, CAN_TEST.replace('            and interface', '            or interface'))], "proof-breaks",
                      "can_add_interface: `and` -> `or` in the misconfiguration test"),
    "can-return-ne": ([(CAN_RET, '        return interface_net_ip != self.net_ip\n')], "proof-breaks",
                      "can_add_interface: answers True for foreign subnets"),
    "can-no-has-check": ([(CAN_HAS, '        if False:\n')], "proof-breaks",
                         "can_add_interface: an interface that is already present is accepted again"),
    "can-tests-reordered": ([(CAN_HAS, '        if self.has_interface(interface) and interface.params["netmask"] == self.netmask:\n')],
                            "proof-breaks", "can_add_interface: the presence test depends on the netmask"),
    "add-validate-first": ([(ADD, '        self.validate()\n' + ADD.replace('        self.validate()\n', ''))], "proof-breaks",
                           "add_interface validates BEFORE the interface is stored"),
    "add-no-backref": ([(ADD, ADD.replace('        self.interfaces[interface.ip].netconfig = self\n', ''))], "refused",
                       "add_interface does not set interface.netconfig"),
    # ---- translate_address (translate_matches_source)
    "tr-operands-swapped": ([(TR_PART, '        source_part = int(ipaddress.IPv4Address(str(self.net_ip))) - int(source_ip)\n')],
                            "proof-breaks", "the host offset is negated"),
    "tr-minus-target": ([(TR_SUM, TR_SUM.replace('source_part + target_part', 'source_part - target_part'))], "proof-breaks",
                        "the target network is subtracted"),
    "tr-target-ip": ([(TR_TARGET, '        target_part = int(target_iface.ip)\n')], "refused",
                     "the NAT address itself instead of its network address (M2)"),
    "tr-off-by-one": ([(TR_SUM, TR_SUM.replace('source_part + target_part', 'source_part + target_part + 1'))], "proof-breaks",
                      "off by one in the translated address"),
    # ---- mask_bit (maskBit_matches_source)
    "mb-bit-length": ([(MB_RET, '            return str(int("".join(binary_str), 2).bit_length())\n')], "refused",
                      "seeded regression: the prefix length computed via bit_length()"),
    "mb-bit-length-2": ([(MB_LOOP, '                binary_str += bin(int(octet))[2:]\n'),
                         (MB_RET, '            return str(int(binary_str, 2).bit_length() - len(binary_str) + len(binary_str.rstrip("0")))\n')],
                        "refused", "bit_length() variant that keeps the loop"),
    "mb-zfill-7": ([(MB_LOOP, MB_LOOP.replace('zfill(8)', 'zfill(7)'))], "proof-breaks",
                   "octets below 64 are expanded to 7 digits"),
    "mb-no-zfill": ([(MB_LOOP, '                binary_str += bin(int(octet))[2:]\n')], "refused",
                    "no padding (equal on contiguous masks only: the differential table lists it as equivalent)"),
    "mb-lstrip": ([(MB_RET, MB_RET.replace('rstrip', 'lstrip'))], "refused", "leading zeros stripped"),
    "mb-count-ones": ([(MB_RET, '            return str(len(binary_str.replace("0", "")))\n')], "refused",
                      "the number of one bits (equal on contiguous masks)"),
    "mb-strip-per-octet": ([(MB_LOOP, '                binary_str += bin(int(octet))[2:].zfill(8).rstrip("0")\n')], "proof-breaks",
                           "rstrip per octet (equal on contiguous masks)"),
}

GEN, PROPS = "GenNet.lean", ["I2N.Props.C18"]


def run_one(name, scratch):
    edits, expect, what = MUTANTS[name]
    src = os.path.join(vlib.REPO, N)
    text = open(src).read()
    for old, new in edits:
        if text.count(old) != 1:
            raise RuntimeError(f"{name}: the text to edit occurs {text.count(old)} times in {src}")
        text = text.replace(old, new)
    dst = os.path.join(scratch, name + "_netconfig.py")
    with open(dst, "w") as fh:
        fh.write(text)
    res = {"mutant": name, "what": what, "expected": expect}
    try:
        lean = pygen_pxnet.net_source(dst)
    except pygen.Unsupported as e:
        res.update(outcome="refused", detail=str(e)[:200])
        return res
    with open(os.path.join(vlib.LEAN, "I2N", "Extracted", GEN), "w") as fh:
        fh.write(lean)
    ok, log = vlib.lake_build(PROPS)
    errs = [l for l in log.splitlines() if l.startswith("error:")]
    res.update(outcome="still-proves" if ok else "proof-breaks", detail=(errs[0][:200] if errs else ""))
    return res


def restore():
    pygen.write_if_changed(pygen._lean_path(GEN), pygen_pxnet.net_source())
    ok, log = vlib.lake_build(PROPS)
    if not ok:
        raise RuntimeError("the restored generated file does not build: " + log[-500:])


def main():
    names = sys.argv[1:] or list(MUTANTS)
    scratch = tempfile.mkdtemp(prefix="i2n-verif-pygen-")
    out = []
    try:
        for n in names:
            r = run_one(n, scratch)
            r["as_expected"] = r["outcome"] == r["expected"]
            out.append(r)
            print(json.dumps(r), flush=True)
    finally:
        shutil.rmtree(scratch, ignore_errors=True)
        restore()
    bad = [r["mutant"] for r in out if not r["as_expected"]]
    print(f"{len(out)} mutants, {len(out) - len(bad)} as expected" + (f", NOT as expected: {bad}" if bad else ""))
    return 1 if bad else 0


if __name__ == "__main__":
    sys.exit(main())
