"""Mutation sanity for the regenerated model of harness/pygen_pxnet.py (development tool, not part of ./check).

    /venv/bin/python harness/pygen_pxnet_mutants.py [NAME ...]

Same procedure as harness/pygen_mutants.py: every mutant is a copy of avocado_i2n/vmnet/netconfig.py (or network.py) with ONE small
textual edit (/repo is not touched); the translator is run on the copy, the generated Lean file is written in place of
the committed one and the Props file is built.  Expected: the translator refuses (`refused`) or an equality theorem
no longer compiles (`proof-breaks`).  At the end the generated file is restored from the real source and rebuilt.
"""
import json
import os
import shutil
import sys
import tempfile

HERE = os.path.dirname(os.path.abspath(__file__))
sys.path.insert(0, HERE)
import pygen  # noqa: E402
import pygen_pxnet  # noqa: E402
import vlib  # noqa: E402

N = "avocado_i2n/vmnet/netconfig.py"

ALLOC = ('        for val in self.range:\n'
         '            if self.range[val] is False:\n'
         '                self.range[val] = True\n'
         '                new_address = val\n'
         '                break\n'
         '        else:\n'
         '            raise IndexError("IP address range (%d) exhausted." % len(self.range))\n'
         '        net_ip = ipaddress.IPv4Address(str(self.net_ip))\n'
         '        return str(ipaddress.IPv4Address(str(net_ip + new_address)))\n')
HAS = ('            interface.ip in self.interfaces.keys()\n'
       '            and self.interfaces[interface.ip] == interface\n')
CAN_TEST = ('            interface_net_ip == self.net_ip\n'
            '            and interface.params["netmask"] != self.netmask\n')
CAN_RET = '        return interface_net_ip == self.net_ip\n'
CAN_HAS = '        if self.has_interface(interface):\n'
ADD = ('        self.interfaces[interface.ip] = interface\n'
       '        self.interfaces[interface.ip].netconfig = self\n'
       '        self.validate()\n')
TR_PART = '        source_part = int(source_ip) - int(ipaddress.IPv4Address(str(self.net_ip)))\n'
TR_SUM = '        translated_ip = ipaddress.IPv4Address(source_part + target_part)\n'
TR_TARGET = '        target_part = int(target_iface.network.network_address)\n'
MB_LOOP = '                binary_str += bin(int(octet))[2:].zfill(8)\n'
MB_RET = '            return str(len(binary_str.rstrip("0")))\n'

# name: ([(old, new)], expectation, what)
MUTANTS = {
    # ---- get_allocatable_address (allocate_matches_source)
    "alloc-no-mark": ([(ALLOC, ALLOC.replace('                self.range[val] = True\n', ''))], "refused",
                      "the address handed out is not marked as taken (M1 of the differential table)"),
    "alloc-test-inverted": ([(ALLOC, ALLOC.replace('is False', 'is True'))], "refused",
                            "the search looks for a TAKEN offset (the test is no longer the declared atom)"),
    "alloc-no-break": ([(ALLOC, ALLOC.replace('                break\n', ''))], "refused",
                       "the LAST free offset is handed out and all are marked"),
    "alloc-keyerror": ([(ALLOC, ALLOC.replace('raise IndexError', 'raise KeyError'))], "proof-breaks",
                       "exhaustion raises another exception"),
    "alloc-off-by-one": ([(ALLOC, ALLOC.replace('net_ip + new_address', 'net_ip + new_address + 1'))], "proof-breaks",
                         "the address after the free one is returned"),
    "alloc-mark-after": ([(ALLOC, ALLOC.replace('                self.range[val] = True\n                new_address = val\n',
                                                '                new_address = val\n').replace(
                                                    '        net_ip = ipaddress', '        self.range[new_address + 1] = True\n        net_ip = ipaddress'))],
                         "refused", "the NEXT offset is marked instead of the one handed out"),
    "alloc-else-returns": ([(ALLOC, ALLOC.replace('            raise IndexError("IP address range (%d) exhausted." % len(self.range))\n',
                                                  '            new_address = 0\n'))], "refused",
                           "an exhausted range silently hands out the network address"),
    # ---- has_interface / can_add_interface / add_interface
    "has-and-to-or": ([(HAS, HAS.replace('            and self', '            or self'))], "proof-breaks",
                      "has_interface: `and` -> `or` (KeyError for a missing address, True for a foreign object)"),
    "has-key-only": ([(HAS, '            interface.ip in self.interfaces.keys()\n')], "proof-breaks",
                     "has_interface: the identity test is dropped (same address = same interface)"),
    "has-ne": ([(HAS, HAS.replace('== interface', '!= interface'))], "proof-breaks",
               "has_interface: identity test inverted"),
    "can-drop-netmask-guard": ([(CAN_TEST, '            interface_net_ip == self.net_ip and False\n')], "proof-breaks",
                               "can_add_interface: the netmask misconfiguration is never reported (M3)"),
    "can-netmask-eq": ([(CAN_TEST, CAN_TEST.replace('!= self.netmask', '== self.netmask'))], "proof-breaks",
                       "can_add_interface: raises for EQUAL netmasks"),
    "can-and-to-or": ([(CAN_TEST, CAN_TEST.replace('            and interface', '            or interface'))], "proof-breaks",
                      "can_add_interface: `and` -> `or` in the misconfiguration test"),
    "can-return-ne": ([(CAN_RET, '        return interface_net_ip != self.net_ip\n')], "proof-breaks",
                      "can_add_interface: answers True for foreign subnets"),
    "can-no-has-check": ([(CAN_HAS, '        if False:\n')], "proof-breaks",
                         "can_add_interface: an interface that is already present is accepted again"),
    "can-tests-reordered": ([(CAN_HAS, '        if self.has_interface(interface) and interface.params["netmask"] == self.netmask:\n')],
                            "proof-breaks", "can_add_interface: the presence test depends on the netmask"),
    "add-validate-first": ([(ADD, '        self.validate()\n' + ADD.replace('        self.validate()\n', ''))], "proof-breaks",
                           "add_interface validates BEFORE the interface is stored"),
    "add-no-backref": ([(ADD, ADD.replace('        self.interfaces[interface.ip].netconfig = self\n', ''))], "refused",
                       "add_interface does not set interface.netconfig"),
    # ---- translate_address (translate_matches_source)
    "tr-operands-swapped": ([(TR_PART, '        source_part = int(ipaddress.IPv4Address(str(self.net_ip))) - int(source_ip)\n')],
                            "proof-breaks", "the host offset is negated"),
    "tr-minus-target": ([(TR_SUM, TR_SUM.replace('source_part + target_part', 'source_part - target_part'))], "proof-breaks",
                        "the target network is subtracted"),
    "tr-target-ip": ([(TR_TARGET, '        target_part = int(target_iface.ip)\n')], "refused",
                     "the NAT address itself instead of its network address (M2)"),
    "tr-off-by-one": ([(TR_SUM, TR_SUM.replace('source_part + target_part', 'source_part + target_part + 1'))], "proof-breaks",
                      "off by one in the translated address"),
    # ---- mask_bit (maskBit_matches_source)
    "mb-bit-length": ([(MB_RET, '            return str(int("".join(binary_str), 2).bit_length())\n')], "refused",
                      "seeded regression: the prefix length computed via bit_length()"),
    "mb-bit-length-2": ([(MB_LOOP, '                binary_str += bin(int(octet))[2:]\n'),
                         (MB_RET, '            return str(int(binary_str, 2).bit_length() - len(binary_str) + len(binary_str.rstrip("0")))\n')],
                        "refused", "bit_length() variant that keeps the loop"),
    "mb-zfill-7": ([(MB_LOOP, MB_LOOP.replace('zfill(8)', 'zfill(7)'))], "proof-breaks",
                   "octets below 64 are expanded to 7 digits"),
    "mb-no-zfill": ([(MB_LOOP, '                binary_str += bin(int(octet))[2:]\n')], "refused",
                    "no padding (equal on contiguous masks only: the differential table lists it as equivalent)"),
    "mb-lstrip": ([(MB_RET, MB_RET.replace('rstrip', 'lstrip'))], "refused", "leading zeros stripped"),
    "mb-count-ones": ([(MB_RET, '            return str(len(binary_str.replace("0", "")))\n')], "refused",
                      "the number of one bits (equal on contiguous masks)"),
    "mb-strip-per-octet": ([(MB_LOOP, '                binary_str += bin(int(octet))[2:].zfill(8).rstrip("0")\n')], "proof-breaks",
                           "rstrip per octet (equal on contiguous masks)"),
}

# ---- second round: validate (netconfig.py), reattach_interface / integrate_node (network.py); a 4th element names the file
W = "avocado_i2n/vmnet/network.py"

VA_HOST = '        if self.host_ip is not None and self.host_ip != "":\n'
VA_END = ('        addresses["ip_end"] = ipaddress.ip_interface(\n'
          '            "%s/%s" % (self.ip_end, self.mask_bit)\n'
          '        )\n')
VA_ASSERTS = ('            assert interface.netconfig == self\n'
              '            assert self.interfaces[interface.ip] == interface\n')
VA_IF_TEST = '            if ip not in own.network:\n'
VA_ADDR_TEST = '            if addresses[key] not in own.network:\n'
VA_IF_LOOP = '        for interface in self.interfaces.values():\n            assert'
VA_OWN = '        own = ipaddress.ip_interface("%s/%s" % (self.net_ip, self.mask_bit))\n'
VA_ASSERT_START = '        assert self.ip_start is not None\n'

RE_DETACH = '        del interface.netconfig.interfaces[interface.ip]\n'
RE_ALLOC = '        interface.ip = netconfig.get_allocatable_address()\n'
RE_ADD = '        netconfig.add_interface(interface)\n        if proxy_interface is not None:\n'
RE_SEL = '        if proxy_nic != "" and proxy_nic != server_nic:\n'
RE_PROXY_IF = '        if proxy_interface is not None:\n'
RE_PROXY_DEL = '            del netconfig.interfaces[interface.ip]\n'
RE_REF_IP = '            ref_interface.ip = proxy_interface.ip\n'
RE_NETCONFIG = '        netconfig = ref_interface.netconfig\n'
RE_REF = '        ref_interface = self.interfaces["%s.%s" % (server.name, server_nic)]\n'
RE_PROXY_NC = '            interface.netconfig = proxy_interface.netconfig\n'

IN_LOOP = ('            for netconfig in self.netconfigs.values():\n'
           '                if netconfig.can_add_interface(interface):\n')
IN_BREAK = ('                    netconfig.add_interface(interface)\n'
            '                    break\n')
IN_NEW = ('                netconfig = self.new_netconfig()\n'
          '                netconfig.from_interface(interface)\n')
IN_NEW_ADD = ('                netconfig.add_interface(interface)\n'
              '                self.netconfigs[netconfig.net_ip] = netconfig\n')
INIT_LOOP = '        for vm_name in params.objects("vms"):\n'
INIT_NODE = '            self.nodes[vm_name] = self.new_node(vm)\n'
INIT_CALL = '            self.integrate_node(self.nodes[vm_name])\n'
INIT_LOG = '        logging.debug("Constructed network configuration:\\n%s", self)\n'
IN_OUTER = '        for interface in node.interfaces.values():\n'

MUTANTS.update({
    # ---- validate (validate_matches_source)
    "va-host-always": ([(VA_HOST, '        if self.host_ip is not None:\n')], "refused",
                       "validate: an empty host string is checked like an address"),
    "va-no-ip-end": ([(VA_END, '')], "proof-breaks", "validate: the end of the range is not checked"),
    "va-end-is-start": ([(VA_END, VA_END.replace('self.ip_end', 'self.ip_start'))], "proof-breaks",
                        "validate: the start of the range is checked twice, the end never"),
    "va-dup-key": ([(VA_END, VA_END.replace('"ip_end"', '"ip_start"'))], "refused",
                   "validate: the end overwrites the start in the dictionary (the list rewrite needs distinct keys)"),
    "va-asserts-swapped": ([(VA_ASSERTS, '            assert self.interfaces[interface.ip] == interface\n'
                                          '            assert interface.netconfig == self\n')], "proof-breaks",
                           "validate: KeyError / AssertionError in the other order"),
    "va-assert-dropped": ([(VA_ASSERTS, '            assert self.interfaces[interface.ip] == interface\n')], "proof-breaks",
                          "validate: the back reference of an interface is not checked"),
    "va-assert-ne": ([(VA_ASSERTS, VA_ASSERTS.replace('== interface', '!= interface'))], "proof-breaks",
                     "validate: identity assert inverted"),
    "va-iface-in": ([(VA_IF_TEST, '            if ip in own.network:\n')], "proof-breaks",
                    "validate: TestError for interfaces INSIDE the network"),
    "va-addr-in": ([(VA_ADDR_TEST, '            if addresses[key] in own.network:\n')], "proof-breaks",
                   "validate: TestError for predefined addresses INSIDE the network"),
    "va-testfail": ([(VA_IF_TEST + '                raise exceptions.TestError(', VA_IF_TEST + '                raise exceptions.TestFail(')],
                    "refused", "validate: another exception class"),
    "va-iface-keys": ([(VA_IF_LOOP, VA_IF_LOOP.replace('.values()', '.keys()'))], "refused",
                      "validate: the interface loop iterates over the addresses"),
    "va-own-host": ([(VA_OWN, VA_OWN.replace('self.net_ip', 'self.host_ip'))], "refused",
                    "validate: the own network is taken from the host address"),
    "va-no-assert-start": ([(VA_ASSERT_START, '')], "refused", "validate: `assert self.ip_start is not None` dropped"),
    # ---- reattach_interface (reattach_matches_source)
    "re-skip-detach-member": ([(RE_DETACH, '        if interface.netconfig is not netconfig:\n    ' + RE_DETACH)], "refused",
                              "seeded regression: the detach is skipped when the interface is already a member", W),
    "re-no-detach": ([(RE_DETACH, '')], "refused", "reattach: no detach from the old netconfig", W),
    "re-detach-after-attach": ([(RE_DETACH, ''), (RE_ADD, RE_ADD.replace('        if proxy', RE_DETACH + '        if proxy'))],
                               "proof-breaks", "reattach: detach (by the NEW address) after the attach", W),
    "re-add-before-alloc": ([(RE_ALLOC, ''), (RE_ADD, RE_ADD.replace('        if proxy', RE_ALLOC + '        if proxy'))],
                            "proof-breaks", "reattach: add_interface under the old address, then the new address", W),
    "re-detach-from-new": ([(RE_DETACH, '        del netconfig.interfaces[interface.ip]\n')], "refused",
                           "reattach: the address is deleted from the NEW netconfig", W),
    "re-proxy-and-to-or": ([(RE_SEL, RE_SEL.replace(' and ', ' or '))], "proof-breaks",
                           "reattach: proxy selection `and` -> `or`", W),
    "re-proxy-eq": ([(RE_SEL, RE_SEL.replace('proxy_nic != server_nic', 'proxy_nic == server_nic'))], "proof-breaks",
                    "reattach: proxy selected when it IS the server nic", W),
    "re-proxy-no-empty-test": ([(RE_SEL, '        if proxy_nic != server_nic:\n')], "proof-breaks",
                               "reattach: the empty proxy name is looked up", W),
    "re-proxy-is-none": ([(RE_PROXY_IF, '        if proxy_interface is None:\n')], "refused",
                         "reattach: the proxy part runs without a proxy", W),
    "re-proxy-keep-registered": ([(RE_PROXY_DEL + RE_REF_IP, RE_REF_IP)], "refused",
                                 "reattach: the client stays registered in the server netconfig", W),
    "re-ref-ip-from-client": ([(RE_REF_IP, '            ref_interface.ip = interface.ip\n')], "refused",
                              "reattach: the server nic takes the client's address", W),
    "re-proxy-nc-from-ref": ([(RE_PROXY_NC, '            interface.netconfig = ref_interface.netconfig\n')], "refused",
                             "reattach: the client's netconfig reference is the server's, not the proxy's", W),
    "re-proxy-del-last": ([(RE_PROXY_DEL + RE_REF_IP, RE_REF_IP), (RE_PROXY_NC, RE_PROXY_NC + RE_PROXY_DEL)], "proof-breaks",
                          "reattach: the registration is deleted under the proxy side address (KeyError)", W),
    "re-netconfig-of-client": ([(RE_NETCONFIG, '        netconfig = interface.netconfig\n')], "refused",
                               "reattach: the target netconfig is the client's own", W),
    "re-ref-of-client": ([(RE_REF, RE_REF.replace('server.name', 'client.name'))], "refused",
                         "reattach: the reference interface is looked up on the client", W),
    # ---- integrate_node (integrateNode_matches_source)
    "in-merge-after-loop": ([(IN_OUTER, '        new_netconfigs = {}\n' + IN_OUTER),
                             (IN_NEW_ADD, IN_NEW_ADD.replace('self.netconfigs[netconfig.net_ip] = netconfig\n',
                                                             'new_netconfigs[netconfig.net_ip] = netconfig\n'
                                                             '        self.netconfigs.update(new_netconfigs)\n'))],
                            "refused", "seeded regression: the new netconfigs are registered after the loop", W),
    "in-merge-after-loop-2": ([(IN_NEW_ADD, IN_NEW_ADD.replace('self.netconfigs[netconfig.net_ip] = netconfig\n',
                                                               'node.new_netconfigs[netconfig.net_ip] = netconfig\n'
                                                               '        self.netconfigs.update(node.new_netconfigs)\n'))],
                              "refused", "the same regression without a new local", W),
    "in-no-break": ([(IN_BREAK, IN_BREAK.replace('                    break\n', ''))], "refused",
                    "integrate_node: the interface is added to every netconfig that takes it", W),
    "in-test-negated": ([(IN_LOOP, IN_LOOP.replace('if netconfig', 'if not netconfig'))], "proof-breaks",
                        "integrate_node: the first netconfig that REFUSES the interface gets it", W),
    "in-no-from-interface": ([(IN_NEW, IN_NEW.replace('                netconfig.from_interface(interface)\n', ''))],
                             "refused", "integrate_node: the new netconfig is not initialised", W),
    "in-add-before-from": ([(IN_NEW, '                netconfig = self.new_netconfig()\n'),
                            (IN_NEW_ADD, IN_NEW_ADD.replace('                self.netconfigs', '                netconfig.from_interface(interface)\n                self.netconfigs'))],
                           "proof-breaks", "integrate_node: add_interface (and validate) on the uninitialised netconfig", W),
    "in-no-add-in-new": ([(IN_NEW_ADD, '                self.netconfigs[netconfig.net_ip] = netconfig\n')], "refused",
                         "integrate_node: the interface is not added to its new netconfig", W),
    "in-register-by-ip": ([(IN_NEW_ADD, IN_NEW_ADD.replace('[netconfig.net_ip]', '[interface.ip]'))], "refused",
                          "integrate_node: registered under the interface address", W),
    "in-reversed": ([(IN_LOOP, IN_LOOP.replace('self.netconfigs.values()', 'reversed(list(self.netconfigs.values()))'))],
                    "refused", "integrate_node: the LAST registered netconfig that takes the interface", W),
    # ---- __init__ (init_matches_source)
    "init-integrate-twice": ([(INIT_CALL, INIT_CALL + INIT_CALL)], "refused",
                             "__init__: integrate_node twice per vm", W),
    "init-no-integrate": ([(INIT_CALL, '')], "refused", "__init__: the vm nodes are not integrated", W),
    "init-reversed": ([(INIT_LOOP, '        for vm_name in reversed(params.objects("vms")):\n')], "refused",
                      "__init__: the vms are integrated in reverse order", W),
    "init-reset-registry": ([(INIT_LOOP, INIT_LOOP + '            self.netconfigs = {}\n')], "refused",
                            "__init__: the registry is emptied for every vm", W),
    "init-node-after": ([(INIT_NODE + INIT_CALL, INIT_CALL + INIT_NODE)], "refused",
                        "__init__: the node is registered after its integration (KeyError in Python)", W),
    "init-integrate-behind-loop": ([(INIT_CALL, ''), (INIT_LOG, '        self.integrate_node(self.nodes[vm_name])\n' + INIT_LOG)],
                                   "refused", "__init__: only the last vm is integrated", W),
    "in-found-no-add": ([(IN_BREAK, '                    pass\n                    break\n')], "refused",
                        "integrate_node: the interface is not added to the netconfig that takes it", W),
})

GEN, PROPS = "GenNet.lean", ["I2N.Props.C18"]
GENW = "GenNetwork.lean"


def run_one(name, scratch):
    edits, expect, what = MUTANTS[name][:3]
    rel = MUTANTS[name][3] if len(MUTANTS[name]) > 3 else N
    src = os.path.join(vlib.REPO, rel)
    text = open(src).read()
    for old, new in edits:
        if text.count(old) != 1:
            raise RuntimeError(f"{name}: the text to edit occurs {text.count(old)} times in {src}")
        text = text.replace(old, new)
    dst = os.path.join(scratch, name + "_" + os.path.basename(rel))
    with open(dst, "w") as fh:
        fh.write(text)
    res = {"mutant": name, "what": what, "expected": expect}
    try:
        lean = pygen_pxnet.net_source(dst) if rel == N else pygen_pxnet.network_source(dst)
    except pygen.Unsupported as e:
        res.update(outcome="refused", detail=str(e)[:200])
        return res
    with open(os.path.join(vlib.LEAN, "I2N", "Extracted", GEN if rel == N else GENW), "w") as fh:
        fh.write(lean)
    ok, log = vlib.lake_build(PROPS)
    # put the real file back at once: the next mutant may be of the other source file
    pygen.write_if_changed(pygen._lean_path(GEN if rel == N else GENW),
                           pygen_pxnet.net_source() if rel == N else pygen_pxnet.network_source())
    errs = [l for l in log.splitlines() if l.startswith("error:")]
    res.update(outcome="still-proves" if ok else "proof-breaks", detail=(errs[0][:200] if errs else ""))
    return res


def restore():
    pygen.write_if_changed(pygen._lean_path(GEN), pygen_pxnet.net_source())
    pygen.write_if_changed(pygen._lean_path(GENW), pygen_pxnet.network_source())
    ok, log = vlib.lake_build(PROPS)
    if not ok:
        raise RuntimeError("the restored generated file does not build: " + log[-500:])


def main():
    names = sys.argv[1:] or list(MUTANTS)
    scratch = tempfile.mkdtemp(prefix="i2n-verif-pygen-")
    out = []
    try:
        for n in names:
            r = run_one(n, scratch)
            r["as_expected"] = r["outcome"] == r["expected"]
            out.append(r)
            print(json.dumps(r), flush=True)
    finally:
        shutil.rmtree(scratch, ignore_errors=True)
        restore()
    bad = [r["mutant"] for r in out if not r["as_expected"]]
    print(f"{len(out)} mutants, {len(out) - len(bad)} as expected" + (f", NOT as expected: {bad}" if bad else ""))
    return 1 if bad else 0


if __name__ == "__main__":
    sys.exit(main())
