"""Shared helper of the graph family (C06, C07, C09): driving the REAL avocado_i2n graph parser, extracting and
canonicalising the resulting `TestGraph`, enumerating abstract suites and generating mini suites.

Nothing here edits /repo.  The real code litters its cwd and $HOME (overwrite cfgs), so `activate()` moves both
into a scratch directory; each suite gets its own HOME because the generated `~/avocado_overwrite_*.cfg` files
hard-code the suite path that was active when they were first written.
"""
import os
import re
import shutil
import sys
import tempfile
import time

REPO = os.environ.get("I2N_REPO", "/repo")
SHIPPED = os.path.join(REPO, "tp_folder")

_state = {"scratch": None, "suite": None, "home0": os.environ.get("HOME"), "cwd0": None}


# ---------------------------------------------------------------------------------------------
# environment
# ---------------------------------------------------------------------------------------------

def scratch():
    if _state["scratch"] is None:
        _state["scratch"] = tempfile.mkdtemp(prefix="i2n-verif-graph-")
        _state["cwd0"] = os.getcwd()
    return _state["scratch"]


def cleanup():
    if _state["cwd0"]:
        try:
            os.chdir(_state["cwd0"])
        except OSError:
            pass
    if _state["home0"] is not None:
        os.environ["HOME"] = _state["home0"]
    if _state["scratch"] and os.path.isdir(_state["scratch"]):
        shutil.rmtree(_state["scratch"], ignore_errors=True)
    _state["scratch"] = None
    _state["suite"] = None


def activate(suite_dir=None):
    """Point the real code at a suite (default: the shipped tp_folder) with cwd and HOME in the scratch dir."""
    suite_dir = os.path.abspath(suite_dir or SHIPPED)
    if _state["suite"] == suite_dir:
        return
    root = scratch()
    home = os.path.join(root, "home-%d" % (abs(hash(suite_dir)) % 10 ** 8))
    os.makedirs(home, exist_ok=True)
    os.environ["HOME"] = home
    cwd = os.path.join(root, "cwd")
    os.makedirs(cwd, exist_ok=True)
    os.chdir(cwd)
    from avocado.core.settings import settings
    from avocado_i2n import params_parser  # noqa: F401  (registers the option)
    settings.update_option("i2n.common.suite_path", suite_dir)
    _state["suite"] = suite_dir


def cartgraph():
    """The real modules (imported late so that the environment is set first)."""
    from avocado_i2n.cartgraph import graph as G, node as N, worker as W
    from avocado_i2n.cartgraph import object as O
    from avocado_i2n import params_parser as P
    return G, N, O, W, P


# ---------------------------------------------------------------------------------------------
# driving the real parser
# ---------------------------------------------------------------------------------------------

def parse_eager(tests_str, vm_strs, param_dict, with_shared_root=True):
    """`TestGraph.parse_object_trees` exactly as the selftests and the runner call it."""
    G, N, O, W, P = cartgraph()
    return G.TestGraph.parse_object_trees(None, tests_str, "", dict(vm_strs), dict(param_dict),
                                          with_shared_root=with_shared_root)


def load_lazy(tests_str, vm_strs, param_dict):
    """What the runner does before a traversal with on-demand parsing (selftests' `_load_for_parsing`)."""
    G, N, O, W, P = cartgraph()
    graph = G.TestGraph()
    graph.restrs.update(vm_strs)
    nodes = G.TestGraph.parse_flat_nodes(tests_str, dict(param_dict))
    for n in nodes:
        n.update_restrs(vm_strs)
    graph.new_nodes(nodes)
    graph.parse_shared_root_from_object_roots(dict(param_dict))
    graph.new_workers(G.TestGraph.parse_workers(dict(param_dict)))
    return graph


_EXPANSION = {}


def expansion_block():
    """The statements `traverse_object_trees` executes for every (parents, siblings, current) the lazy parser yields - taken
    from the CURRENT source of /repo (the body of its `for … in self.parse_paths_to_object_roots(…)` loop, compiled as a
    function in the module's own namespace), so that the expansion here is the code's and not a copy of it."""
    if "fn" in _EXPANSION:
        return _EXPANSION["fn"]
    import ast
    import inspect
    import textwrap
    import avocado_i2n.cartgraph.graph as graph_mod
    G, N, O, W, P = cartgraph()
    tree = ast.parse(textwrap.dedent(inspect.getsource(G.TestGraph.traverse_object_trees)))
    loops = [n for n in ast.walk(tree) if isinstance(n, ast.For) and isinstance(n.iter, ast.Call) and
             isinstance(n.iter.func, ast.Attribute) and n.iter.func.attr == "parse_paths_to_object_roots"]
    if len(loops) != 1:
        raise RuntimeError("traverse_object_trees no longer has exactly one loop over parse_paths_to_object_roots")
    loop = loops[0]
    targets = [t.id for t in loop.target.elts]
    free = {n.id for st in loop.body for n in ast.walk(st) if isinstance(n, ast.Name) and isinstance(n.ctx, ast.Load)}
    stored = {n.id for st in loop.body for n in ast.walk(st) if isinstance(n, ast.Name) and isinstance(n.ctx, ast.Store)}
    known = set(targets) | {"self", "root"} | stored | set(vars(graph_mod))
    unknown = sorted(v for v in free - known if v not in dir(__import__("builtins")))
    if unknown:
        raise RuntimeError(f"the expansion block of traverse_object_trees reads local names the harness does not provide: {unknown}")
    fn = ast.FunctionDef(name="_verif_expansion_block", args=ast.arguments(
        posonlyargs=[], args=[ast.arg(arg=a) for a in ["self", "root"] + targets], kwonlyargs=[], kw_defaults=[], defaults=[]),
        body=loop.body, decorator_list=[], type_params=[])
    mod = ast.fix_missing_locations(ast.Module(body=[fn], type_ignores=[]))
    ns = {}
    exec(compile(mod, "<expansion block of traverse_object_trees>", "exec"), vars(graph_mod), ns)
    _EXPANSION["fn"] = ns["_verif_expansion_block"]
    return _EXPANSION["fn"]


def expand_lazy(graph, order, params=None):
    """Expand flat nodes in the given order of (flat node index, worker id) exactly as `traverse_object_trees`
    does it: `parse_paths_to_object_roots`, then the code's own block (object roots - and tests without any setup - descend
    from the shared root, `validate`)."""
    block = expansion_block()
    root = graph.get_nodes("shared_root", "yes")[0]
    flats = [n for n in graph.nodes if n.is_flat() and not n.is_shared_root()]
    invalid = []
    graph._verif_steps = getattr(graph, "_verif_steps", [])
    for fi, wid in order:
        flat, worker = flats[fi], graph.workers[wid]
        if flat.is_unrolled(worker):
            continue
        graph._verif_steps.append((wid, flat.setless_form))
        for parents, siblings, current in graph.parse_paths_to_object_roots(flat, worker.net, params or {}):
            try:
                block(graph, root, parents, siblings, current)
            except Exception as e:  # noqa   (the block ends with current.validate())
                invalid.append((current.id, repr(e)))
    return invalid


# ---------------------------------------------------------------------------------------------
# extraction
# ---------------------------------------------------------------------------------------------

def _worker_of(node):
    """worker (net) name of a composite node: taken from its own `name` (…nets.<swarm>.<net>)"""
    name = node.params["name"]
    if ".nets." not in name:
        return ""
    w = name.rsplit(".nets.", 1)[1]
    return w[len("localhost."):] if w.startswith("localhost.") else w


def object_key(o):
    """stable identity of a test object across workers for vms/images: `id` (long suffix + variant name);
    for nets the long suffix only (the net's composite name repeats the vm variants)"""
    return o.id if o.key != "nets" else "nets:" + o.long_suffix


def extract(graph, validate=True):
    """Canonical, JSON-able picture of a real TestGraph.  Nodes are numbered in the order of `graph.nodes`."""
    nodes = list(graph.nodes)
    index = {id(n): i for i, n in enumerate(nodes)}
    out = {"nodes": [], "setup": [], "cleanup": [], "bridged": [], "clones": [], "registers": [], "dangling": [],
           "invalid": []}
    reg_ids = {}

    def rid(obj):
        return reg_ids.setdefault(id(obj), len(reg_ids))

    for i, n in enumerate(nodes):
        p = n.params
        flat = n.is_flat()
        objs = []
        for o in n.objects:
            op = o.object_typed_params(p)
            objs.append({"key": o.key, "suffix": o.long_suffix, "oid": o.id, "comp": o.component_form,
                         "get": op.get("get", "") or "", "get_state": op.get("get_state", "") or "",
                         "set_state": op.get("set_state", "") or ""})
        rec = {"idx": i, "id": n.id, "prefix": n.prefix, "name": p["name"], "setless": n.setless_form,
               "bridged_form": n.bridged_form, "worker": "" if flat else _worker_of(n), "flat": flat,
               "shared_root": bool(n.is_shared_root()), "object_root": p.get("object_root", "") or "",
               "clone_source": len(n.cloned_nodes) > 0, "param_vms": sorted(p.objects("vms")) if not flat else [],
               "param_nets": list(p.objects("nets")) if not flat else [], "objects": objs}
        out["nodes"].append(rec)
        for par, oset in n.setup_nodes.items():
            if id(par) not in index:
                out["dangling"].append(("setup", n.id, par.id))
                continue
            for o in oset:
                out["setup"].append((i, index[id(par)], o.id if hasattr(o, "key") and o.key != "objects" else "shared"))
        for ch, oset in n.cleanup_nodes.items():
            if id(ch) not in index:
                out["dangling"].append(("cleanup", n.id, ch.id))
                continue
            for o in oset:
                out["cleanup"].append((i, index[id(ch)], o.id if hasattr(o, "key") and o.key != "objects" else "shared"))
        for b in n.bridged_nodes:
            if id(b) in index:
                out["bridged"].append((i, index[id(b)]))
            else:
                out["dangling"].append(("bridged", n.id, b.id))
        for c in n.cloned_nodes:
            if id(c) in index:
                out["clones"].append((i, index[id(c)]))
            else:
                out["dangling"].append(("clone", n.id, c.id))
        out["registers"].append([rid(n._picked_by_setup_nodes), rid(n._dropped_setup_nodes),
                                 rid(n._picked_by_cleanup_nodes), rid(n._dropped_cleanup_nodes)])
        if validate:
            try:
                n.validate()
            except Exception as e:  # noqa
                out["invalid"].append((n.id, type(e).__name__ + ": " + str(e)[:200]))
    out["setup"].sort()
    out["cleanup"].sort()
    out["bridged"].sort()
    out["clones"].sort()
    return out


# ---------------------------------------------------------------------------------------------
# generated mini suites: a complete small tp_folder/configs + the same suite as an abstract suite
# ---------------------------------------------------------------------------------------------

MAX_FLATS = 48     # upper bound of the number of flat nodes a selection of a generated suite can have
OS_POOL = {"vm1": ["Aos", "Bos"], "vm2": ["Cos", "Dos"], "vm3": ["Eos", "Fos"]}
MAIN_SETS = ["all", "nonleaves", "leaves", "normal", "minimal"]
MAIN_SETS_ALL = ["normal.nongui", "normal.gui", "nonleaves", "minimal", "leaves", "normal", "all"]   # longest first


def gen_suite(rng, size="small"):
    """Draw an abstract suite.  Everything the real parser will see is a function of this dictionary.

    tests: list of {name: dotted variants below the set, kind: original|noop|setup|leaf, vms: None (singleton) | [vm…],
                    objs: {"images_vm1" | "vms_vm1" | "images" | "vms": {get, get_state, set_state}}, only: {vm: [os…]},
                    sets: [normal, minimal]}
    """
    nvms = rng.choice([2, 2, 3])
    vms = ["vm1", "vm2", "vm3"][:nvms]
    variants = {}
    for vm in vms:
        variants[vm] = OS_POOL[vm][:rng.choice([1, 2, 2])]
    # nets: plain, restricted and clustered
    nets = {"net1": {}, "net2": {}}
    r3 = {}
    if len(variants["vm1"]) > 1 and rng.random() < 0.8:
        r3["vm1"] = ("only", [rng.choice(variants["vm1"])])
    if len(variants["vm2"]) > 1 and rng.random() < 0.6:
        r3["vm2"] = ("no", [rng.choice(variants["vm2"])])
    nets["net3"] = r3
    # net4: sometimes a multi-valued `only` list naming ALL variants of a vm (the worker supports every variant); the list is
    # written into nets.cfg with unusual but legal blanks around the commas (`list_sep`; the Cartesian parser accepts any).
    # Drawn from a generator of its own so that the other draws of a seed stay what they were.
    import random as _random
    sub = _random.Random(repr(sorted(variants.items())) + "net4")
    r4 = {}
    for vm in vms:
        if len(variants[vm]) > 1 and sub.random() < 0.5:
            r4[vm] = ("only", list(variants[vm]))
    nets["net4"] = r4
    list_sep = sub.choice([", ", ",  ", " , ", ","]) if r4 else ", "
    clusters = {"net5": ["localhost", "cluster1"], "net6": ["localhost", "cluster1"]}
    nets["net5"] = {}
    nets["net6"] = {}

    tests = [{"name": "original.install", "kind": "original", "vms": None,
              "objs": {"vms": {"get": "", "get_state": "", "set_state": ""},
                       "images": {"get": "", "get_state": "", "set_state": "install"}}, "only": {}, "sets": []},
             {"name": "internal.stateless.noop", "kind": "noop", "vms": None, "objs": {}, "only": {}, "sets": []}]
    # setup tree of image states rooted at install
    depth = {"install": 0}
    states = ["install"]          # state name == restriction that selects its unique producer
    n_setup = rng.randint(2, 4 if size == "small" else 7)
    setups = []
    for i in range(n_setup):
        cands = [s for s in states if depth[s] < 4 and sum(1 for t in setups if t["_from"] == s) < 3]
        src = rng.choice(cands)
        name = f"s{i}"
        kind_vm = rng.random() < 0.2 and src != "install"
        t = {"name": f"internal.automated.{name}", "kind": "setup", "vms": None, "only": {}, "sets": [], "_from": src,
             "objs": {"images": {"get": src, "get_state": src, "set_state": "" if kind_vm else name}}}
        if kind_vm:
            t["objs"]["vms"] = {"get": "", "get_state": "", "set_state": name}
            t["_vmstate"] = True
        else:
            states.append(name)
            depth[name] = depth[src] + 1
        setups.append(t)
    vmstates = [t["name"].split(".")[-1] for t in setups if t.get("_vmstate")]
    tests += setups
    # multi-producer groups: internal.automated.mK.{a,b}, each from some state, setting gKst.a / gKst.b.
    # The states of anything that can end up in a clone's name are named differently from every test variant, as
    # in the shipped suite (guisetup.noop vs. client_noop): clone names embed the parent state, and a state that
    # is also a variant name makes `get_nodes_by_name(<restriction>)` match the clones (observed: a leaf then
    # adopts another leaf's clone as its setup and validate() raises "stateless dependency").
    multi = []
    if rng.random() < (0.55 if size == "small" else 0.8):
        for k in range(rng.choice([1, 1, 2])):
            src = rng.choice(states)
            subs = ["a", "b", "c"][:rng.choice([2, 2, 3])]
            for sub in subs:
                tests.append({"name": f"internal.automated.m{k}.{sub}", "kind": "setup", "vms": None, "only": {},
                              "sets": [], "objs": {"images": {"get": src, "get_state": src,
                                                              "set_state": f"g{k}st.{sub}"}}})
            multi.append((f"m{k}", subs))
            # explicit single producers of the group remain addressable: restriction mK.a, state mK.a
    # dependants of a whole group (cloned once per producer), possibly chained
    group_deps = []
    for (g, subs) in multi:
        if rng.random() < 0.8:
            dn = f"d{g}"
            tests.append({"name": f"internal.automated.{dn}", "kind": "setup", "vms": None, "only": {}, "sets": [],
                          "objs": {"images": {"get": g, "get_state": "", "set_state": dn + "st"}}})
            group_deps.append(dn)
            if rng.random() < 0.5:
                dn2 = f"e{g}"
                tests.append({"name": f"internal.automated.{dn2}", "kind": "setup", "vms": None, "only": {},
                              "sets": [], "objs": {"images": {"get": dn, "get_state": "", "set_state": dn2 + "st"}}})
                group_deps.append(dn2)
    # leaves
    n_leaves = rng.randint(2, 4 if size == "small" else 7)
    leaves = []
    for i in range(n_leaves):
        k = rng.choice([1, 1, 2, 2, 3]) if nvms == 3 else rng.choice([1, 1, 2])
        lvms = sorted(rng.sample(vms, k))
        objs, only = {}, {}
        grouped = False
        for vm in lvms:
            r = rng.random()
            if grouped and 0.12 <= r < 0.4 and rng.random() < 0.85:
                # a second object depending on a whole group ("double cloning") is drawn rarely: the real code
                # mangles such graphs (finding C06/double-clone) and they would drown everything else
                r = 0.5
            if 0.12 <= r < 0.4 and multi:
                grouped = True
            if r < 0.12 and vmstates:
                s = rng.choice(vmstates)
                objs[f"vms_{vm}"] = {"get": s, "get_state": s, "set_state": ""}
            elif r < 0.3 and multi:
                g, subs = rng.choice(multi)
                if rng.random() < 0.5:
                    objs[f"images_{vm}"] = {"get": g, "get_state": "", "set_state": ""}          # whole group: clones
                else:
                    sub = rng.choice(subs)
                    objs[f"images_{vm}"] = {"get": f"{g}.{sub}", "get_state": f"g{g[1:]}st.{sub}", "set_state": ""}
            elif r < 0.4 and group_deps:
                d = rng.choice(group_deps)
                objs[f"images_{vm}"] = {"get": d, "get_state": "", "set_state": ""}
            elif r < 0.93:
                s = rng.choice(states)
                objs[f"images_{vm}"] = {"get": s, "get_state": s, "set_state": ""}
            # else: no dependency for this vm at all (externally provided)
            if len(variants[vm]) > 1 and rng.random() < 0.25:
                only[vm] = [rng.choice(variants[vm])]
        grp = rng.choice(["quick", "multi"])
        leaves.append({"name": f"{grp}.t{i}", "kind": "leaf", "vms": lvms, "objs": objs, "only": only,
                       "sets": [s for s in ("normal", "minimal") if rng.random() < (0.7 if s == "normal" else 0.4)]})
    hints = {}
    # leaf -> leaf dependency (a leaf that also produces a state used by a later leaf)
    if len(leaves) >= 2 and rng.random() < 0.6:
        prod, cons = leaves[0], leaves[-1]
        if rng.random() < 0.6 and not any(o["get"] and not o["get_state"] for o in prod["objs"].values()):
            # make room for a dependency through several objects: a producer with two vms, all of them used by the consumer
            if len(prod["vms"]) < 2:
                prod["vms"] = sorted(prod["vms"] + [rng.choice([v for v in vms if v not in prod["vms"]])])
            cons["vms"] = sorted(set(cons["vms"]) | set(prod["vms"]))
        common = [vm for vm in prod["vms"] if vm in cons["vms"]]
        if common:
            vm = rng.choice(common)
            st = "lf" + prod["name"].split(".")[-1]
            po = prod["objs"].setdefault(f"images_{vm}", {"get": "", "get_state": "", "set_state": ""})
            # every second time the consumer takes the states of ALL common vms from this one producer: one dependency
            # carrying several objects (as a vm with two images does in the shipped suite)
            many = len(common) > 1 and rng.random() < 0.7 and not any(
                o["get"] and not o["get_state"] for o in prod["objs"].values())
            if many:
                hints["multidep"] = cons["name"].split(".")[-1]
            for vm2 in (common if many else []):
                if vm2 != vm:
                    po2 = prod["objs"].setdefault(f"images_{vm2}", {"get": "", "get_state": "", "set_state": ""})
                    po2["set_state"] = st
                    cons["objs"][f"images_{vm2}"] = {"get": prod["name"].split(".")[-1], "get_state": st, "set_state": ""}
                    if vm2 in prod["only"]:
                        cons["only"][vm2] = list(prod["only"][vm2])
            if any(o["get"] and not o["get_state"] for o in prod["objs"].values()):
                # the producer depends on a whole group (for this or another object) and will be cloned; cloning
                # makes only the cloned object's state branch specific, so all clones would provide the same
                # state here and the consumer's clones would be indistinguishable (observed: identically named
                # nodes).  Outside the model (design.d/C07.md, "same-state producers").
                if not po["get"] and not po["set_state"]:
                    del prod["objs"][f"images_{vm}"]
            else:
                po["set_state"] = st
                cons["objs"][f"images_{vm}"] = {"get": prod["name"].split(".")[-1], "get_state": st, "set_state": ""}
                # keep the suite well formed: the consumer exists only for variants the producer exists for …
                if vm in prod["only"]:
                    cons["only"][vm] = list(prod["only"][vm])
                # … and uses every vm of the producer (as tutorial_get does for tutorial_gui).  Otherwise the
                # producer is instantiated once per variant of the vm the consumer does not have, all of them
                # providing the *same* state: the real code then makes identically named clones of the consumer
                # (observed) and the "one producer per state" reading of the property has no answer.
                for u in prod["vms"]:
                    if u not in cons["vms"]:
                        cons["vms"] = sorted(cons["vms"] + [u])
                    if u in prod["only"] and u != vm:
                        cons["only"][u] = list(prod["only"][u])
    if not any("normal" in t["sets"] for t in leaves):
        leaves[0]["sets"].append("normal")
    if not any("minimal" in t["sets"] for t in leaves):
        leaves[-1]["sets"].append("minimal")
    tests += leaves
    for t in tests:
        t.pop("_from", None)
        t.pop("_vmstate", None)
    return {"vms": vms, "variants": variants, "nets": nets, "clusters": clusters, "tests": tests, "hints": hints,
            "list_sep": list_sep}


def _tree(names):
    """nest dotted names into a dict tree preserving order"""
    tree = {}
    for n in names:
        cur = tree
        for v in n.split("."):
            cur = cur.setdefault(v, {})
    return tree


def write_suite(suite, dirpath):
    """Write <dirpath>/configs/*.cfg for the abstract suite (structure copied from /repo/tp_folder/configs)."""
    cfg = os.path.join(dirpath, "configs")
    os.makedirs(cfg, exist_ok=True)
    vms, variants, nets = suite["vms"], suite["variants"], suite["nets"]
    net_names = []
    for n in nets:
        net_names.append(n)
    for n, cl in suite["clusters"].items():
        net_names += [f"{c}.{n}" for c in cl if c != "localhost"]

    def w(name, text):
        with open(os.path.join(cfg, name), "w") as fh:
            fh.write(text)

    w("guest-base.cfg", f"""vm_type = qemu
vms = {' '.join(vms)}
main_vm = vm1
nets = {' '.join(net_names)}
images = image1
image_name = image
get_state = 0root
states_chain = nets vms images
states_nets = vmnet
states_images = qcow2ext
states_vms = ramfile
vms_base_dir = /mnt/local/images/
images_base_dir = ${{vms_base_dir}}
""")
    oses = [o for vm in vms for o in variants[vm]]
    w("guest.cfg", "include guest-base.cfg\n\nvariants:\n" + "".join(
        f"    - {o}:\n        os_variant = {o.lower()}\n" for o in oses))
    txt = "include guest.cfg\n\nnets = net1\nvms =\nmain_vm =\n\nvariants:\n"
    for vm in vms:
        txt += (f"    - {vm}:\n        vms = \"{vm}\"\n        main_vm = {vm}\n        images_base_dir += {vm}/\n"
                f"        only {', '.join(variants[vm])}\n        suffix _{vm}\n")
    txt += "\nvariants:\n    - @vms:\n"
    w("vms.cfg", txt)
    txt = "nets_spawner = lxc\nnets_shell_host = localhost\n\nvariants:\n"
    for i, (n, restr) in enumerate(nets.items()):
        txt += f"    - {n}:\n        nets = \"{n}\"\n        nets_id = {101 + i}\n"
        for vm, (kind, oss) in restr.items():
            txt += f"        {kind}_{vm} = {suite.get('list_sep', ', ').join(oss)}\n"
        txt += f"        suffix _{n}\n"
    clustered = sorted(suite["clusters"])
    txt += "\nvariants:\n    - @localhost:\n        nets_gateway =\n"
    for c in sorted({c for cl in suite["clusters"].values() for c in cl if c != "localhost"}):
        txt += (f"    - {c}:\n        nets_gateway = {c}.net.lan\n        nets_spawner = remote\n"
                f"        only {', '.join(clustered)}\n")
    txt += "\nvariants:\n    - @nets:\n"
    w("nets.cfg", txt)
    w("objects-overwrite.cfg", "".join(f"default_only_{vm} = {variants[vm][0]}\n" for vm in vms))
    w("sets-overwrite.cfg", "default_only = normal\n")
    w("groups-base.cfg", f"""main_restrictions = {' '.join(MAIN_SETS)}
get_mode = ra
set_mode = ff
unset_mode = ri
pool_scope = own swarm cluster shared
shared_pool = /mnt/local/images/shared
test_timeout = 100
""")

    by_name = {t["name"]: t for t in suite["tests"]}

    def body(t, ind):
        pad = " " * ind
        out = ""
        if t["kind"] == "original":
            return pad + "type = install\n"
        if t["kind"] == "noop":
            return ""
        out += pad + f"type = {t['name'].split('.')[-1]}\n"
        if t["vms"] is not None:
            out += pad + f"vms = {' '.join(t['vms'])}\n"
        for okey, o in t["objs"].items():
            typ, _, vm = okey.partition("_")
            sfx = f"_{typ}" + (f"_{vm}" if vm else "")
            if o["get"]:
                out += pad + f"get{sfx} = {o['get']}\n"
            if o["get_state"]:
                out += pad + f"get_state{sfx} = {o['get_state']}\n"
            if o["set_state"]:
                out += pad + f"set_state{sfx} = {o['set_state']}\n"
        for vm, oss in t["only"].items():
            out += pad + f"only_{vm} = {', '.join(oss)}\n"
        return out

    def emit(tree, prefix, ind):
        out = ""
        pad = " " * ind
        out += pad + "variants:\n"
        for v, sub in tree.items():
            name = ".".join(prefix + [v])
            out += pad + f"    - {v}:\n"
            if name == "original":
                out += pad + "        get_state_vms =\n" + pad + "        set_state_images = install\n"
            if name == "internal.stateless":
                out += (pad + "        get =\n" + pad + "        get_state(_vm.*)? ?=\n" +
                        pad + "        get_state_nets = root\n")
            if name in by_name:
                out += body(by_name[name], ind + 8)
            if sub:
                out += emit(sub, prefix + [v], ind + 8)
        return out

    order = [t["name"] for t in suite["tests"]]
    w("groups.cfg", "include groups-base.cfg\n\n" + emit(_tree(order), [], 0))
    leaf_last = lambda s: ([t["name"].split(".")[-1] for t in suite["tests"] if t["kind"] == "leaf" and s in t["sets"]]
                           or ["nosuchtest"])
    w("sets.cfg", f"""include groups.cfg

variants:
    - @all:
    - nonleaves:
        only internal, original
    - leaves:
        no internal, original
    - normal:
        no internal, original
        only {', '.join(leaf_last('normal'))}
    - minimal:
        no internal, original
        only {', '.join(leaf_last('minimal'))}
""")
    return dirpath


# ---------------------------------------------------------------------------------------------
# extracted graph -> driver lines (see lean/Driver/Graph.lean)
# ---------------------------------------------------------------------------------------------

def bridge_class(nd):
    """worker invariant form of a node name, computed independently of TestNode.bridged_form: every
    `.nets.<swarm>.<net>` segment is blanked (multi-vm names repeat it per vm)"""
    return re.sub(r"\.nets\.[A-Za-z0-9]+\.net\d+", ".nets.W", nd["setless"])


def _t(s):
    s = str(s).replace(" ", "+")
    return s if s != "" else "-"


def to_lines(x):
    """Driver lines building the extracted graph `x`.  Long identities are interned (equality preserving)."""
    table = {}

    def tok(s, pre):
        if s == "":
            return "-"
        return table.setdefault((pre, s), f"{pre}{len(table)}")

    n = len(x["nodes"])
    lines = ["g-new"]
    for i, nd in enumerate(x["nodes"]):
        flags = "".join("1" if nd[k] else "0" for k in ("flat", "shared_root", "clone_source"))
        lines.append(" ".join(["node", tok(nd["id"], "n"), _t(nd["worker"]), flags, tok(nd["object_root"], "o"),
                               _t(",".join(nd["param_nets"])), _t(",".join(nd["param_vms"]))]))
        for o in nd["objects"]:
            oid = o["oid"] if o["key"] != "nets" else "nets:" + o["suffix"]
            lines.append(" ".join(["obj", o["key"], _t(o["suffix"]), tok(oid, "o"), _t(o["get"]), _t(o["get_state"]),
                                   _t(o["set_state"])]))
        if x.get("registers"):
            lines.append("regs " + " ".join(str(r) for r in x["registers"][i]))
        if not nd["flat"]:
            lines.append("cls " + tok(bridge_class(nd), "c"))

    def eo(o):
        return tok(o, "o") if not o.startswith("net") or "-" not in o else tok("nets:" + o.split("-")[0], "o")

    for (c, p, o) in x["setup"]:
        lines.append(f"setup {c} {p} {eo(o)}")
    for (p, c, o) in x["cleanup"]:
        lines.append(f"cleanup {c} {p} {eo(o)}")
    k = 0
    for (kind, a, b) in x["dangling"]:
        # an edge to a node outside graph.nodes: exported with an index beyond the graph
        k += 1
        ia = next((i for i, nd in enumerate(x["nodes"]) if nd["id"] == a), n + k)
        if kind == "setup":
            lines.append(f"setup {ia} {n + k} dangling")
        elif kind == "cleanup":
            lines.append(f"cleanup {n + k} {ia} dangling")
        elif kind == "clone":
            lines.append(f"clone {ia} {n + k}")
    for (a, b) in x["bridged"]:
        lines.append(f"bridge {a} {b}")
    for (a, b) in x["clones"]:
        lines.append(f"clone {a} {b}")
    return lines


# ---------------------------------------------------------------------------------------------
# cases: (suite, selection of tests, vm restrictions, workers, parsing mode)
# ---------------------------------------------------------------------------------------------

def all_net_names(suite):
    # a clustered net is only addressable with its cluster (a plain `net5` would select every cluster variant,
    # and the real code then cannot compose a unique net object)
    names = [n for n in suite["nets"] if n not in suite["clusters"]]
    for n, cl in suite["clusters"].items():
        names += [f"{c}.{n}" for c in cl if c != "localhost"]
    return names


def gen_selection(rng, suite, max_workers=3):
    """tests restriction string, per-vm restrictions (incl. none -> multi-variant products), ordered worker set"""
    leaves = [t for t in suite["tests"] if t["kind"] == "leaf"]
    setups = [t for t in suite["tests"] if t["kind"] == "setup"]
    last = lambda t: t["name"].split(".")[-1]
    r = rng.random()
    if suite.get("hints", {}).get("multidep") and rng.random() < 0.5:
        # the suite has a dependency through several objects: select its consumer (alone or with the other leaves)
        tests_str = f"only leaves..{suite['hints']['multidep']}\n" if r < 0.5 else "only leaves\n"
    elif r < 0.25:
        tests_str = "only leaves\n"
    elif r < 0.4:
        tests_str = "only normal\n"
    elif r < 0.5:
        tests_str = "only minimal\n"
    elif r < 0.65:
        tests_str = f"only all..{last(rng.choice(leaves))}\n"
    elif r < 0.78:
        picks = rng.sample(leaves, min(len(leaves), 2))
        tests_str = "only " + ",".join(f"leaves..{last(t)}" for t in picks) + "\n"
    elif r < 0.86:
        tests_str = f"only leaves\nonly {last(rng.choice(leaves))}\n"
    elif r < 0.91:
        t = rng.choice(setups)
        tests_str = f"only nonleaves..{t['name'].split('.', 2)[2]}\n"
    elif r < 0.96:
        # several setup tests selected directly (a dependant and its producer are then both leaves of the selection)
        picks = rng.sample(setups, min(len(setups), rng.choice([2, 3])))
        tests_str = "only " + ",".join(f"nonleaves..{t['name'].split('.', 2)[2]}" for t in picks) + "\n"
    else:
        tests_str = "only all\nno noop\n"
    vm_strs = {}
    for vm in suite["vms"]:
        vs = suite["variants"][vm]
        r = rng.random()
        if r < 0.45:
            vm_strs[vm] = f"only {rng.choice(vs)}\n"
        elif r < 0.6 and len(vs) > 1:
            # (a list may be written with any blanks around the commas: `a, b`, `a,b`, `a,  b`, `a , b`)
            vm_strs[vm] = "only " + [", ", ", ", ",", ",  ", " , "][int(r * 1000) % 5].join(vs) + "\n"
        elif r < 0.7 and len(vs) > 1:
            vm_strs[vm] = f"no {rng.choice(vs)}\n"
        else:
            vm_strs[vm] = ""
    names = all_net_names(suite)
    k = rng.choice([1, 1, 2, 2, 3][:2 + max_workers])
    k = min(k, max_workers)
    nets = rng.sample(names, k)
    return {"tests_str": tests_str, "vm_strs": vm_strs, "nets": nets}


def portable_case(case):
    """a case as it goes into a replay file: the shipped suite is named, not copied"""
    c = dict(case)
    if isinstance(c.get("suite"), dict) and c["suite"].get("path"):
        c["suite"] = "shipped"
    return c


def load_case(case):
    """inverse of `portable_case` / JSON round trip"""
    c = dict(case)
    if c.get("suite") == "shipped":
        c["suite"] = shipped_suite()
    elif c.get("suite"):
        c["suite"] = suite_from_json(c["suite"])
    if c.get("order"):
        c["order"] = [tuple(o) for o in c["order"]]
    return c


def suite_from_json(s):
    s = dict(s)
    s["nets"] = {n: {vm: (r[0], list(r[1])) for vm, r in restr.items()} for n, restr in s["nets"].items()}
    return s


_suite_dirs = {}


def suite_dir(suite):
    """write the suite once per content"""
    import hashlib
    import json
    if suite.get("path"):
        return suite["path"]
    h = hashlib.sha1(json.dumps(suite, sort_keys=True, default=list).encode()).hexdigest()[:12]
    if h not in _suite_dirs or not os.path.isdir(_suite_dirs[h]):
        d = os.path.join(scratch(), "suite-" + h)
        write_suite(suite, d)
        _suite_dirs[h] = d
    return _suite_dirs[h]


def run_case(case):
    """Run the real parser for one case.  Returns (graph | None, status) with status `ok`, `empty-product` or
    `error:<Type>:<message>`.  case: {suite | None (shipped), tests_str, vm_strs, nets, mode: eager|lazy, order}"""
    import signal
    G, N, O, W, P = cartgraph()
    activate(suite_dir(case["suite"]) if case.get("suite") else None)
    params = {"nets": " ".join(case["nets"])}

    class _Timeout(Exception):
        pass

    def _alarm(signum, frame):
        raise _Timeout()
    # the real parser does not always terminate on graphs it mangles (observed: runaway cloning when validate()
    # is not there to abort it): bound every parse
    old_handler = signal.signal(signal.SIGALRM, _alarm)
    mini = bool(case.get("suite")) and not case["suite"].get("path")
    signal.alarm(int(case.get("timeout", 90 if mini else 400)))
    try:
        if case.get("mode", "eager") == "eager":
            graph = parse_eager(case["tests_str"], case["vm_strs"], params)
        else:
            graph = load_lazy(case["tests_str"], case["vm_strs"], params)
            flats = [n for n in graph.nodes if n.is_flat() and not n.is_shared_root()]
            order = case.get("order")
            if order is None:
                order = [(fi, w) for fi in range(len(flats)) for w in graph.workers]
            order = [(fi, w) for (fi, w) in order if fi < len(flats) and w in graph.workers]
            graph._verif_invalid = expand_lazy(graph, order, params)
        return graph, "ok"
    except P.EmptyCartesianProduct:
        return None, "empty-product"
    except _Timeout:
        return None, "error:Timeout:the parser did not finish in time"
    except Exception as e:  # noqa
        return None, f"error:{type(e).__name__}:{str(e)[:300]}"
    finally:
        signal.alarm(0)
        signal.signal(signal.SIGALRM, old_handler)


# ---------------------------------------------------------------------------------------------
# the spec oracle for C06: a naive, independent reading of the property on the extracted graph
# ---------------------------------------------------------------------------------------------

def spec_check(x):
    """Returns {clause: [witness…]} of violated clauses (empty dict = well formed)."""
    bad = {}

    def add(clause, w):
        bad.setdefault(clause, []).append(w)

    nodes = x["nodes"]
    n = len(nodes)
    seen = {}
    for nd in nodes:
        if nd["id"] in seen:
            add("ids", nd["id"])
        seen[nd["id"]] = True
    for d in x["dangling"]:
        if d[0] in ("setup", "cleanup"):
            add("range", d)
    for (c, p, o) in x["setup"]:
        if c == p:
            add("range", (c, p, o))
    setup = set(x["setup"])
    cleanup = {(c, p, o) for (p, c, o) in x["cleanup"]}
    for e in sorted(setup ^ cleanup):
        add("symmetric", e)
    parents = {i: [] for i in range(n)}
    children = {i: [] for i in range(n)}
    for (c, p, o) in x["setup"]:
        parents[c].append(p)
    for (p, c, o) in x["cleanup"]:
        children[p].append(c)
    # cycle: iterative three-colour DFS over setup edges
    colour = [0] * n
    for s in range(n):
        if colour[s]:
            continue
        stack = [(s, iter(parents[s]))]
        colour[s] = 1
        while stack:
            v, it = stack[-1]
            for u in it:
                if colour[u] == 1:
                    add("cycle", (v, u))
                elif colour[u] == 0:
                    colour[u] = 1
                    stack.append((u, iter(parents[u])))
                    break
            else:
                colour[v] = 2
                stack.pop()
    starts = [i for i in range(n) if not parents[i]]
    shared = [i for i in range(n) if nodes[i]["shared_root"]]
    if len(starts) != 1 or len(shared) != 1 or starts != shared:
        add("root", {"starting": starts, "shared_roots": shared})
    else:
        reach, todo = {starts[0]}, [starts[0]]
        while todo:
            v = todo.pop()
            for u in children[v]:
                if u not in reach:
                    reach.add(u)
                    todo.append(u)
        if len(reach) != n and "symmetric" not in bad and "cycle" not in bad and "range" not in bad:
            add("root", {"unreachable": sorted(set(range(n)) - reach)})
    for i, nd in enumerate(nodes):
        if nd["flat"]:
            continue
        objs = {(o["oid"] if o["key"] != "nets" else "nets:" + o["suffix"]): o for o in nd["objects"]}
        nets = [o for o in nd["objects"] if o["key"] == "nets"]
        vms = sorted(o["suffix"] for o in nd["objects"] if o["key"] == "vms")
        if (len(nets) != 1 or nd["param_nets"] != [nets[0]["suffix"]] or nd["objects"][0]["key"] != "nets"
                or vms != sorted(nd["param_vms"])):
            add("objects", i)
        if nd["clone_source"]:
            continue
        for oid, o in objs.items():
            if not o["get"]:
                continue
            ps = [p for (c, p, eo) in x["setup"] if c == i and _edge_oid(eo) == oid]
            ok = len(ps) == 1
            if ok:
                pn = nodes[ps[0]]
                po = [q for q in pn["objects"] if (q["oid"] if q["key"] != "nets" else "nets:" + q["suffix"]) == oid]
                ok = (not pn["flat"] and pn["worker"] == nd["worker"] and len(po) >= 1 and po[0]["set_state"] != ""
                      and (po[0]["set_state"] == o["get_state"] or o["get_state"] == "0root"
                           or pn["object_root"] == oid))
            if not ok:
                add("producer", (i, oid, ps))
    for (c, p, eo) in x["setup"]:
        cn, pn = nodes[c], nodes[p]
        if pn["flat"]:
            continue
        oid = _edge_oid(eo)
        coids = [(o["oid"] if o["key"] != "nets" else "nets:" + o["suffix"]) for o in cn["objects"]]
        po = [q for q in pn["objects"] if (q["oid"] if q["key"] != "nets" else "nets:" + q["suffix"]) == oid]
        if cn["flat"] or cn["worker"] != pn["worker"] or oid not in coids or not po or po[0]["set_state"] == "":
            add("edge-object", (c, p, eo))
    has_clones = {s for (s, c) in x["clones"]}
    for (s, c) in x["clones"]:
        if (not nodes[s]["clone_source"] or nodes[c]["flat"] or nodes[c]["worker"] != nodes[s]["worker"]
                or s == c or nodes[s]["flat"]):
            add("clones", (s, c))
    for i, nd in enumerate(nodes):
        if nd["clone_source"] and i not in has_clones:
            add("clones", (i,))
    for d in x["dangling"]:
        if d[0] == "clone":
            add("clones", d)
    return bad


def _edge_oid(o):
    return "nets:" + o.split("-")[0] if o.startswith("net") and "-" in o else o


# ---------------------------------------------------------------------------------------------
# reference semantics of an abstract suite (used to tell an ill-formed suite from a wrong graph)
# ---------------------------------------------------------------------------------------------

def restr_filter(restr_lines, variants):
    """apply a multi-line `only a, b` / `no a` restriction to a list of variant names"""
    out = list(variants)
    for line in restr_lines.splitlines():
        line = line.strip()
        if not line:
            continue
        kind, _, rest = line.partition(" ")
        names = [v.strip() for v in rest.split(",")]
        if kind == "only":
            out = [v for v in out if v in names]
        elif kind == "no":
            out = [v for v in out if v not in names]
    return out


def net_restrictions(suite, worker):
    """{vm: (only|no, [labels])} of a worker's net (clustered nets are keyed with their cluster first)"""
    nets = suite["nets"]
    return nets.get(worker, nets.get(worker.split(".")[-1], {}))


def allowed_variants(suite, case, worker, vm, test):
    """variants of `vm` a test may be composed with on a worker: user restriction, net restriction, own restriction"""
    vs = restr_filter(case["vm_strs"].get(vm, ""), suite["variants"][vm])
    r = net_restrictions(suite, worker).get(vm)
    if r:
        vs = [v for v in vs if (v in r[1]) == (r[0] == "only")]
    if vm in test["only"]:
        vs = [v for v in vs if v in test["only"][vm]]
    return vs


def name_matches(restr, name):
    """`only all..<restr>` on a dotted test name: the variants of restr occur contiguously"""
    r, n = restr.split("."), name.split(".")
    return any(n[i:i + len(r)] == r for i in range(len(n) - len(r) + 1))


def candidate_producers(suite, case, worker, vm, variant, get):
    out = []
    for t in suite["tests"]:
        if t["kind"] == "noop" or not name_matches(get, t["name"]):
            continue
        vms = t["vms"] if t["vms"] is not None else [vm]
        if vm not in vms or variant not in allowed_variants(suite, case, worker, vm, t):
            continue
        if all(allowed_variants(suite, case, worker, u, t) for u in vms if u != vm):
            out.append(t["name"])
    return out


# ---------------------------------------------------------------------------------------------
# abstract suite -> driver lines, and the canonical form of a real graph the resolver is compared with
# ---------------------------------------------------------------------------------------------

def parse_restr_lines(text):
    """'only a, b\\nno c\\n' -> [(kind, 'a,b'), …] (blanks removed)"""
    out = []
    for line in text.splitlines():
        line = line.strip()
        if not line:
            continue
        kind, _, rest = line.partition(" ")
        out.append((kind, rest.replace(" ", "")))
    return out


def test_sets(t):
    if "set_prefixes" in t:
        return list(t["set_prefixes"])
    if t["kind"] == "leaf":
        return ["all", "leaves"] + list(t["sets"])
    return ["all", "nonleaves"]


def suite_lines(suite, case):
    lines = ["s-new"]
    for vm in suite["vms"]:
        lines.append(f"s-vm {vm} {','.join(suite['variants'][vm])}")
    lines.append(f"s-main {suite.get('main_vm', 'vm1')}")
    for t in suite["tests"]:
        if t["kind"] == "noop":
            continue
        lines.append(f"s-test {t['name']} {_t(','.join(t['vms'] or []))} {1 if t['kind'] == 'original' else 0} "
                     f"{';'.join(test_sets(t))}")
        for okey, o in t["objs"].items():
            kind, _, vm = okey.partition("_")
            lines.append(f"s-slot {_t(vm)} {kind} {_t(o['get'])} {_t(o['get_state'])} {_t(o['set_state'])}")
        for vm, oss in t["only"].items():
            lines.append(f"s-only {vm} {_t(','.join(oss))}")
    for vm, text in case["vm_strs"].items():
        for kind, names in parse_restr_lines(text):
            lines.append(f"s-user {vm} {kind} {names}")
    for kind, alts in parse_restr_lines(case["tests_str"]):
        lines.append(f"s-sel {kind} {alts}")
    for w in case["nets"]:
        restr = net_restrictions(suite, w)
        lines.append(" ".join([f"s-worker {w}"] + [f"{vm}:{r[0]}:{_t(','.join(r[1]))}" for vm, r in restr.items()]))
    return lines


def variant_label(comp, suffix):
    """short label of a vm variant from its component form (`vm1.Aos` -> Aos; shipped suite:
    `vm1.qemu_kvm_centos.….Linux.CentOS.8.0.x86_64` -> CentOS, the variant below the OS family)"""
    rest = comp[len(suffix) + 1:] if comp.startswith(suffix + ".") else comp
    toks = rest.split(".")
    for fam in ("Linux", "Windows"):
        if fam in toks and toks.index(fam) + 1 < len(toks):
            return toks[toks.index(fam) + 1]
    return rest


def canon_real(x, label=variant_label):
    """(node strings, edge strings, keys of nodes hanging under the shared root, clone sources) of a real graph in
    the resolver's vocabulary; flat nodes and clone sources are not nodes of the dependency graph proper"""
    keys = {}
    nodes, edges, rooted, dup = [], [], [], []
    for i, nd in enumerate(x["nodes"]):
        if nd["flat"] or nd["clone_source"]:
            continue
        left = nd["setless"].split(".vms.")[0]
        asg = sorted((o["suffix"], label(o["comp"], o["suffix"])) for o in nd["objects"] if o["key"] == "vms")
        key = left + "|" + ",".join(f"{vm}={v}" for vm, v in asg) + "|" + nd["worker"]
        if key in keys.values():
            dup.append(key)
        keys[i] = key
        slots = []
        for o in nd["objects"]:
            if o["key"] == "nets" or not (o["get"] or o["set_state"]):
                continue
            vm = o["suffix"].split("_")[-1]
            gs = "" if o["get_state"] == "0root" else o["get_state"]
            slots.append(f"{vm}:{o['key']}:{o['get']}:{gs}:{o['set_state']}")
        nodes.append(key + ";" + ("1" if nd["object_root"] else "0") + ";" + ",".join(sorted(slots)))
    has_composite_parent = set()
    for (c, p, o) in x["setup"]:
        if c not in keys:
            continue
        if x["nodes"][p]["flat"]:
            # the shared root, or (lazy parsing) the flat node a leaf was expanded from: not a dependency
            continue
        has_composite_parent.add(c)
        if p not in keys:
            edges.append(f"{keys[c]}>{_slot_of(o)}>SOURCE:{x['nodes'][p]['id']}")
            continue
        edges.append(f"{keys[c]}>{_slot_of(o)}>{keys[p]}")
    rooted = [k for i, k in keys.items() if i not in has_composite_parent]
    return sorted(nodes), sorted(edges), sorted(set(rooted)), dup


def _slot_of(oid):
    suffix = oid.split("-")[0]
    if suffix.startswith("image"):
        return suffix.split("_")[-1] + ":images"
    if suffix.startswith("net"):
        return suffix + ":nets"
    return suffix + ":vms"


# ---------------------------------------------------------------------------------------------
# the spec oracle for the bridging part of C09
# ---------------------------------------------------------------------------------------------

def spec_bridges(x):
    """{clause: [witness]}: symmetric links, shared registers within a class, everybody of a class linked, nobody
    else sharing"""
    bad = {}

    def add(c, w):
        bad.setdefault(c, []).append(w)

    nodes = x["nodes"]
    br = set(x["bridged"])
    for (a, b) in sorted(br):
        if (b, a) not in br:
            add("asymmetric-bridge", (nodes[a]["id"], nodes[b]["id"]))
        if a == b or nodes[a]["flat"] or nodes[b]["flat"] or bridge_class(nodes[a]) != bridge_class(nodes[b]) \
                or nodes[a]["worker"] == nodes[b]["worker"]:
            add("non-equivalent-bridge", (nodes[a]["id"], nodes[b]["id"]))
        if x["registers"][a] != x["registers"][b] or len(set(x["registers"][a])) != 4:
            add("registers-not-shared", (nodes[a]["id"], nodes[b]["id"]))
    comp = [i for i, nd in enumerate(nodes) if not nd["flat"]]
    for i in comp:
        for j in comp:
            if i == j:
                continue
            same = bridge_class(nodes[i]) == bridge_class(nodes[j])
            if same and nodes[i]["worker"] != nodes[j]["worker"] and (i, j) not in br:
                add("equivalent-not-bridged", (nodes[i]["id"], nodes[j]["id"]))
            if not same and set(x["registers"][i]) & set(x["registers"][j]):
                add("registers-shared-across-classes", (nodes[i]["id"], nodes[j]["id"]))
    for d in x["dangling"]:
        if d[0] == "bridged":
            add("bridge-outside-graph", d)
    return bad


# ---------------------------------------------------------------------------------------------
# running the real parser with a patched / mutated copy of ONE module (never edits /repo)
# ---------------------------------------------------------------------------------------------

PATCHES = {
    # proposed minimal fixes of the recorded findings (design.d/C09.md); used to attribute a deviation to a finding:
    # if it disappears under exactly this patch, it belongs to that finding.  (The fixes of `shadowed-test_object`
    # and `first-worker-restricts-vm-objects` were applied to /repo — 407f135, 9333c86 — and are gone from here;
    # their reverts are mutation-sanity cases in harness/mutations_graph.py.)
    "fix-unique-parent-variant": ("graph", [(
        "        if len(filtered_parents) == 1:\n"
        "            if len(filtered_parents[0].cloned_nodes) > 0:",
        "        # a reusable parent must use the child's own variant of every vm the two share\n"
        "        child_vms = {o.long_suffix: o.component_form for o in test_node.objects if o.key == \"vms\"}\n"
        "        filtered_parents = [\n"
        "            p for p in filtered_parents\n"
        "            if all(child_vms.get(o.long_suffix, o.component_form) == o.component_form\n"
        "                   for o in p.objects if o.key == \"vms\")\n"
        "        ]\n"
        "        if len(filtered_parents) == 1:\n"
        "            if len(filtered_parents[0].cloned_nodes) > 0:")]),
}


class patched:
    """context manager: the methods of TestGraph / TestNode come from a textually patched copy of the module"""

    def __init__(self, *names, extra=None):
        self.edits = {}
        for n in names:
            mod, reps = PATCHES[n]
            self.edits.setdefault(mod, []).extend(reps)
        for mod, reps in (extra or {}).items():
            self.edits.setdefault(mod, []).extend(reps)
        self.saved = []

    def __enter__(self):
        import importlib.util
        G, N, O, W, P = cartgraph()
        targets = {"graph": (G, "TestGraph"), "node": (N, "TestNode")}
        for mod, reps in self.edits.items():
            real, cls = targets[mod]
            src = open(real.__file__).read()
            for old, new in reps:
                if src.count(old) != 1:
                    raise RuntimeError(f"patch does not apply exactly once to {mod}.py: {old[:60]!r}")
                src = src.replace(old, new)
            path = os.path.join(scratch(), f"patched_{mod}_{abs(hash(src)) % 10 ** 8}.py")
            with open(path, "w") as fh:
                fh.write(src)
            spec = importlib.util.spec_from_file_location(f"avocado_i2n.cartgraph._verif_{mod}", path)
            m = importlib.util.module_from_spec(spec)
            m.__package__ = "avocado_i2n.cartgraph"
            spec.loader.exec_module(m)
            pc, rc = getattr(m, cls), getattr(real, cls)
            for k, v in vars(pc).items():
                if k.startswith("__"):
                    continue
                code = getattr(getattr(v, "__func__", v), "__code__", None)
                if code is not None and "__class__" in code.co_freevars:
                    continue        # zero-argument super() is bound to the copied class: keep the original
                if k in vars(rc):
                    self.saved.append((rc, k, vars(rc)[k]))
                    try:
                        setattr(rc, k, v)
                    except (AttributeError, TypeError):
                        self.saved.pop()
        return self

    def __exit__(self, *a):
        for rc, k, v in reversed(self.saved):
            setattr(rc, k, v)
        return False


# ---------------------------------------------------------------------------------------------
# attribution of a deviation to a known finding: does it disappear under exactly that finding's minimal fix?
# ---------------------------------------------------------------------------------------------

_FIX = {"fix-unique-parent-variant": "unique-parent-reuse-ignores-shared-vm-variant"}
FINDING_OF_PATCH = [((patch,), key) for patch, key in _FIX.items()]
KNOWN_KEYS = ("unique-parent-reuse-ignores-shared-vm-variant", "double-clone")


def run_attributed(ctx, case, run_one, double_clone_key="double-clone"):
    """Run `run_one(sub_ctx, case)` on a private context; if it reports violations, re-run it under the minimal fix
    of each known finding and key the violations by the finding whose fix makes them disappear."""
    import vlib
    sub = vlib.Ctx(ctx.prop, ctx.tier, ctx.seed)
    sub.rng = ctx.rng
    run_one(sub, case)
    ctx.evaluations += sub.evaluations
    ctx.nontrivial |= sub.nontrivial
    for smp in sub.samples:
        if len(ctx.samples) < 4:
            ctx.samples.append(smp)
    for k, v in sub.distribution.items():
        ctx.count(k, v)
    ctx.disagreements += sub.disagreements
    ctx.notes += sub.notes
    for k, v in sub.extra.items():
        if isinstance(v, (int, float)):
            ctx.extra[k] = round(ctx.extra.get(k, 0) + v, 1)
    if not sub.violations:
        return
    keys = {v["key"] for v in sub.violations}
    attributed = None
    if keys != {double_clone_key}:
        for patches, key in FINDING_OF_PATCH:
            trial = vlib.Ctx(ctx.prop, ctx.tier, ctx.seed)
            trial.rng = ctx.rng
            try:
                with patched(*patches):
                    run_one(trial, case)
            except Exception as e:  # noqa
                ctx.notes.append(f"attribution run under {patches} raised {type(e).__name__}: {e}"[:300])
                continue
            ctx.count("attribution.runs")
            if not trial.violations and not trial.disagreements:
                attributed = key
                break
    if double_clone_key in keys:
        # the input has the double-clone shape: everything observed on it belongs to that input class
        attributed = None
        for v in sub.violations:
            v["key"] = double_clone_key
    for v in sub.violations:
        if v["key"] == "parser-timeout" and not attributed:
            ctx.notes.append("parser did not finish within the time bound (not attributable to a finding; harness "
                             "timeouts are never violations): " + str({k: w for k, w in v["case"].items() if k != "suite"})[:300])
            ctx.count("parse.timeout.unattributed")
            continue
        key = attributed or v["key"]
        ctx.count("violation." + key)
        what = v["what"] if not attributed else f"[disappears under the minimal fix of finding `{attributed}`] " + v["what"]
        ctx.violate(key, what, portable_case(v["case"]))


# ---------------------------------------------------------------------------------------------
# the abstract suite of the SHIPPED tp_folder, enumerated through virttest's Cartesian parser directly
# (neither params_parser nor graph.py is involved)
# ---------------------------------------------------------------------------------------------

_shipped = {}


def shipped_suite():
    """Same dictionary format as `gen_suite`.  A test whose declarations depend on the vm variant (conditional
    blocks such as `Ubuntu, Kali: get_images = …in_cdrom_ks`, `vm1.qemu_kvm_centos: get_images_vm1 = connect`)
    becomes several abstract tests of the same name with disjoint own vm restrictions."""
    if "suite" in _shipped:
        return _shipped["suite"]
    import itertools
    from virttest import cartesian_config
    from virttest.utils_params import Params
    C = os.path.join(SHIPPED, "configs") + os.sep

    def dicts(*steps):
        p = cartesian_config.Parser()
        for kind, arg in steps:
            (p.parse_file if kind == "file" else p.only_filter)(arg)
        return list(p.get_dicts())

    mains = Params(dicts(("file", C + "groups-base.cfg"))[0]).objects("main_restrictions")
    base = Params(dicts(("file", C + "guest-base.cfg"))[0])
    vms = base.objects("vms")

    def setless(name):
        best = ""
        for m in mains:
            if name.startswith(m + ".") and len(m) > len(best):
                best = m
        return best, name[len(best) + 1:]

    # vm variants and their labels
    variants, fullname = {}, {}
    for d in dicts(("file", C + "vms.cfg")):
        vm = d["name"].split(".")[1]
        lab = variant_label(d["name"][4:], vm)
        variants.setdefault(vm, []).append(lab)
        fullname[(vm, lab)] = d["name"].split(".")
    for vm in variants:
        variants[vm].sort()

    def labels_matching(vm, text):
        """`only_vm1 = qemu_kvm_centos, Fedora` -> labels of the variants whose name has one of these variants"""
        toks = [t.strip() for t in text.split(",") if t.strip()]
        return [lab for lab in variants[vm] if any(name_matches(t, ".".join(fullname[(vm, lab)])) for t in toks)]

    # nets
    nets = {}
    for d in dicts(("file", C + "nets.cfg")):
        restr = {}
        for k, v in d.items():
            if k.startswith("only_") or k.startswith("no_"):
                kind, vm = k.split("_", 1)
                if vm in variants:
                    restr[vm] = (kind, labels_matching(vm, v))
        nets[d["shortname"]] = restr
    # the flat universe and its set prefixes
    prefixes, flat = {}, {}
    for d in dicts(("file", C + "sets.cfg")):
        pre, name = setless(d["name"])
        prefixes.setdefault(name, []).append(pre)
        flat[name] = d
    # declarations per (test, vm, variant)
    per = {}
    for vm in vms:
        for lab in variants[vm]:
            for d in dicts(("file", C + "vms.cfg"), ("only", vm), ("only", lab), ("file", C + "sets.cfg"), ("only", "all")):
                name = d["name"].split(".vms.")[0][4:]
                per[(name, vm, lab)] = Params(d)

    def decl(name, vm, lab):
        pr = per[(name, vm, lab)]
        out = {}
        for kind, chain in (("images", [vm, "image1", "images"]), ("vms", [vm, "vms"])):
            op = pr
            for c in chain:
                op = op.object_params(c)
            g, gs, ss = op.get("get", "") or "", op.get("get_state", "") or "", op.get("set_state", "") or ""
            gs = "" if gs == "0root" else gs
            if g or ss:
                out[kind] = (g, gs if g else "", ss)
        own = {}
        for k, v in pr.items():
            if k.startswith("only_") and k[5:] in variants:
                own[k[5:]] = labels_matching(k[5:], v)
        return tuple(sorted(out.items())), tuple(sorted((k, tuple(v)) for k, v in own.items()))

    tests = []
    for name, d in flat.items():
        if name == "internal.stateless.noop":
            tests.append({"name": name, "kind": "noop", "vms": None, "objs": {}, "only": {}, "sets": []})
            continue
        tvms = d["vms"].split() if d.get("vms") else None
        kind = "original" if name.startswith("original.") else ("setup" if name.startswith("internal.") else "leaf")
        groups = {}
        for vm in (tvms or vms):
            g = {}
            for lab in variants[vm]:
                if (name, vm, lab) in per:      # (guest-os.cfg excludes some tests for some OS variants)
                    g.setdefault(decl(name, vm, lab), []).append(lab)
            groups[vm] = g
        combos = (itertools.product(*[[(vm, sig, labs) for sig, labs in groups[vm].items()] for vm in tvms])
                  if tvms else [[(vm, sig, labs)] for vm in vms for sig, labs in groups[vm].items()])
        for combo in combos:
            objs, only = {}, {}
            for vm, (slots, own), labs in combo:
                only[vm] = list(labs)
                for k, (g, gs, ss) in slots:
                    objs[f"{k}_{vm}" if tvms else k] = {"get": g, "get_state": gs, "set_state": ss}
            for vm, (slots, own), labs in combo:
                for u, allowed in own:
                    only[u] = [x for x in only.get(u, variants[u]) if x in allowed]
            if not tvms:
                for u in vms:
                    only.setdefault(u, [])      # a one-vm test copy is only ever composed with its own vm
            tests.append({"name": name, "kind": kind, "vms": tvms, "objs": objs, "only": only, "sets": [],
                          "set_prefixes": prefixes[name]})
    suite = {"vms": vms, "variants": variants, "nets": nets, "clusters": {}, "tests": tests, "path": SHIPPED,
             "main_vm": base.get("main_vm", "vm1")}
    _shipped["suite"] = suite
    return suite


def gen_shipped_case(rng, with_suite=True, max_workers=3):
    """a random selection over the shipped suite's own test sets, vm variants and nets"""
    tests = ["only normal\n", "only minimal\n", "only leaves..tutorial_gui\n", "only leaves..tutorial_get\n",
             "only leaves..tutorial_finale\n", "only normal..tutorial1,normal..tutorial2\n",
             "only leaves..tutorial3..no_remote\n", "only nonleaves..connect\n", "only leaves\nonly tutorial1\n",
             "only leaves..quicktest\n", "only all..tutorial_get..explicit_noop\n", "only minimal..tutorial2..files\n",
             "only leaves..tutorial_gui..client_clicked,leaves..tutorial1\n", "only nonleaves..linux_virtuser\n",
             "only leaves..tutorial3..remote..object..control..decorator..util\n",
             "only normal\nno tutorial3\n"]
    vm_choices = {"vm1": ["only CentOS\n", "only CentOS\n", "only Fedora\n", "only CentOS, Fedora\n", "",
                          "only CentOS,  Fedora\n", "only CentOS , Fedora\n"],
                  "vm2": ["only Win10\n", "only Win10\n", "only Win7\n", "", "no Win7\n"],
                  "vm3": ["only Ubuntu\n", "only Ubuntu\n", "only Kali\n", ""]}
    nets = [["net1"], ["net1", "net2"], ["net3"], ["net5"], ["net2", "net5"], ["cluster1.net6", "cluster1.net7"],
            ["net1", "cluster1.net6"], ["net4", "net3", "net1"], ["cluster2.net9", "net2"], ["net0"]]
    ns = rng.choice(nets)[:max_workers]
    return {"suite": shipped_suite() if with_suite else None, "tests_str": rng.choice(tests),
            "vm_strs": {vm: rng.choice(c) for vm, c in vm_choices.items()}, "nets": list(ns),
            "mode": rng.choice(["eager", "eager", "lazy"])}


def corpus_cases(prop):
    """minimised past cases (one per finding), replayed first by every run: corpus/<prop>/*.json"""
    import json
    d = os.path.join(os.path.dirname(os.path.dirname(os.path.abspath(__file__))), "corpus", prop)
    out = []
    if os.path.isdir(d):
        for f in sorted(os.listdir(d)):
            if f.endswith(".json"):
                out.append(load_case(json.load(open(os.path.join(d, f)))["case"]))
    return out


def py_sat(tests_str, fullname):
    """a tests restriction (lines of only/no with , and ..) on a dotted full name (set prefix included)"""
    for kind, alts in parse_restr_lines(tests_str):
        hit = any(all(name_matches(q, fullname) for q in alt.split("..")) for alt in alts.split(","))
        if hit != (kind == "only"):
            return False
    return True


def double_clone_suite(case):
    """does the selection of a generated suite reach (as selected test or as producer, transitively) a test with
    two objects that both depend on a whole group of producers?"""
    suite = case.get("suite")
    if not suite or suite.get("path"):
        return False
    tests = [t for t in suite["tests"] if t["kind"] != "noop"]
    todo = [t for t in tests if any(py_sat(case["tests_str"], s + "." + t["name"]) for s in test_sets(t))]
    seen = []
    while todo:
        t = todo.pop()
        if t in seen:
            continue
        seen.append(t)
        for o in t["objs"].values():
            if o["get"]:
                todo += [u for u in tests if name_matches(o["get"], u["name"])]
    return any(sum(1 for o in t["objs"].values() if o["get"] and not o["get_state"]) >= 2 for t in seen)
