"""Mutation sanity for the regenerated models (development tool, not part of ./check).

    /venv/bin/python harness/pygen_mutants.py [NAME ...]

Every mutant is ONE source file (of /repo, or harness/travlib.py) copied to a scratch directory with a small textual
edit; /repo and travlib.py are not touched.  The translator (harness/pygen.py) is run on the copy, the generated Lean file
is written in place of the committed one and the Props file of the property is built.  Expected: the translator refuses
the function (`refused`), or the equality theorem no longer compiles (`proof-breaks`); a semantics preserving edit may
`still-prove`.  At the end the generated files are restored from the real sources and rebuilt.
"""
import json
import os
import shutil
import sys
import tempfile

HERE = os.path.dirname(os.path.abspath(__file__))
sys.path.insert(0, HERE)
import pygen  # noqa: E402
import vlib  # noqa: E402

T = "avocado_i2n/vmnet/tunnel.py"
N = "avocado_i2n/cartgraph/node.py"
P = "avocado_i2n/states/pool.py"
TRAVLIB = os.path.join(HERE, "travlib.py")

STARTED_IF = ('            worker\n            and "swarm" not in self.params["pool_scope"]\n'
              '            and self.params.get("nets_spawner") == "lxc"\n        ):\n'
              '            # is started separately')
FINISHED_ELIF = ('            worker\n            and "cluster" not in self.params["pool_scope"]\n'
                 '            and self.params.get("nets_spawner") == "remote"\n        ):\n'
                 '            own_cluster = worker.swarm_id\n            own_cluster_finished_hosts')

# name: (target, source file, [(old, new)], expectation, what)
MUTANTS = {
    # ---- VMTunnel._get_peer_variant (C19, peerVariant_matches_source)
    "tunnel-result-literal": ("tunnel", T, [('right_remote["type"] = "externalip"', 'right_remote["type"] = "custom"')],
                              "proof-breaks", "internetip local no longer mirrored as externalip remote"),
    "tunnel-test-literal": ("tunnel", T, [('elif left_local["type"] == "internetip":', 'elif left_local["type"] == "internet_ip":')],
                            "proof-breaks", "misspelt type in a condition"),
    "tunnel-dropped-assignment": ("tunnel", T, [('            right_peer["type"] = "ip"\n            right_peer["nic"] = left_peer["nic"]\n        # road',
                                                 '            right_peer["type"] = "ip"\n        # road')],
                                  "proof-breaks", "dynip peer: the nic is no longer copied"),
    "tunnel-negated-test": ("tunnel", T, [('            if left_local["type"] == "custom":', '            if left_local["type"] != "custom":')],
                            "proof-breaks", "custom/custom test negated"),
    "tunnel-wrong-source-dict": ("tunnel", T, [('right_local["nic"] = left_remote["nic"]', 'right_local["nic"] = left_local["nic"]')],
                                 "proof-breaks", "nic taken from the wrong dictionary"),
    "tunnel-elif-to-if": ("tunnel", T, [('        elif left_remote["type"] == "externalip":', '        if left_remote["type"] == "externalip":')],
                          "still-proves", "elif turned into if: same meaning here (the two tests exclude each other)"),
    "tunnel-read-once": ("tunnel", T, [('        if left_local["type"] == "nic":\n            right_remote["type"] = "custom"',
                                        '        local_type = left_local["type"]\n        if local_type == "nic":\n            right_remote["type"] = "custom"')],
                         "still-proves", "semantics preserving: the type is read into a variable first"),
    "tunnel-aliasing": ("tunnel", T, [('        right_peer = {"type": "ip"}', '        right_peer = left_peer')],
                        "refused", "the result aliases an argument (mutation of the caller's dictionary)"),
    "tunnel-update-call": ("tunnel", T, [('            right_peer["type"] = "ip"\n            right_peer["nic"] = left_peer["nic"]\n        # road',
                                          '            right_peer.update(left_peer)\n        # road')],
                           "refused", "a method call: outside the subset"),
    "tunnel-short-circuit-read": ("tunnel", T, [('        if left_peer["type"] == "dynip":', '        if left_peer and left_peer["type"] == "dynip":')],
                                  "refused", "truthiness of a dictionary / read behind `and`"),
    # ---- TestNode.is_started / is_finished, travlib.shape_of (C04)
    "scope-started-in-for-not-in": ("scope", N, [(STARTED_IF, STARTED_IF.replace('"swarm" not in', '"swarm" in'))],
                                    "proof-breaks", "is_started: swarm scope test inverted"),
    "scope-finished-spawner-literal": ("scope", N, [(FINISHED_ELIF, FINISHED_ELIF.replace('== "remote"', '== "remotes"'))],
                                       "proof-breaks", "is_finished: misspelt spawner"),
    "scope-finished-wrong-scope": ("scope", N, [(FINISHED_ELIF, FINISHED_ELIF.replace('"cluster" not in', '"swarm" not in'))],
                                   "proof-breaks", "is_finished: remote workers separated by the swarm scope instead of cluster"),
    "scope-started-no-worker-test": ("scope", N, [(STARTED_IF, STARTED_IF.replace('            worker\n            and "swarm"', '            "swarm"'))],
                                     "proof-breaks", "is_started: `worker and` dropped (only no_worker_counts_globally notices)"),
    "scope-body-changed": ("scope", N, [("return len(self.shared_started_workers) >= threshold", "return len(self.shared_started_workers) > threshold")],
                           "refused", "a pinned body changed"),
    "scope-flat-result": ("scope", N, [("        if self.is_flat():\n            return True\n        if (\n            worker\n            and \"swarm\" not in self.params[\"pool_scope\"]\n            and self.params.get(\"nets_spawner\") == \"lxc\"\n        ):\n            # is finished",
                                        "        if self.is_flat():\n            return False\n        if (\n            worker\n            and \"swarm\" not in self.params[\"pool_scope\"]\n            and self.params.get(\"nets_spawner\") == \"lxc\"\n        ):\n            # is finished")],
                          "proof-breaks", "is_finished of a flat node False"),
    "scope-harness-shape": ("travlib", TRAVLIB, [('if "cluster" not in scope and', 'if "swarm" not in scope and')],
                            "proof-breaks", "the harness exports another shape than the code selects"),
    # ---- SourcedStateBackend.get_source_scope (C13, sourceScope_matches_source)
    "pool-swapped-results": ("pool", P, [('            return "cluster"\n        elif own_params["nets_host"] != source_params["nets_host"]:\n            return "swarm"',
                                          '            return "swarm"\n        elif own_params["nets_host"] != source_params["nets_host"]:\n            return "cluster"')],
                             "proof-breaks", "cluster and swarm swapped"),
    "pool-eq-for-ne": ("pool", P, [('elif own_params["nets_host"] != source_params["nets_host"]:', 'elif own_params["nets_host"] == source_params["nets_host"]:')],
                       "proof-breaks", "host comparison inverted"),
    "pool-reordered-tests": ("pool", P, [('        elif own_params["shared_pool"].lstrip(":") == source_path:\n            return "shared"\n        elif own_params["swarm_pool"] == source_path:\n            return "own"',
                                          '        elif own_params["swarm_pool"] == source_path:\n            return "own"\n        elif own_params["shared_pool"].lstrip(":") == source_path:\n            return "shared"')],
                             "proof-breaks", "own tested before shared (differs when both pools have the same path)"),
    "pool-strip": ("pool", P, [('own_params["shared_pool"].lstrip(":")', 'own_params["shared_pool"].strip(":")')],
                   "refused", "another string method: not an atom"),
    "pool-missing-else": ("pool", P, [('        else:\n            return "shared"\n\n    @classmethod\n    def show(', '\n    @classmethod\n    def show(')],
                          "refused", "a path without return (None)"),
}

TARGET = {"tunnel": ("GenTunnel.lean", "I2N.Props.C19"), "scope": ("GenScope.lean", "I2N.Props.C04"),
          "travlib": ("GenScope.lean", "I2N.Props.C04"), "pool": ("GenPool.lean", "I2N.Props.C13")}


def source_of(target, path):
    if target == "tunnel":
        return pygen.tunnel_source(path)
    if target == "scope":
        return pygen.scope_source(node_path=path)
    if target == "travlib":
        return pygen.scope_source(travlib_path=path)
    return pygen.pool_source(path)


def run_one(name, scratch):
    target, rel, edits, expect, what = MUTANTS[name]
    src = rel if os.path.isabs(rel) else os.path.join(vlib.REPO, rel)
    text = open(src).read()
    for old, new in edits:
        if text.count(old) != 1:
            raise RuntimeError(f"{name}: the text to edit occurs {text.count(old)} times in {src}")
        text = text.replace(old, new)
    dst = os.path.join(scratch, name + "_" + os.path.basename(src))
    with open(dst, "w") as fh:
        fh.write(text)
    gen, props = TARGET[target]
    res = {"mutant": name, "what": what, "expected": expect}
    try:
        lean = source_of(target, dst)
    except pygen.Unsupported as e:
        res.update(outcome="refused", detail=str(e)[:200])
        return res
    with open(os.path.join(vlib.LEAN, "I2N", "Extracted", gen), "w") as fh:
        fh.write(lean)
    ok, log = vlib.lake_build([props])
    errs = [l for l in log.splitlines() if l.startswith("error:")]
    res.update(outcome="still-proves" if ok else "proof-breaks", detail=(errs[0][:200] if errs else ""))
    return res


def restore():
    pygen.extract_tunnel()
    pygen.extract_scope()
    pygen.extract_pool()
    ok, log = vlib.lake_build(["I2N.Props.C19", "I2N.Props.C04", "I2N.Props.C13"])
    if not ok:
        raise RuntimeError("the restored generated files do not build: " + log[-500:])


def main():
    names = sys.argv[1:] or list(MUTANTS)
    scratch = tempfile.mkdtemp(prefix="i2n-verif-pygen-")
    out = []
    try:
        for n in names:
            r = run_one(n, scratch)
            r["as_expected"] = r["outcome"] == r["expected"]
            out.append(r)
            print(json.dumps(r), flush=True)
    finally:
        shutil.rmtree(scratch, ignore_errors=True)
        restore()
    bad = [r["mutant"] for r in out if not r["as_expected"]]
    print(f"{len(out)} mutants, {len(out) - len(bad)} as expected" + (f", NOT as expected: {bad}" if bad else ""))
    return 1 if bad else 0


if __name__ == "__main__":
    sys.exit(main())
