"""Mutation sanity for the regenerated models (development tool, not part of ./check).

    /venv/bin/python harness/pygen_mutants.py [NAME ...]

Every mutant is ONE source file (of /repo, or harness/travlib.py) copied to a scratch directory with a small textual
edit; /repo and travlib.py are not touched.  The translator (harness/pygen.py) is run on the copy, the generated Lean file
is written in place of the committed one and the Props file of the property is built.  Expected: the translator refuses
the function (`refused`), or the equality theorem no longer compiles (`proof-breaks`); a semantics preserving edit may
`still-prove`.  At the end the generated files are restored from the real sources and rebuilt.
"""
import json
import os
import shutil
import sys
import tempfile

HERE = os.path.dirname(os.path.abspath(__file__))
sys.path.insert(0, HERE)
import pygen  # noqa: E402
import vlib  # noqa: E402

T = "avocado_i2n/vmnet/tunnel.py"
N = "avocado_i2n/cartgraph/node.py"
P = "avocado_i2n/states/pool.py"
TRAVLIB = os.path.join(HERE, "travlib.py")

STARTED_IF = ('            worker\n            and "swarm" not in self.params["pool_scope"]\n'
              '            and self.params.get("nets_spawner") == "lxc"\n        ):\n'
              '            # is started separately')
FINISHED_ELIF = ('            worker\n            and "cluster" not in self.params["pool_scope"]\n'
                 '            and self.params.get("nets_spawner") == "remote"\n        ):\n'
                 '            own_cluster = worker.swarm_id\n            own_cluster_finished_hosts')

# name: (target, source file, [(old, new)], expectation, what)
MUTANTS = {
    # ---- VMTunnel._get_peer_variant (C19, peerVariant_matches_source)
    "tunnel-result-literal": ("tunnel", T, [('right_remote["type"] = "externalip"', 'right_remote["type"] = "custom"')],
                              "proof-breaks", "internetip local no longer mirrored as externalip remote"),
    "tunnel-test-literal": ("tunnel", T, [('elif left_local["type"] == "internetip":', 'elif left_local["type"] == "internet_ip":')],
                            "proof-breaks", "misspelt type in a condition"),
    "tunnel-dropped-assignment": ("tunnel", T, [('            right_peer["type"] = "ip"\n            right_peer["nic"] = left_peer["nic"]\n        # road',
                                                 '            right_peer["type"] = "ip"\n        # road')],
                                  "proof-breaks", "dynip peer: the nic is no longer copied"),
    "tunnel-negated-test": ("tunnel", T, [('            if left_local["type"] == "custom":', '            if left_local["type"] != "custom":')],
                            "proof-breaks", "custom/custom test negated"),
    "tunnel-wrong-source-dict": ("tunnel", T, [('right_local["nic"] = left_remote["nic"]', 'right_local["nic"] = left_local["nic"]')],
                                 "proof-breaks", "nic taken from the wrong dictionary"),
    "tunnel-elif-to-if": ("tunnel", T, [('        elif left_remote["type"] == "externalip":', '        if left_remote["type"] == "externalip":')],
                          "still-proves", "elif turned into if: same meaning here (the two tests exclude each other)"),
    "tunnel-read-once": ("tunnel", T, [('        if left_local["type"] == "nic":\n            right_remote["type"] = "custom"',
                                        '        local_type = left_local["type"]\n        if local_type == "nic":\n            right_remote["type"] = "custom"')],
                         "still-proves", "semantics preserving: the type is read into a variable first"),
    "tunnel-aliasing": ("tunnel", T, [('        right_peer = {"type": "ip"}', '        right_peer = left_peer')],
                        "refused", "the result aliases an argument (mutation of the caller's dictionary)"),
    "tunnel-update-call": ("tunnel", T, [('            right_peer["type"] = "ip"\n            right_peer["nic"] = left_peer["nic"]\n        # road',
                                          '            right_peer.update(left_peer)\n        # road')],
                           "refused", "a method call: outside the subset"),
    "tunnel-short-circuit-read": ("tunnel", T, [('        if left_peer["type"] == "dynip":', '        if left_peer and left_peer["type"] == "dynip":')],
                                  "refused", "truthiness of a dictionary / read behind `and`"),
    # ---- TestNode.is_started / is_finished, travlib.shape_of (C04)
    "scope-started-in-for-not-in": ("scope", N, [(STARTED_IF, STARTED_IF.replace('"swarm" not in', '"swarm" in'))],
                                    "proof-breaks", "is_started: swarm scope test inverted"),
    "scope-finished-spawner-literal": ("scope", N, [(FINISHED_ELIF, FINISHED_ELIF.replace('== "remote"', '== "remotes"'))],
                                       "proof-breaks", "is_finished: misspelt spawner"),
    "scope-finished-wrong-scope": ("scope", N, [(FINISHED_ELIF, FINISHED_ELIF.replace('"cluster" not in', '"swarm" not in'))],
                                   "proof-breaks", "is_finished: remote workers separated by the swarm scope instead of cluster"),
    "scope-started-no-worker-test": ("scope", N, [(STARTED_IF, STARTED_IF.replace('            worker\n            and "swarm"', '            "swarm"'))],
                                     "proof-breaks", "is_started: `worker and` dropped (only no_worker_counts_globally notices)"),
    "scope-body-changed": ("scope", N, [("return len(self.shared_started_workers) >= threshold", "return len(self.shared_started_workers) > threshold")],
                           "refused", "a pinned body changed"),
    "scope-flat-result": ("scope", N, [("        if self.is_flat():\n            return True\n        if (\n            worker\n            and \"swarm\" not in self.params[\"pool_scope\"]\n            and self.params.get(\"nets_spawner\") == \"lxc\"\n        ):\n            # is finished",
                                        "        if self.is_flat():\n            return False\n        if (\n            worker\n            and \"swarm\" not in self.params[\"pool_scope\"]\n            and self.params.get(\"nets_spawner\") == \"lxc\"\n        ):\n            # is finished")],
                          "proof-breaks", "is_finished of a flat node False"),
    "scope-harness-shape": ("travlib", TRAVLIB, [('if "cluster" not in scope and', 'if "swarm" not in scope and')],
                            "proof-breaks", "the harness exports another shape than the code selects"),
    # ---- SourcedStateBackend.get_source_scope (C13, sourceScope_matches_source)
    "pool-swapped-results": ("pool", P, [('            return "cluster"\n        elif own_params["nets_host"] != source_params["nets_host"]:\n            return "swarm"',
                                          '            return "swarm"\n        elif own_params["nets_host"] != source_params["nets_host"]:\n            return "cluster"')],
                             "proof-breaks", "cluster and swarm swapped"),
    "pool-eq-for-ne": ("pool", P, [('elif own_params["nets_host"] != source_params["nets_host"]:', 'elif own_params["nets_host"] == source_params["nets_host"]:')],
                       "proof-breaks", "host comparison inverted"),
    "pool-reordered-tests": ("pool", P, [('        elif own_params["shared_pool"].lstrip(":") == source_path:\n            return "shared"\n        elif own_params["swarm_pool"] == source_path:\n            return "own"',
                                          '        elif own_params["swarm_pool"] == source_path:\n            return "own"\n        elif own_params["shared_pool"].lstrip(":") == source_path:\n            return "shared"')],
                             "proof-breaks", "own tested before shared (differs when both pools have the same path)"),
    "pool-strip": ("pool", P, [('own_params["shared_pool"].lstrip(":")', 'own_params["shared_pool"].strip(":")')],
                   "refused", "another string method: not an atom"),
    "pool-missing-else": ("pool", P, [('        else:\n            return "shared"\n\n    @classmethod\n    def show(', '\n    @classmethod\n    def show(')],
                          "refused", "a path without return (None)"),
    # ---- TestNode.should_rerun / shared_filtered_results (C10, shouldRerun_matches_source, filteredResults_matches_source)
    "rules-checks-swapped": ("rules", N, [('[(rerun_status, "rerun"), (stop_status, "stop")]', '[(stop_status, "stop"), (rerun_status, "rerun")]')],
                             "proof-breaks", "stop statuses validated before rerun statuses (another error wins)"),
    "rules-negative-or-zero": ("rules", N, [("        if max_tries < 0:\n            raise ValueError", "        if max_tries <= 0:\n            raise ValueError")],
                               "proof-breaks", "max_tries=0 rejected"),
    "rules-off-by-one": ("rules", N, [("max_tries - total_runs", "max_tries - total_runs - 1")], "proof-breaks", "one rerun less"),
    "rules-ge-for-gt": ("rules", N, [("        if reruns_left > 0:", "        if reruns_left >= 0:")], "proof-breaks", "rerun with nothing left"),
    "rules-stop-difference": ("rules", N, [("{*stop_status} & {*test_statuses}", "{*stop_status} - {*test_statuses}")],
                              "proof-breaks", "stop when a stop status was NOT seen"),
    "rules-violated-swapped": ("rules", N, [("{*test_statuses} - {*rerun_status}", "{*rerun_status} - {*test_statuses}")],
                               "proof-breaks", "set difference the other way round"),
    "rules-replay-default": ("rules", N, [('"max_tries", 2 if self.params.get("replay") else 1', '"max_tries", 3 if self.params.get("replay") else 1')],
                             "proof-breaks", "another default number of tries under replay"),
    "rules-lower-dropped": ("rules", N, [('            test_statuses = [r["status"].lower() for r in self.shared_results]', '            test_statuses = [r["status"] for r in self.shared_results]')],
                            "proof-breaks", "statuses of stateless nodes compared without lower()"),
    "rules-tries-after-statuses": ("rules", N, [('        if max_tries < 0:\n            raise ValueError("Number of max_tries cannot be less than zero")\n', ''),
                                                ('        # the runs total also considers', '        if max_tries < 0:\n            raise ValueError("Number of max_tries cannot be less than zero")\n        # the runs total also considers')],
                                   "proof-breaks", "negative max_tries only rejected after the status tests (a stop status hides the error)"),
    "rules-ne-for-gt": ("rules", N, [("        if len(rerun_statuses_violated) > 0:", "        if len(rerun_statuses_violated) != 0:")],
                        "still-proves", "semantics preserving: != 0 for > 0 on a size"),
    "rules-log-message": ("rules", N, [('f"Should not rerun {self}"', 'f"Will not rerun {self} any more"')], "still-proves", "a log message changed"),
    "rules-pinned-body": ("rules", N, [("self.started_worker = old_started_worker or worker", "self.started_worker = worker or old_started_worker")],
                          "refused", "the pinned body of the stateful branch changed"),
    "rules-exception-message": ("rules", N, [('f"Worker {worker.id} should not consider rerunning {self}"', 'f"Foreign worker {worker.id} for {self}"')],
                                "refused", "an exception the specification does not know"),
    "rules-side-effect": ("rules", N, [('        stop_status = self.params.get_list("stop_status", [])\n', '        stop_status = self.params.get_list("stop_status", [])\n        self.params["max_tries"] = "1"\n')],
                          "refused", "a store into the parameters"),
    "rules-continue": ("rules", N, [("            if len(disallowed_status) > 0:\n                raise ValueError(", "            if len(disallowed_status) == 0:\n                continue\n            else:\n                raise ValueError(")],
                       "refused", "continue in the unrolled loop"),
    "filtered-operands-swapped": ("rules", N, [('            if scope_filter in result["name"]:', '            if result["name"] in scope_filter:')],
                                  "proof-breaks", "substring test the other way round"),
    "filtered-scope-inverted": ("rules", N, [('            self.started_worker\n            and "swarm" not in self.params["pool_scope"]\n            and self.params.get("nets_spawner") == "lxc"\n        ):\n            # has separate results',
                                              '            self.started_worker\n            and "swarm" in self.params["pool_scope"]\n            and self.params.get("nets_spawner") == "lxc"\n        ):\n            # has separate results')],
                                "proof-breaks", "swarm scope test inverted in shared_filtered_results"),
    "filtered-separator": ("rules", N, [('self.started_worker.swarm_id + "." + self.started_worker.id', 'self.started_worker.swarm_id + "-" + self.started_worker.id')],
                           "proof-breaks", "another separator in the per-worker filter"),
    "filtered-prepend": ("rules", N, [("                results += [result]", "                results = [result] + results")],
                         "refused", "results collected in reverse order (list concatenation outside the subset)"),
    # ---- TestNode.is_occupied (C04, isOccupied_matches_source)
    "occupied-floor-zero": ("scope", N, [("return self.is_started(worker, max(max_concurrent_tries, 1))", "return self.is_started(worker, max(max_concurrent_tries, 0))")],
                            "proof-breaks", "threshold 0 allowed"),
    "occupied-default-chain": ("scope", N, [('"max_concurrent_tries", self.params.get_numeric("max_tries", 1)\n', '"max_concurrent_tries", 1\n')],
                               "proof-breaks", "max_tries no longer the default of max_concurrent_tries"),
    "occupied-min": ("scope", N, [("return self.is_started(worker, max(max_concurrent_tries, 1))", "return self.is_started(worker, min(max_concurrent_tries, 1))")],
                     "proof-breaks", "min for max"),
    "occupied-finished": ("scope", N, [("return self.is_started(worker, max(max_concurrent_tries, 1))", "return self.is_finished(worker, max(max_concurrent_tries, 1))")],
                          "refused", "another counting function: not an atom"),
    # ---- get_sources.proximity (C13, proximity_matches_source)
    "proximity-weights-swapped": ("pool", P, [("                score += 1000\n", "                score += 100\n"), ("                score += 100\n            if params[\"swarm_pool\"]", "                score += 1000\n            if params[\"swarm_pool\"]")],
                                  "proof-breaks", "host weighs more than gateway"),
    "proximity-no-else": ("pool", P, [("                score += 10\n            else:\n                score += 1\n", "                score += 10\n")],
                          "proof-breaks", "other paths get no point"),
    "proximity-host-ne": ("pool", P, [('            if params["nets_host"] == source_params["nets_host"]:\n                score += 100', '            if params["nets_host"] != source_params["nets_host"]:\n                score += 100')],
                          "proof-breaks", "host comparison inverted in the sort key"),
    "proximity-float": ("pool", P, [("            score = 0\n", "            score = 0.5\n")], "refused", "a float score"),
    # ---- TransferOps (C14, *_matches_source)
    "transfer-download-direction": ("transfer", P, [("            shutil.copy(pool_path, cache_path)\n", "            shutil.copy(cache_path, pool_path)\n")],
                                    "proof-breaks", "download copies from the cache to the pool"),
    "transfer-upload-no-skip": ("transfer", P, [('                logging.info(f"Skip upload of an already available {cache_path}")\n                return\n', '                logging.info(f"Skip upload of an already available {cache_path}")\n')],
                                "proof-breaks", "upload copies although the comparison said equal (SameFileError / needless copy)"),
    "transfer-download-negated": ("transfer", P, [("            if TransferOps.compare_local(cache_path, pool_path, params):\n                logging.info(f\"Skip download", "            if not TransferOps.compare_local(cache_path, pool_path, params):\n                logging.info(f\"Skip download")],
                                  "proof-breaks", "download skipped when the files DIFFER"),
    "transfer-hash-limit": ("transfer", P, [('local_hash = crypto.hash_file(cache_path, 1048576, "md5")\n        else:\n            local_hash = ""\n        if os.path.exists(pool_path):', 'local_hash = crypto.hash_file(cache_path, 524288, "md5")\n        else:\n            local_hash = ""\n        if os.path.exists(pool_path):')],
                            "proof-breaks", "cache hashed over another prefix than the pool"),
    "transfer-compare-missing": ("transfer", P, [('        if os.path.exists(pool_path):\n            remote_hash = crypto.hash_file(pool_path, 1048576, "md5")\n        else:\n            remote_hash = ""',
                                                  '        if os.path.exists(pool_path):\n            remote_hash = crypto.hash_file(pool_path, 1048576, "md5")\n        else:\n            remote_hash = local_hash')],
                                 "proof-breaks", "a missing pool file compares equal to anything"),
    "transfer-link-clobbers": ("transfer", P, [("            if not os.path.islink(cache_path) and os.path.exists(cache_path):\n                raise RuntimeError(", "            if os.path.islink(cache_path) and os.path.exists(cache_path):\n                raise RuntimeError(")],
                               "proof-breaks", "real data no longer protected from being replaced by a link"),
    "transfer-link-no-unlink": ("transfer", P, [("            if os.path.islink(cache_path):\n                os.unlink(cache_path)\n", "")],
                                "proof-breaks", "an existing link is not removed before linking (FileExistsError)"),
    "transfer-link-realpath": ("transfer", P, [("return os.path.realpath(cache_path) == pool_path", "return os.path.realpath(cache_path) != pool_path")],
                               "proof-breaks", "compare_link inverted for links"),
    "transfer-upload-link-allowed": ("transfer", P, [('        if os.path.islink(cache_path):\n            raise ValueError("Cannot upload a symlink to its destination")\n        else:\n            TransferOps.upload_local(cache_path, pool_path, params)',
                                                      '        TransferOps.upload_local(cache_path, pool_path, params)')],
                                     "refused", "links uploaded (the declared exception is no longer raised)"),
    "transfer-delete-cache": ("transfer", P, [("        with image_lock(pool_path, update_timeout) as lock:\n            os.unlink(pool_path)", "        with image_lock(pool_path, update_timeout) as lock:\n            os.unlink(pool_path + \".lock\")")],
                              "proof-breaks", "delete removes the lock file instead of the pool file"),
    "transfer-no-lock": ("transfer", P, [("        with image_lock(pool_path, update_timeout) as lock:\n            os.unlink(pool_path)", "        if update_timeout:\n            os.unlink(pool_path)")],
                         "refused", "the critical section of delete is no longer under image_lock (truthiness of an opaque value)"),
    "transfer-move": ("transfer", P, [("            shutil.copy(pool_path, cache_path)\n", "            shutil.move(pool_path, cache_path)\n")],
                      "refused", "a file-system call that is not an atom"),
    # ---- TestNode.default_clean_decision (C05, cleanDecision_matches_source)
    "clean-all-for-any": ("clean", N, [("            if is_reversible:\n                break\n        else:\n            is_reversible = False", "            if not is_reversible:\n                break\n        else:\n            is_reversible = False")],
                          "refused", "the flag loop no longer has the shape of `any`"),
    "clean-and-for-or": ("clean", N, [("            is_reversible |= (", "            is_reversible &= (")],
                         "refused", "both parameters must ask for removal (`&=` is not the flag pattern)"),
    "clean-mode-letter": ("clean", N, [('object_params.get("unset_mode_vms", object_params["unset_mode"])[0]\n                == "f"', 'object_params.get("unset_mode_vms", object_params["unset_mode"])[0]\n                == "r"')],
                          "proof-breaks", "vms count as reversible when their mode starts with r"),
    "clean-not-dropped": ("clean", N, [("        if not is_reversible:\n            return True", "        if is_reversible:\n            return True")],
                          "proof-breaks", "reversible nodes cleaned at once, the others through the loop"),
    "clean-flat-cleans": ("clean", N, [('            logging.debug(f"Should not clean a flat node {self}")\n            return False', '            logging.debug(f"Should not clean a flat node {self}")\n            return True')],
                          "proof-breaks", "flat nodes cleaned"),
    "clean-foreign-worker-tolerated": ("clean", N, [('            raise RuntimeError(f"Worker {worker.id} should not try to clean {self}")', '            return False')],
                                       "refused", "the declared RuntimeError is no longer raised"),
    "clean-door-changed": ("clean", N, [("            return self.is_finished(worker, -1)\n\n    @classmethod\n    def prefix_priority", "            return self.is_finished(worker, 1)\n\n    @classmethod\n    def prefix_priority")],
                           "refused", "the pinned loop over the involved workers changed"),
    "clean-default-key": ("clean", N, [('object_params.get("unset_mode_images", object_params["unset_mode"])[0]', 'object_params.get("unset_mode_images", object_params["unset_mode_vms"])[0]')],
                          "refused", "another default key: not the atom"),
    # ---- TestNode.default_run_decision (C10, defaultRunDecision_matches_source)
    "run-and-for-or": ("rules", N, [("should_run = len(self.shared_results) == 0 or self.should_rerun(worker)", "should_run = len(self.shared_results) == 0 and self.should_rerun(worker)")],
                       "proof-breaks", "a stateless node without results is not run"),
    "run-eager-rerun": ("rules", N, [("            should_run = len(self.shared_results) == 0 or self.should_rerun(worker)\n", "            again = self.should_rerun(worker)\n            should_run = len(self.shared_results) == 0 or again\n")],
                        "proof-breaks", "should_rerun evaluated (and possibly raising) although there are no results"),
    "run-scan-when-finished": ("rules", N, [("            should_scan = not self.is_finished(worker, 1)", "            should_scan = self.is_finished(worker, 1)")],
                               "proof-breaks", "the pool is scanned when the node IS finished"),
    "run-disable-always": ("rules", N, [("            if len(self.shared_filtered_results) == 0 and not should_run_from_scan:", "            if len(self.shared_filtered_results) == 0 or not should_run_from_scan:")],
                           "proof-breaks", "retries switched off also when results exist"),
    "run-disable-dropped": ("rules", N, [("                self.should_rerun = lambda _: False\n", "                pass\n")],
                            "refused", "the pinned statement no longer occurs"),
    "run-disable-true": ("rules", N, [("                self.should_rerun = lambda _: False\n", "                self.should_rerun = lambda _: True\n")],
                         "refused", "another replacement of should_rerun (attribute store outside the pin)"),
    "run-rerun-first": ("rules", N, [("            should_run = should_run or self.should_rerun(worker)", "            should_run = self.should_rerun(worker) or should_run")],
                        "proof-breaks", "should_rerun evaluated before the scan result is looked at (another error behaviour)"),
    # ---- TransferOps.download / upload / delete (C14, download_matches_source ...)
    "dispatch-link-keeps-semicolon": ("transfer", P, [('            cls.download_link(cache_path, path.replace(";", ""), params)', '            cls.download_link(cache_path, path, params)')],
                                      "proof-breaks", "link mode hands the path with its `;` on"),
    "dispatch-local-for-link": ("transfer", P, [('            cls.upload_link(cache_path, path.replace(";", ""), params)', '            cls.upload_local(cache_path, path.replace(";", ""), params)')],
                                "proof-breaks", "upload in link mode goes to upload_local (a link could be uploaded)"),
    "dispatch-remote-test": ("transfer", P, [('        if hosts != "":\n            cls.delete_remote(pool_path, params)', '        if hosts == "":\n            cls.delete_remote(pool_path, params)')],
                             "proof-breaks", "local locations treated as remote in delete"),
    "dispatch-whole-location": ("transfer", P, [('            cls.download_local(cache_path, path, params)', '            cls.download_local(cache_path, pool_path, params)')],
                                "proof-breaks", "the whole `hosts:path` string handed to download_local"),
    "dispatch-link-marker": ("transfer", P, [('        elif ";" in path:\n            cls.download_link', '        elif "," in path:\n            cls.download_link')],
                             "proof-breaks", "another link marker"),
    "dispatch-partition": ("transfer", P, [('        hosts, path = pool_path.split(":")\n        if hosts != "":\n            cls.download_remote', '        hosts, _, path = pool_path.partition(":")\n        if hosts != "":\n            cls.download_remote')],
                           "refused", "partition instead of split (no ValueError for extra colons): not an atom"),
}

TARGET = {"tunnel": ("GenTunnel.lean", "I2N.Props.C19"), "scope": ("GenScope.lean", "I2N.Props.C04"),
          "travlib": ("GenScope.lean", "I2N.Props.C04"), "pool": ("GenPool.lean", "I2N.Props.C13"),
          "rules": ("GenRules.lean", "I2N.Props.C10"), "transfer": ("GenTransfer.lean", "I2N.Props.C14"),
          "clean": ("GenClean.lean", "I2N.Props.C05")}


def source_of(target, path):
    if target == "tunnel":
        return pygen.tunnel_source(path)
    if target == "scope":
        return pygen.scope_source(node_path=path)
    if target == "travlib":
        return pygen.scope_source(travlib_path=path)
    if target == "rules":
        return pygen.rules_source(path)
    if target == "transfer":
        return pygen.transfer_source(path)
    if target == "clean":
        return pygen.clean_source(path)
    return pygen.pool_source(path)


def run_one(name, scratch):
    target, rel, edits, expect, what = MUTANTS[name]
    src = rel if os.path.isabs(rel) else os.path.join(vlib.REPO, rel)
    text = open(src).read()
    for old, new in edits:
        if text.count(old) != 1:
            raise RuntimeError(f"{name}: the text to edit occurs {text.count(old)} times in {src}")
        text = text.replace(old, new)
    dst = os.path.join(scratch, name + "_" + os.path.basename(src))
    with open(dst, "w") as fh:
        fh.write(text)
    gen, props = TARGET[target]
    res = {"mutant": name, "what": what, "expected": expect}
    try:
        lean = source_of(target, dst)
    except pygen.Unsupported as e:
        res.update(outcome="refused", detail=str(e)[:200])
        return res
    with open(os.path.join(vlib.LEAN, "I2N", "Extracted", gen), "w") as fh:
        fh.write(lean)
    ok, log = vlib.lake_build([props])
    errs = [l for l in log.splitlines() if l.startswith("error:")]
    res.update(outcome="still-proves" if ok else "proof-breaks", detail=(errs[0][:200] if errs else ""))
    return res


def restore():
    pygen.extract_tunnel()
    pygen.extract_scope()
    pygen.extract_pool()
    pygen.extract_rules()
    pygen.extract_transfer()
    pygen.extract_clean()
    ok, log = vlib.lake_build(["I2N.Props.C19", "I2N.Props.C04", "I2N.Props.C13", "I2N.Props.C10", "I2N.Props.C14",
                               "I2N.Props.C05"])
    if not ok:
        raise RuntimeError("the restored generated files do not build: " + log[-500:])


def main():
    names = sys.argv[1:] or list(MUTANTS)
    scratch = tempfile.mkdtemp(prefix="i2n-verif-pygen-")
    out = []
    try:
        for n in names:
            r = run_one(n, scratch)
            r["as_expected"] = r["outcome"] == r["expected"]
            out.append(r)
            print(json.dumps(r), flush=True)
    finally:
        shutil.rmtree(scratch, ignore_errors=True)
        restore()
    bad = [r["mutant"] for r in out if not r["as_expected"]]
    print(f"{len(out)} mutants, {len(out) - len(bad)} as expected" + (f", NOT as expected: {bad}" if bad else ""))
    return 1 if bad else 0


if __name__ == "__main__":
    sys.exit(main())
