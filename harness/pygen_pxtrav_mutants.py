"""Mutation sanity for the regenerated back-off branch of harness/pygen_pxtrav.py (development tool, not part of ./check):

    /venv/bin/python harness/pygen_pxtrav_mutants.py [NAME ...]

Like harness/pygen_pxcmd_mutants.py: every mutant is graph.py of /repo copied to a scratch directory with a small
textual edit (/repo is not touched); the generator is run on the copy, the generated Lean file is written in place of
the committed one and Props/C04.lean is built.  Expected: `refused` (the cut / the translator / a pin refuses) or
`proof-breaks` (the generated file or `backoff_matches_source` no longer compiles).  `STILL-PROVES` is a hole unless the
edit preserves the meaning.  At the end the generated file is restored from the real source.
"""
import json
import os
import shutil
import subprocess
import sys
import tempfile

HERE = os.path.dirname(os.path.abspath(__file__))
sys.path.insert(0, HERE)
import pygen  # noqa: E402
import pygen_pxtrav as px  # noqa: E402
import vlib  # noqa: E402

G = "avocado_i2n/cartgraph/graph.py"
I16 = " " * 16
I20 = " " * 20
I24 = " " * 24
BUMP = (I24 + 'next.params["max_concurrent_tries"] = (\n' + I24 + '    next.params.get_numeric("max_concurrent_tries", 0) + 1\n'
        + I24 + ')\n')

# name: ([(old, new)], what)
MUTANTS = {
    "seeded-sleep-capped": ([("await asyncio.sleep(occupied_timeout)", "await asyncio.sleep(min(occupied_timeout, 10.0))")],
                            "seeded regression: the sleep is capped at 10 s while the uncapped value is accounted"),
    "seeded-add-moved-out": ([(I16 + "occupied_at.add(next)\n", ""),
                              ("            if next.is_occupied(worker):\n", "            occupied_at.add(next)\n            if next.is_occupied(worker):\n")],
                             "seeded regression: `occupied_at.add(next)` moved out of the back-off block"),
    "seeded-reset-dropped": ([(I20 + "occupied_wait = 0.0\n", I20 + "pass\n")],
                             "seeded regression (C03b): the wait is no longer reset at a different node"),
    "regress-bb21e48": ([('* max(next.params.get_numeric("max_tries", 1), 1)', '* next.params.get_numeric("max_tries", 1)')],
                        "revert of /repo bb21e48: max_tries=0 makes the budget zero"),
    "cmp-ge": ([("if occupied_wait > test_duration:", "if occupied_wait >= test_duration:")], "`>` -> `>=`"),
    "cmp-lt": ([("if occupied_wait > test_duration:", "if occupied_wait < test_duration:")], "`>` -> `<`"),
    "cmp-against-timeout": ([("if occupied_wait > test_duration:", "if occupied_wait > occupied_timeout:")],
                            "the wait is compared with one time out instead of the budget"),
    "accumulate-first": ([(I20 + "occupied_wait += occupied_timeout\n", ""),
                          (I20 + "if occupied_wait > test_duration:\n", I20 + "occupied_wait += occupied_timeout\n" + I20 + "if occupied_wait > test_duration:\n")],
                         "the time out is added before the comparison"),
    "assign-for-accumulate": ([("occupied_wait += occupied_timeout", "occupied_wait = occupied_timeout")], "`+=` -> `=`"),
    "accumulate-twice": ([("occupied_wait += occupied_timeout", "occupied_wait += occupied_timeout + occupied_timeout")], "off by one time out"),
    "membership-negated": ([("if next in occupied_at:", "if next not in occupied_at:")], "`in` -> `not in`"),
    "add-only-when-new": ([(I16 + "occupied_at.add(next)\n", ""), (I20 + "occupied_wait = 0.0\n", I20 + "occupied_wait = 0.0\n" + I20 + "occupied_at = {next}\n")],
                          "the set is replaced at a new node (the wait of the others is forgotten)"),
    "path-not-reset": ([(I16 + "traverse_path = [root]\n" + I16 + "# postpone", I16 + "traverse_path = [next]\n" + I16 + "# postpone")],
                       "the path is reset to the occupied node instead of the root"),
    "path-reset-dropped": ([(I16 + "traverse_path = [root]\n" + I16 + "# postpone", I16 + "# postpone")], "the path is not reset"),
    "default-timeout": ([('"test_timeout", 3600\n', '"test_timeout", 360\n')], "default of test_timeout"),
    "default-max-tries": ([('* max(next.params.get_numeric("max_tries", 1), 1)', '* max(next.params.get_numeric("max_tries", 2), 1)')],
                          "default of max_tries"),
    "floor-changed": ([("round(max(test_duration / 1000, 0.1), 2)", "round(max(test_duration / 1000, 1.0), 2)")], "shortest sleep 1 s"),
    "permill-changed": ([("round(max(test_duration / 1000, 0.1), 2)", "round(max(test_duration / 100, 0.1), 2)")], "percent instead of permill"),
    "min-for-max": ([("round(max(test_duration / 1000, 0.1), 2)", "round(min(test_duration / 1000, 0.1), 2)")], "`max` -> `min`"),
    "bump-by-two": ([('next.params.get_numeric("max_concurrent_tries", 0) + 1', 'next.params.get_numeric("max_concurrent_tries", 0) + 2')],
                    "the bump adds two"),
    "bump-unconditional": ([(BUMP, ""), (I20 + "occupied_wait += occupied_timeout\n", BUMP.replace(I24, I20) + I20 + "occupied_wait += occupied_timeout\n")],
                           "the bump no longer depends on the comparison"),
    "bump-dropped": ([(BUMP, "")], "no bump at all"),
    "sleep-constant": ([("await asyncio.sleep(occupied_timeout)", "await asyncio.sleep(0.1)")], "a constant sleep"),
    "no-sleep": ([(I16 + "await asyncio.sleep(occupied_timeout)\n", "")], "the branch no longer suspends"),
    "second-await": ([(I16 + "occupied_at.add(next)\n", I16 + "occupied_at.add(next)\n" + I16 + "await asyncio.sleep(0)\n")],
                     "a second suspension inside the branch"),
    "state-touched-elsewhere": ([("            if previous in next.cleanup_nodes:\n", "            occupied_wait = 0.0\n            if previous in next.cleanup_nodes:\n")],
                                "the wait is reset on every productive iteration (outside the branch)"),
    "initial-wait": ([("occupied_at, occupied_wait = set(), 0.0", "occupied_at, occupied_wait = set(), 1.0")], "initial loop state"),
    "else-added": ([(I16 + "await asyncio.sleep(occupied_timeout)\n" + I16 + "continue\n", I16 + "await asyncio.sleep(occupied_timeout)\n" + I16 + "continue\n            else:\n" + I16 + "occupied_wait = 0.0\n")],
                   "an `else` of the occupied test"),
}


def build(target):
    p = subprocess.run(["lake", "build", target], cwd=vlib.LEAN, stdout=subprocess.PIPE, stderr=subprocess.STDOUT, text=True,
                       timeout=900)
    errs = [l for l in p.stdout.splitlines() if "error" in l.lower()]
    return p.returncode == 0, (errs[0][:160] if errs else "")


def main():
    names = sys.argv[1:] or list(MUTANTS)
    tmp = tempfile.mkdtemp(prefix="i2n-verif-pxtravmut-")
    out = {}
    try:
        for name in names:
            edits, what = MUTANTS[name]
            src = open(os.path.join(vlib.REPO, G)).read()
            for old, new in edits:
                if src.count(old) != 1:
                    raise SystemExit(f"{name}: the text to edit occurs {src.count(old)} times in {G}")
                src = src.replace(old, new, 1)
            compile(src, name, "exec")
            path = os.path.join(tmp, name + ".py")
            open(path, "w").write(src)
            try:
                text = px.backoff_source(path)
            except pygen.Unsupported as e:
                out[name] = ("refused", str(e)[:200], what)
                print(name, *out[name][:2], flush=True)
                continue
            pygen.write_if_changed(pygen._lean_path("GenBackoff.lean"), text)
            ok, err = build("I2N.Props.C04")
            out[name] = ("STILL-PROVES" if ok else "proof-breaks", err, what)
            print(name, *out[name][:2], flush=True)
    finally:
        shutil.rmtree(tmp, ignore_errors=True)
        px.extract_backoff()
        build("I2N.Props.C04")
    print(json.dumps(out, indent=1))
    return 1 if any(v[0] == "STILL-PROVES" for v in out.values()) else 0


if __name__ == "__main__":
    sys.exit(main())
