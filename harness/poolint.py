"""C13, end-to-end stream: the REAL stack SourcedStateBackend -> QCOW2ImageTransfer -> TransferOps -> image_lock on real
temporary directories (local pools, default locking enabled), compared call by call with the Lean pool model
(`drv_pool`, line kind `e2e`) that is fed with the file system as it is observed before the call: the cache names, the RAW
directory listing of every source (state files, lock files left by earlier transfers, image sub-directories, junk) and the
outcome of the cache comparison.  The model predicts the result and the contacts; the contacts are then checked against
what really changed on disk (a `set@loc` must have put the files there, an `unset@loc` removed them, a `get@loc` refreshed
the cache, nothing else changed), and the listing clause of the property is judged directly: a state is reported only if
its state file is in the cache or in a permitted source.

Only the local cache hooks (`_show/_get/_set/_unset`) are file based stand-ins and the qemu-img lookup of a backing state
is stubbed to "none", as in the selftests.  Remote sources (`host:path`) cannot be exercised offline; link-mode pools are
covered at the TransferOps level by C14."""
import os
import shutil
import tempfile

import vlib

U = ["a", "b", "launch", "guisetup.noop"]
VM_ID = "vm1-id"
IMAGE = "image1"
POOLS = ["shared", "m1", "m2", "own"]
# remote sources: two hosts of one cluster behind ONE gateway address, told apart by the forwarded port only (as in nets.cfg)
REMOTE = {"r1": ("netR1", "cluster1.net.lan", "221"), "r2": ("netR2", "cluster1.net.lan", "222")}


def _prefix(pool):
    """where the files of a pool live below the scratch root"""
    if pool in REMOTE:
        _, host, port = REMOTE[pool]
        return f"ep/{host}_{port}/pools/{pool}"
    return pool


def _loc(root, pool):
    """the location string as it stands in <op>_location"""
    return f"{REMOTE[pool][0]}:/pools/{pool}" if pool in REMOTE else ":" + os.path.join(root, pool)
_impl = {}


def _classes(poolmod=None):
    if "State" in _impl:
        return _impl
    if poolmod is None:
        from avocado_i2n.states import pool as poolmod
    from virttest.utils_params import Params

    class Transfer(poolmod.QCOW2ImageTransfer):
        @classmethod
        def get_dependency(cls, state, params):
            return ""

    def files(params, state):
        """cache files of a state: image states have one file, a vm state has its memory file and one file per image"""
        base = os.path.join(params["swarm_pool"], params["object_id"])
        if params["object_type"] in ("images", "nets/vms/images"):
            return [os.path.join(base, params["images"], state + ".qcow2")]
        return [os.path.join(base, im, state + ".qcow2") for im in params.objects("images")] + \
               [os.path.join(base, state + ".state")]

    class FileCache(poolmod.SourcedStateBackend):
        transport = Transfer
        epoch = [0]

        @classmethod
        def _show(cls, params, object=None):
            last = files(params, "x")[-1]
            d, ext = os.path.dirname(last), os.path.splitext(last)[1]
            return sorted(f[:-len(ext)] for f in os.listdir(d) if f.endswith(ext)) if os.path.isdir(d) else []

        @classmethod
        def _get(cls, params, object=None):
            pass

        @classmethod
        def _set(cls, params, object=None):
            for path in files(params, params["set_state"]):
                os.makedirs(os.path.dirname(path), exist_ok=True)
                with open(path, "w") as fd:
                    fd.write(f"{params['set_state']}@{cls.epoch[0]}")

        @classmethod
        def _unset(cls, params, object=None):
            for path in files(params, params["unset_state"]):
                if os.path.exists(path):
                    os.unlink(path)

    import hashlib

    class FakeSession:
        """a shell on the endpoint (address, port): its file system is <scratch root>/ep/<address>_<port>"""
        def __init__(self, client, host, port, *a, **k):
            self.key = f"{host}_{port}"

        def _p(self, path):
            return os.path.join(_impl["root"], "ep", self.key, path.strip("'\"").lstrip("/"))

        def cmd_status_output(self, cmd, *a, **k):
            if cmd.startswith("ls "):
                d = self._p(cmd[3:].strip())
                return (0, "\n".join(sorted(os.listdir(d)))) if os.path.isdir(d) else (2, "No such file or directory")
            if cmd.startswith("head -c"):
                path = cmd.split("|")[0].split(None, 3)[3].strip()
                data = open(self._p(path), "rb").read(1048576) if os.path.isfile(self._p(path)) else b""
                return 0, hashlib.md5(data).hexdigest() + "  -"
            return 1, "unsupported: " + cmd

        def cmd(self, cmd, *a, **k):
            if cmd.startswith("rm "):
                os.unlink(self._p(cmd[3:].strip()))
                return ""
            return self.cmd_status_output(cmd)[1]

        def cmd_output(self, cmd, *a, **k):
            return self.cmd_status_output(cmd)[1]

        def close(self):
            pass

    def _endpoint(host, port):
        return os.path.join(_impl["root"], "ep", f"{host}_{port}")

    def copy_files_from(host, client, user, pw, port, remote_path, local_path, *a, **k):
        os.makedirs(os.path.dirname(local_path), exist_ok=True)
        shutil.copy(os.path.join(_endpoint(host, port), remote_path.lstrip("/")), local_path)

    def copy_files_to(host, client, user, pw, port, local_path, remote_path, *a, **k):
        dst = os.path.join(_endpoint(host, port), remote_path.lstrip("/"))
        os.makedirs(os.path.dirname(dst), exist_ok=True)
        shutil.copy(local_path, dst)

    poolmod.remote.remote_login = lambda *a, **k: FakeSession(*a, **k)
    poolmod.remote.copy_files_from = copy_files_from
    poolmod.remote.copy_files_to = copy_files_to
    _impl.update(State=FileCache, Params=Params, pool=poolmod, files=files, root=None)
    return _impl


def reset():
    _impl.clear()


# ---------------------------------------------------------------------------------------------------------------------

def gen_seq(rng):
    """an explicit, replayable description: initial files (relative to the scratch root) and the calls"""
    is_image = rng.random() < 0.6
    ext = ".qcow2" if is_image else ".state"
    sub = f"{VM_ID}/{IMAGE}" if is_image else VM_ID
    init = {}
    use_remote = rng.random() < 0.4
    for pool in POOLS + (list(REMOTE) if use_remote else []):
        pre = _prefix(pool)
        for s in U:
            r = rng.random()
            if r < 0.35:
                content = rng.choice(["x", "y"])
                init[f"{pre}/{sub}/{s}{ext}"] = content
                if not is_image:
                    init[f"{pre}/{VM_ID}/{IMAGE}/{s}.qcow2"] = content
                if rng.random() < 0.3 and pool not in REMOTE:
                    init[f"{pre}/{sub}/{s}{ext}.lock"] = ""
            elif r < 0.5 and pool != "own" and pool not in REMOTE:
                init[f"{pre}/{sub}/{s}{ext}.lock"] = ""          # a lock file without its state (left by a removal)
        if rng.random() < 0.15 or pool in REMOTE:
            init[f"{pre}/{sub}/notes.txt"] = "junk"              # (also makes sure the remote directory exists)
    ops = []
    for _ in range(rng.randint(1, 8)):
        op = rng.choice(["show", "show", "get", "set", "set", "unset"])
        scopes = rng.choice([["own", "shared"], ["own", "shared"], ["shared"], ["own"], ["own", "swarm", "cluster", "shared"],
                             ["swarm", "shared"], ["own", "swarm"]] + ([["own", "cluster"], ["cluster", "shared"],
                                                                       ["own", "swarm", "cluster", "shared"]] if use_remote else []))
        locs = rng.sample(["shared", "m1", "m2", "own"] + (list(REMOTE) * 2 if use_remote else []), rng.randint(1, 3))
        locs = list(dict.fromkeys(locs))
        if op in ("set", "unset") and any(p in REMOTE for p in locs) and not is_image:
            locs = [p for p in locs if p not in REMOTE] or ["shared"]     # (vm states are not uploaded to remote mirrors here)
        ops.append({"op": op, "state": rng.choice(U), "scopes": scopes, "locs": locs})
    return {"kind": "e2e", "is_image": is_image, "init": init, "ops": ops}


def _snapshot(root):
    snap = {}
    for d, _, fs in os.walk(root):
        for f in fs:
            p = os.path.join(d, f)
            with open(p, errors="replace") as fd:
                snap[os.path.relpath(p, root)] = fd.read()
    return snap


def _state_files(pool, is_image, state):
    pool = _prefix(pool) if pool else pool
    if is_image:
        return [f"{pool}/{VM_ID}/{IMAGE}/{state}.qcow2"]
    return [f"{pool}/{VM_ID}/{IMAGE}/{state}.qcow2", f"{pool}/{VM_ID}/{state}.state"]


def run_seq(spec, poolmod=None):
    """execute one sequence on the real stack; returns the records (one per call)"""
    im = _classes(poolmod)
    root = tempfile.mkdtemp(prefix="i2n-c13e2e-")
    im["root"] = root
    im["pool"].TransferOps._session_cache = {}
    recs = []
    try:
        for rel, content in spec["init"].items():
            p = os.path.join(root, rel)
            os.makedirs(os.path.dirname(p), exist_ok=True)
            with open(p, "w") as fd:
                fd.write(content)
        is_image = spec["is_image"]
        ext = ".qcow2" if is_image else ".state"
        sub = f"{VM_ID}/{IMAGE}" if is_image else VM_ID
        for i, o in enumerate(spec["ops"]):
            im["State"].epoch[0] = i + 1
            op, state = o["op"], o["state"]
            locs = [_loc(root, p) for p in o["locs"]]
            d = {"nets": "net1", "vms": "vm1", "images": IMAGE, "object_id": VM_ID,
                 "object_type": "nets/vms/images" if is_image else "nets/vms",
                 "swarm_pool": os.path.join(root, "own"), "shared_pool": os.path.join(root, "shared"),
                 "nets_gateway": "", "nets_host": "", "pool_scope": " ".join(o["scopes"]), "update_pool_timeout": "5",
                 "nets_shell_client": "ssh", "nets_shell_host": "localhost", "nets_shell_port": "22", "nets_username": "root",
                 "nets_password": "x", "nets_shell_prompt": "#", "nets_file_transfer_client": "scp",
                 "nets_file_transfer_port": "22",
                 f"{op}_state": state, f"{op}_location": " ".join(locs)}
            for net, host, port in REMOTE.values():
                d.update({f"nets_gateway_{net}": host, f"nets_host_{net}": "h" + port, f"nets_shell_host_{net}": host,
                          f"nets_shell_port_{net}": port, f"nets_file_transfer_port_{net}": port})
            params = im["Params"](d)
            before = _snapshot(root)
            cache = sorted(f[:-len(ext)] for f in os.listdir(os.path.join(root, "own", sub)) if f.endswith(ext)) \
                if os.path.isdir(os.path.join(root, "own", sub)) else []
            listings, valids = {}, {}
            for p in o["locs"]:
                dd = os.path.join(root, _prefix(p), sub)
                listings[p] = sorted(os.listdir(dd)) if os.path.isdir(dd) else []
                if p in REMOTE:      # compare_remote: "" for a missing cache file against the md5 of what `head` prints
                    valids[p] = all(c in before and before.get(c) == before.get(q, "") for c, q in
                                    zip(_state_files("own", is_image, state), _state_files(p, is_image, state)))
                else:
                    valids[p] = all(before.get(c, "") == before.get(q, "") for c, q in
                                    zip(_state_files("own", is_image, state), _state_files(p, is_image, state)))
            try:
                r = getattr(im["State"], op)(params, None)
                res = "ok:" + ",".join(sorted(set(r))) if op == "show" else "ok"
            except ValueError:
                res = "valueError"
            except RuntimeError as e:
                res = "noLocalState" if "requires local" in str(e) else "exc:RuntimeError"
            except Exception as e:      # noqa: a transfer of a file that is not there - outside the protocol
                res = "exc:" + type(e).__name__
            after = _snapshot(root)
            recs.append({"i": i, "op": o, "before": before, "after": after, "cache": cache, "listings": listings,
                         "valids": valids, "res": res, "root": root})
    finally:
        shutil.rmtree(root, ignore_errors=True)
    return recs


def line(spec, rec):
    o = rec["op"]
    root = rec["root"]
    P = lambda p: _loc(root, p)     # noqa
    nets = ";".join(f"{net}={host},h{port}" for net, host, port in REMOTE.values())
    return "|".join(["e2e", "1" if spec["is_image"] else "0", o["op"], " ".join(o["scopes"]),
                     ",".join(["", "", os.path.join(root, "own"), os.path.join(root, "shared")]), nets,
                     " ".join(P(p) for p in o["locs"]), " ".join(rec["cache"]),
                     ";".join(f"{P(p)}={','.join(v)}" for p, v in rec["listings"].items()),
                     ";".join(f"{P(p)}={1 if v else 0}" for p, v in rec["valids"].items()), o["state"]])


def judge(ctx, spec, recs, answers):
    """compare with the model's answers and judge the property clauses on the real file system"""
    is_image = spec["is_image"]
    for rec, ans in zip(recs, answers):
        o, root = rec["op"], rec["root"]
        op, state = o["op"], o["state"]
        rep = dict(spec, ops=spec["ops"][:rec["i"] + 1])
        want_res, _, want_contacts = ans.partition(" # ")
        contacts = [c.replace(":" + root + "/", "") for c in want_contacts.split()]
        for pool, (net, _h, _p) in REMOTE.items():
            contacts = [c.replace(f"{net}:/pools/{pool}", pool) for c in contacts]
        ctx.count(f"e2e.{op}.{'image' if is_image else 'vm'}")
        if rec["res"].startswith("exc:"):
            ctx.count("e2e.outside-protocol." + rec["res"][4:])
            continue
        ctx.count("e2e.result." + rec["res"].split(":")[0])
        if rec["res"] != want_res:
            ctx.disagree(f"e2e#{rec['i']}:{op}", rep, want_res, rec["res"])
        before, after = rec["before"], rec["after"]
        permitted = [p for p in o["locs"] if (p in REMOTE and "cluster" in o["scopes"]) or
                     (p not in REMOTE and p != "own" and "shared" in o["scopes"])]
        if op == "show" and rec["res"].startswith("ok:"):
            for x in (rec["res"][3:].split(",") if rec["res"] != "ok:" else []):
                if x not in U:
                    continue
                where = (["own"] if "own" in o["scopes"] else []) + permitted
                if not any(_state_files(w, is_image, x)[-1] in before for w in where):
                    ctx.violate("e2e:state-reported-present-but-in-no-permitted-source",
                                f"call #{rec['i']} show reports `{x}` although its state file is neither in the cache nor in a "
                                f"permitted source ({where}); directory listings: {rec['listings']}", rep)
        # the contacts the model predicts must be what happened on disk
        expected_changed = set()
        for c in contacts:
            kind, _, loc = c.partition("@")
            if c == "local.set":
                expected_changed.update(_state_files("own", is_image, state))
            elif c == "local.unset":
                expected_changed.update(_state_files("own", is_image, state))
                if any(f in after for f in _state_files("own", is_image, state)):
                    ctx.violate("e2e:local-state-survives-unset", f"call #{rec['i']}", rep)
            elif kind == "set":
                for cf, pf in zip(_state_files("own", is_image, state), _state_files(loc, is_image, state)):
                    expected_changed.add(pf)
                    if after.get(pf) is None or after.get(pf) != after.get(cf):
                        ctx.violate("e2e:set-did-not-reach-a-permitted-mirror",
                                    f"call #{rec['i']} set {state}: {pf} is {after.get(pf)!r}, the cache has {after.get(cf)!r}", rep)
            elif kind == "unset":
                for pf in _state_files(loc, is_image, state):
                    expected_changed.add(pf)
                    if pf in after:
                        ctx.violate("e2e:unset-did-not-reach-a-permitted-mirror", f"call #{rec['i']} unset {state}: {pf} is still there",
                                    rep)
            elif kind == "get":
                for cf, pf in zip(_state_files("own", is_image, state), _state_files(loc, is_image, state)):
                    expected_changed.add(cf)
                    if after.get(cf) != after.get(pf):
                        ctx.violate("e2e:get-did-not-refresh-the-cache", f"call #{rec['i']} get {state}: cache {after.get(cf)!r}, "
                                    f"source {after.get(pf)!r}", rep)
        changed = {p for p in set(before) | set(after) if before.get(p) != after.get(p) and not p.endswith(".lock")}
        extra = sorted(changed - expected_changed)
        if extra:
            ctx.violate("e2e:files-changed-outside-the-permitted-contacts",
                        f"call #{rec['i']} {op} {state} scopes={o['scopes']} sources={o['locs']}: changed {extra}, the permitted "
                        f"contacts are {contacts}", rep)


def run(ctx, n, driver="drv_pool", specs=None):
    """n generated sequences (or the given ones) through the real stack and the model"""
    specs = specs if specs is not None else [gen_seq(ctx.rng) for _ in range(n)]
    cwd = os.getcwd()
    all_recs, lines = [], []
    try:
        for spec in specs:
            recs = run_seq(spec)
            all_recs.append((spec, recs))
            lines += [line(spec, r) for r in recs]
    finally:
        os.chdir(cwd)
    answers = vlib.driver(driver, lines)
    k = 0
    for spec, recs in all_recs:
        ctx.case({"kind": "e2e", "object": "image" if spec["is_image"] else "vm", "calls": [o["op"] for o in spec["ops"]],
                  "initial_files": len(spec["init"])}, nontrivial=True)
        judge(ctx, spec, recs, answers[k:k + len(recs)])
        k += len(recs)
