"""Mutation sanity for the regenerated loop bodies of harness/pygen_pxcmd.py (development tool, not part of ./check):

    /venv/bin/python harness/pygen_pxcmd_mutants.py [NAME ...]

Like harness/pygen_mutants.py: every mutant is ONE source file of /repo copied to a scratch directory with a small
textual edit (/repo is not touched); the generator is run on the copy, the generated Lean file is written in place of
the committed one and the Props file is built.  Expected: `refused` (the cut / the translator / a pin refuses) or
`proof-breaks` (the generated file or the equality theorem no longer compiles).  `still-proves` is a hole unless the
edit preserves the meaning.  At the end the generated files are restored from the real sources.
"""
import json
import os
import shutil
import subprocess
import sys
import tempfile

HERE = os.path.dirname(os.path.abspath(__file__))
sys.path.insert(0, HERE)
import pygen  # noqa: E402
import pygen_pxcmd as px  # noqa: E402
import vlib  # noqa: E402

C = "avocado_i2n/cmd_parser.py"
M = "avocado_i2n/plugins/manu.py"

NETS_GUARD = ('                if nets_str != "" and explicit_nets is not None:\n'
              '                    raise ValueError(\n'
              '                        f"Cannot specify a nets restriction \'{nets_str.rstrip()}\' together "\n'
              '                        f"with explicit net suffixes {explicit_nets}"\n'
              '                    )\n')

# name: (target, file, [(old, new)], what)
MUTANTS = {
    "cmd-and-for-or": ("cmd", C, [('if key == "only" or key == "no":', 'if key == "only" and key == "no":')],
                       "`or` -> `and` in the test of the only/no branch"),
    "cmd-key-literal": ("cmd", C, [('elif key == "nets":', 'elif key == "net":')], "misspelt key of the nets= branch"),
    "cmd-guard-and-or": ("cmd", C, [('if nets_str != "" and explicit_nets is not None:', 'if nets_str != "" or explicit_nets is not None:')],
                         "conflict guard of the only_nets branch: `and` -> `or`"),
    "cmd-regress-nets-order": ("cmd", C, [(NETS_GUARD, "")], "revert of /repo 893de05: no conflict check in the only_nets branch"),
    "cmd-guard-after-computation": ("cmd", C, [(NETS_GUARD + '                # TODO: unify nets_str with vm_strs treatment across the Cartesian graph interface\n'
                                                '                param_dict["nets"] = " ".join(\n                    param.all_suffixes_by_restriction(nets_str)\n                )\n',
                                                '                param_dict["nets"] = " ".join(\n                    param.all_suffixes_by_restriction(nets_str)\n                )\n' + NETS_GUARD)],
                                    "conflict guard moved behind the evaluation of the restriction (seeded C11b the other way round)"),
    "cmd-regress-prefix-match": ("cmd", C, [('re.fullmatch("(only|no)_nets", key)', 're.match("(only|no)_nets", key)')],
                                 "revert of /repo 6e359ac for nets"),
    "cmd-regress-prefix-match-vm": ("cmd", C, [('re.fullmatch(f"(only|no)_{vm_name}", key)', 're.match(f"(only|no)_{vm_name}", key)')],
                                    "revert of /repo 6e359ac for vms"),
    "cmd-default-changed": ("cmd", C, [("    use_tests_default = True\n", "    use_tests_default = False\n")],
                            "initial loop state: the default test set is never used"),
    "cmd-vm-assign-for-append": ("cmd", C, [("vm_strs[vm_name] += vm_str", "vm_strs[vm_name] = vm_str")],
                                 "seeded C11: a second restriction of a vm replaces the first"),
    "cmd-nets-guard-negated": ("cmd", C, [('            if nets_str != "":\n', '            if nets_str == "":\n')],
                               "guard of the nets= branch negated"),
    "cmd-else-keeps-commas": ("cmd", C, [('            # NOTE: comma on the command line is space in a config file\n            value = value.replace(",", " ")\n', "")],
                              "plain K=V: commas no longer become spaces"),
    "cmd-malformed-skipped": ("cmd", C, [('            raise ValueError(\n                f"Found malformed parameter on the command line \'{cmd_param}\' - "\n                f"must be of the form <key>=<val>"\n            )',
                                          '            continue')],
                              "a malformed argument is skipped instead of rejected"),
    "cmd-malformed-negated": ("cmd", C, [("        if re_param is None:", "        if re_param is not None:")], "malformed test negated"),
    "cmd-elif-reordered": ("cmd", C, [('        elif key.startswith("only_") or key.startswith("no_"):', '        elif key == "zzz":'),
                                      ('        elif key == "vms":', '        elif key.startswith("only_") or key.startswith("no_"):\n            pass\n        elif key == "vms":')],
                           "the object restriction branch emptied and moved"),
    "cmd-unknown-object-accepted": ("cmd", C, [('                    raise ValueError(\n                        f"Invalid object restriction {key} (no such object)"\n                    )', '                    pass')],
                                    "an unknown object restriction is ignored"),
    "cmd-explicit-not-recorded": ("cmd", C, [("            explicit_nets = value\n", "")], "nets= no longer remembered for the later conflict check"),
    "cmd-reset-tests-str": ("cmd", C, [("        (key, value) = re_param.group(1, 2)\n", '        (key, value) = re_param.group(1, 2)\n        tests_str = ""\n')],
                            "an extra unpinned store to a loop state variable"),
    # ---- Manu.run
    "manu-retcode-or": ("manu", M, [("                    retcode = 1\n            except", "                    retcode = retcode or 1\n            except")],
                        "seeded C20b style: `retcode = retcode or …`"),
    "manu-in-for-not-in": ("manu", M, [('not in [None, 0]', 'in [None, 0]')], "test of the step's return value negated"),
    "manu-none-fails": ("manu", M, [('not in [None, 0]', 'not in [0]')], "a step returning None counts as failed"),
    "manu-handler-keeps-retcode": ("manu", M, [('                LOG_UI.error("Use \'export AVOCADO_LOG_EARLY=1\' for further details.")\n                retcode = 1\n',
                                                '                LOG_UI.error("Use \'export AVOCADO_LOG_EARLY=1\' for further details.")\n')],
                                   "a raising step no longer sets the return code"),
    "manu-initial-retcode": ("manu", M, [("        retcode = 0\n", "        retcode = 1\n")], "initial return code"),
    "manu-break-on-failure": ("manu", M, [('                LOG_UI.error("Use \'export AVOCADO_LOG_EARLY=1\' for further details.")\n                retcode = 1\n',
                                           '                LOG_UI.error("Use \'export AVOCADO_LOG_EARLY=1\' for further details.")\n                retcode = 1\n                break\n')],
                              "the chain stops at the first raising step"),
    "manu-getattr-inside-try": ("manu", M, [('            setup_func = getattr(intertest, setup_step)\n            try:\n', '            try:\n                setup_func = getattr(intertest, setup_step)\n')],
                                "an unknown step is swallowed by the handler"),
    "manu-regress-objects": ("manu", M, [('run_params.get("setup", "").split()', 'run_params.objects("setup")')],
                             "revert of /repo 3361dd0: repeated steps dropped"),
    "manu-return-zero": ("manu", M, [("        return retcode\n", "        return 0\n")], "the return code is dropped"),
    "manu-try-else": ("manu", M, [("        log.info(\"Manual setup chain finished.\")", "        log.info(\"Manual setup chain finished.\")"),
                                  ("                retcode = 1\n\n        log.info", "                retcode = 1\n            else:\n                retcode = 0\n\n        log.info")],
                      "a succeeding step resets the return code (try … else)"),
}

TARGETS = {"cmd": (px.cmd_source, "GenCmd.lean", "I2N.Props.C11"), "manu": (px.manu_source, "GenManu.lean", "I2N.Props.C20")}


def build(target):
    p = subprocess.run(["lake", "build", target], cwd=vlib.LEAN, stdout=subprocess.PIPE, stderr=subprocess.STDOUT, text=True,
                       timeout=900)
    errs = [l for l in p.stdout.splitlines() if "error" in l.lower()]
    return p.returncode == 0, (errs[0][:160] if errs else "")


def main():
    names = sys.argv[1:] or list(MUTANTS)
    tmp = tempfile.mkdtemp(prefix="i2n-verif-pxmut-")
    out = {}
    try:
        for name in names:
            tgt, rel, edits, what = MUTANTS[name]
            src = open(os.path.join(vlib.REPO, rel)).read()
            for old, new in edits:
                if old not in src:
                    raise SystemExit(f"{name}: the text to edit is not in {rel}")
                src = src.replace(old, new, 1)
            path = os.path.join(tmp, name + ".py")
            open(path, "w").write(src)
            gen, lean, props = TARGETS[tgt]
            try:
                text = gen(path)
            except pygen.Unsupported as e:
                out[name] = ("refused", str(e)[:160], what)
                print(name, *out[name][:2], flush=True)
                continue
            pygen.write_if_changed(pygen._lean_path(lean), text)
            ok, err = build(props)
            out[name] = ("STILL-PROVES" if ok else "proof-breaks", err, what)
            print(name, *out[name][:2], flush=True)
    finally:
        shutil.rmtree(tmp, ignore_errors=True)
        px.extract_cmd()
        px.extract_manu()
        build("I2N.Props.C11")
        build("I2N.Props.C20")
    print(json.dumps(out, indent=1))
    return 1 if any(v[0] == "STILL-PROVES" for v in out.values()) else 0


if __name__ == "__main__":
    sys.exit(main())
